"""Helpers shared by the concurrency harnesses C22 / C25 / C29 / C30.

``SymLoop`` is ``vlib.miniloop.MiniLoop`` with

* an **integer** virtual clock (symbolic floats are mostly inconclusive under CrossHair; only order and differences
  of instants matter to the code under test);
* timers kept in a plain list and selected by **explicit comparisons** of their (possibly symbolic) deadlines - that
  comparison is where the solver forks, i.e. where every ordering of the symbolic instants (ties included) is explored;
* asyncio's batch semantics for timers: when the ready queue is empty the clock jumps to the earliest deadline and
  **all** timers due at that instant are moved to the ready queue together (in scheduling order), exactly like
  ``BaseEventLoop._run_once``.  So two completions with equal deadlines land in the same loop iteration (e.g. in the
  same ``done`` set of ``asyncio.wait``), while unequal deadlines are separated by a full drain of the ready queue.

Nothing here implements behaviour of the code under test.
"""
from __future__ import annotations

import asyncio
from asyncio import events
from typing import Any, Callable, List

from vlib.miniloop import MiniLoop


class Deadlock(RuntimeError):
    """Main task not finished and nothing can run any more (a liveness failure of the code under test)."""


class SymLoop(MiniLoop):
    def __init__(self) -> None:
        super().__init__()
        self._now = 0
        self._tl: List[list] = []  # [when, handle] in scheduling order
        self.steps = 0

    def call_at(self, when, callback, *args, context=None):
        h = events.TimerHandle(when, callback, args, self, context)
        self._tl.append([when, h])
        return h

    def call_later(self, delay, callback, *args, context=None):
        return self.call_at(self._now + delay, callback, *args, context=context)

    def _fire_due_timers(self) -> bool:
        live = [e for e in self._tl if not e[1]._cancelled]
        if not live:
            self._tl = []
            return False
        best = live[0][0]
        for e in live[1:]:
            if e[0] < best:  # symbolic fork: which deadline is earliest
                best = e[0]
        if best > self._now:
            self._now = best
        rest = []
        for e in live:
            if e[0] <= self._now:  # symbolic fork: ties fire in the same iteration
                self._ready.append(e[1])
            else:
                rest.append(e)
        self._tl = rest
        return True

    def run_until_complete(self, coro):
        events._set_running_loop(self)
        try:
            t = self.create_task(coro)
            while not t.done():
                if self._ready:
                    h = self._ready.popleft()
                    if not h._cancelled:
                        self.steps += 1
                        h._run()
                elif not self._fire_due_timers():
                    raise Deadlock("deadlock: main task pending, no ready handles, no timers")
            return t.result()
        finally:
            events._set_running_loop(None)


def run(main: Callable[[], Any]) -> Any:
    """Run ``await main()`` on a fresh SymLoop."""
    return SymLoop().run_until_complete(main())


def now() -> int:
    return asyncio.get_running_loop().time()


def reraise_foreign(results) -> None:
    """``gather(return_exceptions=True)`` also swallows the BaseExceptions CrossHair steers with: re-raise anything
    that is neither a plain Exception nor a CancelledError so the path is abandoned, never mis-judged."""
    for r in results:
        if isinstance(r, BaseException) and not isinstance(r, (Exception, asyncio.CancelledError)):
            raise r


async def cancel_at(task: "asyncio.Task", when) -> None:
    """Environment: deliver a cancellation to ``task`` at virtual instant ``when``."""
    await asyncio.sleep(when)
    if not task.done():
        task.cancel()


class FakeTimeModule:
    """Stands in for the ``time`` module attribute of a module under test: clocks read the loop's virtual clock."""

    def __init__(self, loop_getter: Callable[[], Any] = asyncio.get_running_loop) -> None:
        self._g = loop_getter

    def monotonic(self):
        return self._g().time()

    def time(self):
        return self._g().time()


_compat_done = False


def install_isinstance_compat() -> None:
    """CrossHair emulates ``isinstance(o, T)`` as ``issubclass(type(o), T)``; for a runtime-checkable Protocol with
    non-method members (``workflows.resource.ResourceDescriptor``: ``name``, ``cache``) CPython rejects that issubclass
    with TypeError although the isinstance itself is legal.  Fall back to the genuine builtin in exactly that case.
    Tool compatibility only: the answer is CPython's own."""
    global _compat_done
    if _compat_done:
        return
    _compat_done = True
    try:
        from crosshair import core
        from crosshair.tracers import NoTracing
    except Exception:  # native replay without crosshair
        return
    prev = core._PATCH_REGISTRATIONS.get(isinstance)
    if prev is None:
        return

    def _isinstance_compat(obj, types):
        try:
            return prev(obj, types)
        except TypeError:
            with NoTracing():
                return isinstance(obj, types)

    core._PATCH_REGISTRATIONS[isinstance] = _isinstance_compat
