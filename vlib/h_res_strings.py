"""Resource factories written the usual way for mutually dependent factories: ``from __future__ import annotations`` (annotations are
STRINGS, evaluated by get_type_hints each time the dependencies are looked up, so every look-up builds fresh descriptor objects)."""
from __future__ import annotations

from typing import Annotated

from workflows.resource import Resource

CALLS = []


def cyc_a(b: Annotated[object, Resource(cyc_b)]) -> object:
    CALLS.append("a")
    return ("a", b)


def cyc_b(a: Annotated[object, Resource(cyc_a)]) -> object:
    CALLS.append("b")
    return ("b", a)


def cyc_a_nc(b: Annotated[object, Resource(cyc_b_nc, cache=False)]) -> object:
    return ("a", b)


def cyc_b_nc(a: Annotated[object, Resource(cyc_a_nc, cache=False)]) -> object:
    return ("b", a)


def leaf() -> object:
    CALLS.append("leaf")
    return ("leaf",)


def chain_top(x: Annotated[object, Resource(leaf)]) -> object:
    CALLS.append("top")
    return ("top", x)
