"""A second module defining event classes with the SAME short names as vlib.h_state's (different fields): the client
envelope must tell them apart by their qualified names."""
from __future__ import annotations

import vlib.boot  # noqa: F401

from workflows.events import Event, StopEvent


class EvPlain(Event):
    twin: int = 7


class EvTyped(Event):
    label: str = "twin"
    n: str = "not an int"   # same field name as vlib.h_state.EvTyped.n, other type


class StopSub(StopEvent):
    verdict: str = "twin"
