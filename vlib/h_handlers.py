"""Shared helpers for the handler-family harnesses (C08 failure routing, C09 collect_events, C10 waiters).

Nothing here implements behaviour of the code under test: the helpers only (a) put the REAL
``StepWorkerStateContextVar`` in the state the real step wrapper (``as_step_worker_function``) puts it in, call the REAL
``InternalContext.collect_events`` / ``wait_for_event`` and hand back what they returned / appended, (b) assemble the
result list the real step wrapper would assemble around such a call, and (c) provide a ``Runtime`` (public extension
point) that captures the ``init_state`` the real ``Workflow.run()`` hands to the runtime."""
from __future__ import annotations

import vlib.boot  # noqa: F401

import asyncio
from typing import Any, Dict, List, Optional, Tuple

from vlib.boot import drive
from workflows.context.internal_context import InternalContext
from workflows.events import Event
from workflows.runtime.types.plugin import Runtime
from workflows.runtime.types.results import (
    RetryAttempt,
    Returns,
    StepWorkerContext,
    StepWorkerState,
    StepWorkerStateContextVar,
    WaitingForEvent,
)


class Resp(Event):
    """A response event with one requirement-bearing field (which a client may leave out: None)."""

    k: Optional[int] = 0


class SubResp(Resp):
    """Subclass of the awaited type: must NOT resolve a waiter for ``Resp`` (exact type match)."""


class Done(Event):
    """Marker output of a collecting / waiting step (accepted by no step)."""

    tag: int = 0


_fast = False


def install_fast_pydantic() -> None:
    """Speed only, no change of behaviour: under CrossHair, when NO argument of a pydantic model constructor is
    symbolic (checked recursively through dict/list/tuple), run the REAL ``pydantic.BaseModel.__init__`` with the tracer
    switched off, i.e. natively.  Otherwise fall through to the traced call (where vlib.boot realises symbolic values at
    the pydantic-core boundary).  Pydantic's per-instance bookkeeping (private-attribute default factories resolved via
    ``inspect.signature`` on every construction) costs ~20 ms per event object when interpreted opcode by opcode, which
    is 60% of a reducer tick; natively it is ~20 us.  Arguments are passed through untouched (identity preserved)."""
    global _fast
    if _fast:
        return
    _fast = True
    try:
        from crosshair import register_patch
        from crosshair.core import CrossHairValue
        from crosshair.tracers import NoTracing
        from pydantic import BaseModel
    except Exception:  # pragma: no cover - native replay without crosshair
        return
    _orig_init = BaseModel.__init__

    def _symbolic(v: Any, depth: int) -> bool:
        if isinstance(v, CrossHairValue):
            return True
        if depth <= 0:
            return True  # unknown depth: be conservative
        t = type(v)
        if t is dict:
            for k, x in v.items():
                if _symbolic(k, depth - 1) or _symbolic(x, depth - 1):
                    return True
            return False
        if t is list or t is tuple or t is set or t is frozenset:
            for x in v:
                if _symbolic(x, depth - 1):
                    return True
            return False
        if t in (int, str, float, bool, bytes, type(None)) or isinstance(v, (type, BaseModel, BaseException)):
            return False
        return t.__module__.startswith("crosshair")

    def _init(self, /, **data):  # noqa: ANN001
        with NoTracing():
            sym = _symbolic(data, 6)
            if not sym:
                _orig_init(self, **data)
                return
        _orig_init(self, **data)

    try:
        register_patch(BaseModel.__init__, _init)
    except Exception:
        pass


if vlib.boot.under_crosshair():
    install_fast_pydantic()


def native(fn: Any, *a: Any, **kw: Any) -> Any:
    """Call ``fn`` with the CrossHair tracer off (plain CPython speed).  ONLY for harness-side construction of inputs from
    concrete values (ticks, result records); never wraps code under test."""
    if not vlib.boot.under_crosshair():
        return fn(*a, **kw)
    from crosshair.tracers import NoTracing, is_tracing

    if not is_tracing():
        return fn(*a, **kw)
    with NoTracing():
        return fn(*a, **kw)


def mk_add_event(ev: Event, step_name: Optional[str] = None) -> Any:
    from workflows.runtime.types.ticks import TickAddEvent

    return native(TickAddEvent, event=ev, step_name=step_name)


def mk_step_result(step_name: str, worker_id: int, ev: Event, result: List[Any]) -> Any:
    from workflows.runtime.types.ticks import TickStepResult

    return native(TickStepResult.model_construct, step_name=step_name, worker_id=worker_id, event=ev, result=list(result))


def conc(n: int, lo: int, hi: int) -> int:
    """Concretise a bounded symbolic int by explicit forks (one solver decision per value, then plain ints)."""
    for k in range(lo, hi):
        if n == k:
            return k
    return hi


def concb(b: bool) -> bool:
    return True if b else False


def new_ictx() -> InternalContext:
    """collect_events / wait_for_event never touch the adapter or the workflow: a bare instance is enough."""
    ic = InternalContext.__new__(InternalContext)
    ic._workers = []  # type: ignore[attr-defined]
    return ic


def call_collect(
    snapshot: StepWorkerState,
    ev: Event,
    expected: List[type],
    buffer_id: Optional[str] = None,
    recovery_counts: Optional[Dict[str, int]] = None,
) -> Tuple[Optional[List[Event]], List[Any]]:
    """REAL collect_events under the context the real step wrapper establishes.  -> (returned, return_values)."""
    returns = Returns(return_values=[])
    tok = StepWorkerStateContextVar.set(
        StepWorkerContext(state=snapshot, returns=returns, retry=RetryAttempt(recovery_counts=dict(recovery_counts or {})))
    )
    try:
        if buffer_id is None:
            got = new_ictx().collect_events(ev, expected)
        else:
            got = new_ictx().collect_events(ev, expected, buffer_id=buffer_id)
    finally:
        StepWorkerStateContextVar.reset(tok)
    return got, list(returns.return_values)


W_WAIT, W_RET, W_TIMEOUT = "wait", "ret", "timeout"


def call_wait(
    snapshot: StepWorkerState,
    event_type: type,
    waiter_event: Optional[Event] = None,
    waiter_id: Optional[str] = None,
    requirements: Optional[Dict[str, Any]] = None,
    timeout: Optional[float] = None,
) -> Tuple[str, Any, List[Any]]:
    """REAL wait_for_event.  -> (W_WAIT, AddWaiter, rv) | (W_RET, event, rv) | (W_TIMEOUT, exc, rv)."""
    returns = Returns(return_values=[])
    tok = StepWorkerStateContextVar.set(StepWorkerContext(state=snapshot, returns=returns, retry=RetryAttempt()))
    try:
        try:
            got = drive(
                new_ictx().wait_for_event(
                    event_type, waiter_event=waiter_event, waiter_id=waiter_id, requirements=requirements, timeout=timeout
                )
            )
            return W_RET, got, list(returns.return_values)
        except WaitingForEvent as e:
            return W_WAIT, e.add, list(returns.return_values)
        except asyncio.TimeoutError as e:
            return W_TIMEOUT, e, list(returns.return_values)
    finally:
        StepWorkerStateContextVar.reset(tok)


def find_ip(state: Any, step: str, worker_id: int) -> Any:
    for x in state.workers[step].in_progress:
        if x.worker_id == worker_id:
            return x
    return None


def nth_ip(state: Any, step: str, n: int) -> Any:
    """n-th in-progress entry by ascending worker id (clamped to the last one)."""
    ips = sorted(state.workers[step].in_progress, key=lambda x: x.worker_id)
    if not ips:
        return None
    for i in range(len(ips) - 1):
        if n == i:
            return ips[i]
    return ips[len(ips) - 1]


def ident_in(x: Any, xs: List[Any]) -> bool:
    for y in xs:
        if y is x:
            return True
    return False


def same_ids(xs: List[Any], ys: List[Any]) -> bool:
    """Element-wise identity of two lists (pydantic ``==`` would equate distinct payload-less events)."""
    if len(xs) != len(ys):
        return False
    for i in range(len(xs)):
        if xs[i] is not ys[i]:
            return False
    return True


def ident_count(x: Any, xs: List[Any]) -> int:
    n = 0
    for y in xs:
        if y is x:
            n += 1
    return n


class Captured(Exception):
    """Raised by CaptureRuntime.run_workflow: carries what the real Workflow.run() handed to the runtime."""

    def __init__(self, init_state: Any, start_event: Any) -> None:
        super().__init__("captured")
        self.init_state = init_state
        self.start_event = start_event


class CaptureRuntime(Runtime):
    """A Runtime (public extension point) whose run_workflow records its arguments and unwinds.  Lets an obligation
    execute the REAL ``Workflow.run()`` (validation caching, Context creation, ``BrokerState.from_serialized`` ->
    ``from_workflow``) synchronously up to the runtime boundary, without an event loop."""

    def register(self, workflow: Any) -> Any:  # pragma: no cover - never reached
        raise Captured(None, None)

    def run_workflow(self, run_id: str, workflow: Any, init_state: Any, start_event: Any = None, serialized_state: Any = None, serializer: Any = None) -> Any:
        raise Captured(init_state, start_event)

    def get_internal_adapter(self, workflow: Any) -> Any:  # pragma: no cover
        raise Captured(None, None)

    def get_external_adapter(self, run_id: str) -> Any:  # pragma: no cover
        raise Captured(None, None)


def init_state_via_run(wf: Any) -> Any:
    """The BrokerState the real ``wf.run()`` hands to its runtime (wf must have been built with CaptureRuntime)."""
    try:
        wf.run(run_id="r")
    except Captured as c:
        return c.init_state
    raise vlib.boot.HarnessError("Workflow.run() returned without reaching the runtime")
