"""Shared helpers for the serialization / state-store harnesses (C18, C19, C20).

* pools regenerated on every run from the CURRENT source by ``ast`` (every non-docstring string literal of the
  modules under analysis: this is how magic keys such as ``"__is_pydantic"`` / ``"class_name"`` are reached);
* module-level (hence importable by qualified name) event / model / exception classes;
* strict structural equality (``deq``: bool/int/float are NOT conflated, a model is never equal to a dict);
* the plain nested dict/list reference model of the state-store statement (C19/C20);
* a fresh SQLite DB file per call whose schema comes from the repo's real migrations.

Nothing here implements behaviour of the code under test."""
from __future__ import annotations

import vlib.boot  # noqa: F401

import ast
import datetime
import itertools
import os
import shutil
import tempfile
from typing import Any, Dict, List, Optional, Sequence

from pydantic import BaseModel, Field

from vlib import paths
from workflows.context.state_store import DictState
from workflows.events import Event, HumanResponseEvent, InputRequiredEvent, StartEvent, StopEvent

WF_SRC = os.path.join(paths.PKG, "llama-index-workflows", "src", "workflows")
SRC = {
    "serializers": os.path.join(WF_SRC, "context", "serializers.py"),
    "events": os.path.join(WF_SRC, "events.py"),
    "ticks": os.path.join(WF_SRC, "runtime", "types", "ticks.py"),
    "results": os.path.join(WF_SRC, "runtime", "types", "results.py"),
    "state_store": os.path.join(WF_SRC, "context", "state_store.py"),
    "envelope": os.path.join(
        paths.PKG, "llama-agents-client", "src", "llama_agents", "client", "protocol", "serializable_events.py"
    ),
    "sqlite_state_store": os.path.join(
        paths.PKG, "llama-agents-server", "src", "llama_agents", "server", "_store", "sqlite", "sqlite_state_store.py"
    ),
}

# ------------------------------------------------------------------------------------------------ AST pools


def _docstring_ids(tree: ast.AST) -> set:
    out = set()
    for n in ast.walk(tree):
        if isinstance(n, (ast.Module, ast.ClassDef, ast.FunctionDef, ast.AsyncFunctionDef)) and n.body:
            f = n.body[0]
            if isinstance(f, ast.Expr) and isinstance(f.value, ast.Constant) and isinstance(f.value.value, str):
                out.add(id(f.value))
    return out


def ast_strings(*names: str) -> List[str]:
    """Every string literal (docstrings excepted) of the named modules' current source, first-occurrence order."""
    out: List[str] = []
    for name in names:
        with open(SRC[name]) as f:
            tree = ast.parse(f.read())
        doc = _docstring_ids(tree)
        for n in ast.walk(tree):
            if isinstance(n, ast.Constant) and isinstance(n.value, str) and id(n) not in doc and n.value not in out:
                out.append(n.value)
    return out


def ast_keylike(*names: str) -> List[str]:
    """The literals the code itself uses as a key / attribute name: subscripts, ``.get/.pop/.setdefault`` and
    ``hasattr/getattr/setattr`` arguments, operands of ``in``, keys of dict displays."""
    out: List[str] = []

    def add(node: Any) -> None:
        if isinstance(node, ast.Constant) and isinstance(node.value, str) and node.value not in out:
            out.append(node.value)

    for name in names:
        with open(SRC[name]) as f:
            tree = ast.parse(f.read())
        for n in ast.walk(tree):
            if isinstance(n, ast.Subscript):
                if not (isinstance(n.value, ast.Name) and n.value.id in ("Literal", "Annotated")):  # type syntax, not a key
                    add(n.slice)
            elif isinstance(n, ast.Dict):
                for k in n.keys:
                    add(k)
            elif isinstance(n, ast.Compare) and any(isinstance(o, (ast.In, ast.NotIn)) for o in n.ops):
                add(n.left)
            elif isinstance(n, ast.Call):
                fn = n.func
                if isinstance(fn, ast.Attribute) and fn.attr in ("get", "pop", "setdefault") and n.args:
                    add(n.args[0])
                elif isinstance(fn, ast.Name) and fn.id in ("hasattr", "getattr", "setattr") and len(n.args) >= 2:
                    add(n.args[1])
    return out


def pickb(pool: Sequence[Any], i: int) -> Any:
    """Select ``pool[i]`` for a (possibly symbolic) index by explicit binary forks: the solver enumerates the index
    with log2(n) decisions per path and the selected object is the concrete pool member."""
    lo, hi = 0, len(pool) - 1
    while lo < hi:
        mid = (lo + hi) // 2
        if i <= mid:
            hi = mid
        else:
            lo = mid + 1
    return pool[lo]


def cint(i: int, lo: int, hi: int) -> int:
    """The concrete Python int equal to the (possibly symbolic) ``i`` in lo..hi, by explicit forks."""
    return pickb(list(range(lo, hi + 1)), i)


def untraced() -> Any:
    """Context manager suspending CrossHair's opcode tracing (a no-op natively).  Used around real code that receives
    ONLY concrete pool members (every symbolic parameter has been forked to a concrete value by ``pickb``/``cint``
    before): the code then executes exactly as in CPython inside each solver-chosen path, without proxy artefacts
    (e.g. CrossHair's ``dict()`` patch returns a ShellMutableMap that pydantic-core refuses to serialise) and without
    the ~100x tracing overhead on pydantic's Python layers."""
    try:
        from crosshair.tracers import NoTracing
    except Exception:  # pragma: no cover
        import contextlib

        return contextlib.nullcontext()
    return NoTracing()


TYPED_ATOMS: List[Any] = ["", "a", 0, 1, -1, 2**53 + 1, 0.5, None, True, False]


def shape(sh: int, a: Any, b: Any = None) -> Any:
    """Payload shapes of depth <= 2 and width <= 2 around the atoms a (and b)."""
    if sh == 0:
        return a
    if sh == 1:
        return [a]
    if sh == 2:
        return {"a": a}
    if sh == 3:
        return [a, [b, a]]
    if sh == 4:
        return {"a": {"b": a}, "b": b}
    if sh == 5:
        return {"a": [a, b]}
    return [{"a": a}, b]


N_SHAPES = 7

# ------------------------------------------------------------------------------------------------ equality


def deq(x: Any, y: Any) -> bool:
    """Strict structural equality: same concrete type at every level (True != 1 != 1.0; model != dict)."""
    if type(x) is not type(y):
        return False
    if isinstance(x, dict):
        if len(x) != len(y):
            return False
        for k in x:
            if k not in y or not deq(x[k], y[k]):
                return False
        # key types too (1 vs "1")
        return sorted((type(k).__name__, str(k)) for k in x) == sorted((type(k).__name__, str(k)) for k in y)
    if isinstance(x, (list, tuple)):
        if len(x) != len(y):
            return False
        for i in range(len(x)):
            if not deq(x[i], y[i]):
                return False
        return True
    if isinstance(x, Event):
        return same_event(x, y)
    if isinstance(x, BaseModel):
        for name in type(x).model_fields:
            if not deq(getattr(x, name), getattr(y, name)):
                return False
        return True
    if isinstance(x, Exception):
        return str(x) == str(y)
    return x == y


def same_event(e1: Any, e2: Any) -> bool:
    """The statement's notion: same class, equal typed fields, equal dynamic fields, equal result."""
    if type(e1) is not type(e2):
        return False
    for name in type(e1).model_fields:
        if not deq(getattr(e1, name), getattr(e2, name)):
            return False
    if not deq(e1._data, e2._data):
        return False
    if isinstance(e1, StopEvent):
        if not deq(e1._result, e2._result):
            return False
        if not deq(e1.result, e2.result):
            return False
    return True


# ------------------------------------------------------------------------------------------------ class pools


class Inner(BaseModel):
    x: int = 0


class Outer(BaseModel):
    name: str = ""
    inner: Inner = Field(default_factory=Inner)


MODELS: List[Any] = [Inner(x=3), Outer(name="o", inner=Inner(x=4))]


class EvPlain(Event):
    pass


class EvTyped(Event):
    n: int = 0
    s: str = ""
    f: float = 0.0
    inner: Inner = Field(default_factory=Inner)


class StopSub(StopEvent):
    score: int = 0


class AskEv(InputRequiredEvent):
    prefix: str = ""


class AnsEv(HumanResponseEvent):
    response: str = ""


_UID = [0]


def _next_uid() -> str:
    _UID[0] += 1
    return "uid-%d" % _UID[0]


class EvDefaults(Event):
    """typed fields that callers usually do NOT pass: mutable defaults filled in place afterwards, a non-reproducible default_factory"""

    tags: List[str] = Field(default_factory=list)
    meta: Dict[str, Any] = Field(default_factory=dict)
    inner: Inner = Field(default_factory=Inner)
    n: int = 7
    uid: str = Field(default_factory=_next_uid)


class StopDefaults(StopEvent):
    tags: List[str] = Field(default_factory=list)
    uid: str = Field(default_factory=_next_uid)


EV_PLAIN, EV_TYPED, EV_STOP, EV_STOPSUB, EV_ASK, EV_START = 0, 1, 2, 3, 4, 5
EVENT_CLASSES: List[type] = [EvPlain, EvTyped, StopEvent, StopSub, AskEv, StartEvent]


def reserved_names(cls: type) -> set:
    """Names that are not *dynamic* fields for this class (declared fields, private attributes, ctor params)."""
    r = set(cls.model_fields) | set(cls.__private_attributes__)
    if issubclass(cls, StopEvent):
        r |= {"result"}
    return r


def make_event(ci: int, dyn: Optional[Dict[str, Any]] = None, result: Any = None, typed: int = 1) -> Event:
    """An instance of pool class ``ci``: typed fields set from ``typed``, dynamic fields ``dyn``, ``result`` for stops."""
    kw: Dict[str, Any] = dict(dyn or {})
    if ci == EV_TYPED:
        kw.update(n=typed, s="s%d" % typed, f=typed + 0.5, inner=Inner(x=typed))
    elif ci == EV_STOPSUB:
        kw.update(score=typed)
    elif ci == EV_ASK:
        kw.update(prefix="p%d" % typed)
    cls = EVENT_CLASSES[ci]
    if issubclass(cls, StopEvent):
        return cls(result=result, **kw)
    return cls(**kw)


class HErr(Exception):
    pass


class HErr2(Exception):
    """A user exception with two required constructor arguments (like json.JSONDecodeError, UnicodeDecodeError)."""

    def __init__(self, code: int, msg: str) -> None:
        super().__init__(code, msg)
        self.code = code
        self.msg = msg


# ------------------------------------------------------------------------------------------------ state models


class TState(BaseModel):
    a: Any = None
    b: List[Any] = Field(default_factory=list)


class TChild(TState):
    c: Dict[str, Any] = Field(default_factory=dict)
    n: int = 7


class Unrelated(BaseModel):
    z: int = 0


def to_plain(x: Any) -> Any:
    """Plain nested dict/list view of a state object (DictState -> its items, typed model -> its fields)."""
    if isinstance(x, DictState):
        return {k: to_plain(v) for k, v in x._data.items()}
    if isinstance(x, BaseModel):
        return {k: to_plain(getattr(x, k)) for k in type(x).model_fields}
    if isinstance(x, dict):
        return {k: to_plain(v) for k, v in x.items()}
    if isinstance(x, list):
        return [to_plain(v) for v in x]
    return x


# ------------------------------------------------------------------------------------------------ reference model
# Written from the statement of C19: a state is a plain nested dict/list; a dotted path is followed one segment
# at a time, a dict by key, a list by (Python) integer index, anything else has no children; set creates missing
# intermediate dicts ("Intermediate dicts are created as needed") and fails on anything that cannot take the key.
# A typed model is a dict with a FIXED key set (``fixed``: assigning an undeclared top-level name is an error).


class Missing(Exception):
    pass


class RefError(Exception):
    pass


def ref_step(cur: Any, seg: str) -> Any:
    if isinstance(cur, dict):
        if seg in cur:
            return cur[seg]
        raise Missing(seg)
    if isinstance(cur, list):
        try:
            i = int(seg)
        except ValueError:
            raise Missing(seg)
        if -len(cur) <= i < len(cur):
            return cur[i]
        raise Missing(seg)
    raise Missing(seg)


def ref_assign(cur: Any, seg: str, value: Any, fixed: Optional[Sequence[str]] = None) -> None:
    if isinstance(cur, dict):
        if fixed is not None and seg not in fixed:
            raise RefError("undeclared field " + seg)
        cur[seg] = value
        return
    if isinstance(cur, list):
        try:
            i = int(seg)
        except ValueError:
            raise RefError(seg)
        if -len(cur) <= i < len(cur):
            cur[i] = value
            return
        raise RefError(seg)
    raise RefError(seg)


def ref_get(root: Any, path: str) -> Any:
    cur = root
    for seg in path.split(".") if path else []:
        cur = ref_step(cur, seg)
    return cur


def ref_set(root: Any, path: str, value: Any, fixed: Optional[Sequence[str]] = None) -> None:
    if not path:
        raise RefError("empty path")
    segs = path.split(".")
    cur = root
    top = True
    for seg in segs[:-1]:
        try:
            nxt = ref_step(cur, seg)
        except Missing:
            nxt = {}
            ref_assign(cur, seg, nxt, fixed if top else None)
        cur = nxt
        top = False
    ref_assign(cur, segs[-1], value, fixed if top else None)


def str_descent(root: Any, path: str) -> bool:
    """True iff following ``path`` in the reference reaches a ``str`` value and then continues with an integer
    segment.  The real traversal indexes characters there; a nested dict/list model has no such child.  The class
    is declared outside the claim (OUTSIDE) and excluded by ``pre:``."""
    cur = root
    for seg in path.split(".") if path else []:
        if isinstance(cur, str):
            try:
                int(seg)
            except ValueError:
                return False
            return True
        try:
            cur = ref_step(cur, seg)
        except Missing:
            return False
    return False


# ------------------------------------------------------------------------------------------------ sqlite files

_BASE = "/dev/shm" if os.path.isdir("/dev/shm") and os.access("/dev/shm", os.W_OK) else tempfile.gettempdir()
_DIRSEQ = itertools.count()  # names only; nothing observable depends on it
FIXED_NOW = datetime.datetime(2026, 1, 1, tzinfo=datetime.timezone.utc)


def fresh_dir() -> str:
    while True:
        p = os.path.join(_BASE, "verif-st-%d-%d" % (os.getpid(), next(_DIRSEQ)))
        try:
            os.mkdir(p)
            return p
        except FileExistsError:
            continue


def _build_template() -> bytes:
    """Run the repo's REAL migrations once (SqliteWorkflowStore.__init__) and keep the resulting file image."""
    import sqlite3

    from llama_agents.server._store.sqlite.sqlite_workflow_store import SqliteWorkflowStore

    d = fresh_dir()
    try:
        p = os.path.join(d, "t.db")
        SqliteWorkflowStore(p)
        c = sqlite3.connect(p)
        c.execute("PRAGMA wal_checkpoint(TRUNCATE)")
        c.close()
        with open(p, "rb") as f:
            return f.read()
    finally:
        shutil.rmtree(d, ignore_errors=True)


_TEMPLATE: List[bytes] = []


def ensure_template() -> None:
    """Build the migrated DB image (call at harness import time, i.e. outside any traced/symbolic execution)."""
    if not _TEMPLATE:
        _TEMPLATE.append(_build_template())


def new_db() -> str:
    """Path of a fresh migrated DB file inside a fresh directory (caller removes the directory)."""
    ensure_template()
    d = fresh_dir()
    p = os.path.join(d, "t.db")
    with open(p, "wb") as f:
        f.write(_TEMPLATE[0])
    return p


def drop_db(db_path: str) -> None:
    shutil.rmtree(os.path.dirname(db_path), ignore_errors=True)


class SqliteEnv:
    """``with SqliteEnv() as env: store = env.store(state_type)`` — fresh DB file, fixed ``_utc_now`` (CrossHair
    intercepts wall clocks; the timestamp columns are not part of any claim), everything removed on exit."""

    def __enter__(self) -> "SqliteEnv":
        from llama_agents.server._store.sqlite import sqlite_state_store as sss

        self._mod = sss
        self._old = sss._utc_now
        sss._utc_now = lambda: FIXED_NOW
        self.db = new_db()
        return self

    def store(self, state_type: Any = None, run_id: str = "run-1") -> Any:
        # exactly what SqliteWorkflowStore.create_state_store does with single_connection=False
        return self._mod.SqliteStateStore(db_path=self.db, run_id=run_id, state_type=state_type, connection=None)

    def __exit__(self, *exc: Any) -> None:
        self._mod._utc_now = self._old
        drop_db(self.db)
