"""An application module that defines an exception class (C18: a reader process that has not imported it yet)."""


class AppError(Exception):
    pass
