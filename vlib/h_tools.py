"""Helpers shared by the "tools" harnesses (C23, C32, C33, C34, C37): reading the CURRENT source of /repo by AST and
lifting individual functions out of modules that cannot be imported in the sealed sandbox (missing third-party
packages).  Nothing here implements behaviour of the code under test."""
from __future__ import annotations

import ast
import hashlib
import os
from typing import Any, Dict, Iterable, List, Optional

from vlib import paths


def repo_path(*parts: str) -> str:
    """Path below the repository under test (honours VERIF_REPO through vlib.paths)."""
    return os.path.join(paths.REPO, *parts)


def read_source(path: str) -> str:
    with open(path, encoding="utf-8") as f:
        return f.read()


def module_ast(path: str) -> ast.Module:
    return ast.parse(read_source(path), filename=path)


def func_node(path: str, name: str) -> ast.AST:
    """Top-level (async) function definition ``name`` of the current file; KeyError if absent."""
    for node in module_ast(path).body:
        if isinstance(node, (ast.FunctionDef, ast.AsyncFunctionDef)) and node.name == name:
            return node
    raise KeyError(f"{name} not found in {path}")


def func_source(path: str, name: str) -> str:
    src = read_source(path)
    seg = ast.get_source_segment(src, func_node(path, name))
    if seg is None:
        raise KeyError(name)
    return seg


def source_sha(path: str, names: Iterable[str]) -> Dict[str, str]:
    """sha256 prefix of the current text of each lifted function (goes into ctx notes / evidence)."""
    return {n: hashlib.sha256(func_source(path, n).encode()).hexdigest()[:16] for n in names}


def lift(path: str, names: Iterable[str], namespace: Optional[Dict[str, Any]] = None) -> Dict[str, Any]:
    """Compile the CURRENT text of the named top-level functions of ``path`` into ``namespace`` (which must
    provide every global they reference) and return the namespace.  The module itself is never imported."""
    ns: Dict[str, Any] = namespace if namespace is not None else {}
    for n in names:
        code = compile(func_source(path, n), f"<lifted {os.path.basename(path)}:{n}>", "exec")
        exec(code, ns)  # noqa: S102 - source text of the repository under test
    return ns


def module_constant(path: str, name: str) -> ast.AST:
    """The value expression of a top-level ``name = <expr>`` assignment."""
    for node in module_ast(path).body:
        if isinstance(node, ast.Assign) and any(isinstance(t, ast.Name) and t.id == name for t in node.targets):
            return node.value
        if isinstance(node, ast.AnnAssign) and isinstance(node.target, ast.Name) and node.target.id == name and node.value:
            return node.value
    raise KeyError(f"{name} not assigned at top level of {path}")


def regex_literal(path: str, name: str) -> str:
    """Pattern text of a top-level ``NAME = re.compile(r"...")``."""
    v = module_constant(path, name)
    if (
        isinstance(v, ast.Call)
        and isinstance(v.func, ast.Attribute)
        and v.func.attr == "compile"
        and v.args
        and isinstance(v.args[0], ast.Constant)
        and isinstance(v.args[0].value, str)
        and len(v.args) == 1
        and not v.keywords
    ):
        return v.args[0].value
    raise ValueError(f"{name} in {path} is not a plain re.compile(<literal>)")


def parametrize_literals(test_path: str, test_func: str) -> List[Any]:
    """Literal argument list of ``@pytest.mark.parametrize(names, [ ... ])`` on a test function of the repo's own
    suite (translation-validation inputs)."""
    node = func_node(test_path, test_func)
    for dec in node.decorator_list:  # type: ignore[attr-defined]
        if isinstance(dec, ast.Call) and isinstance(dec.func, ast.Attribute) and dec.func.attr == "parametrize":
            return list(ast.literal_eval(dec.args[1]))
    raise KeyError(f"no parametrize on {test_func}")


class _Null:
    def __enter__(self):
        return None

    def __exit__(self, *a):
        return False


def untraced():
    """Context manager: switch CrossHair's opcode tracing off for a region that only handles fully realised
    (concrete) values — the real code then runs at native speed inside the path.  Every symbolic decision must have
    been taken (forked on) before entering.  A no-op in native replay."""
    import sys

    if "crosshair" not in sys.modules:
        return _Null()
    try:
        from crosshair.tracers import NoTracing, is_tracing

        if is_tracing():
            return NoTracing()
    except Exception:  # noqa: BLE001
        pass
    return _Null()


def cbool(b) -> bool:
    """Fork on a (possibly symbolic) bool and return a real ``bool``."""
    if b:
        return True
    return False


def cint(i, lo: int, hi: int) -> int:
    """Fork on a (possibly symbolic) int known to lie within lo..hi and return a real ``int`` (binary search: about
    log2(hi-lo+1) solver decisions per path)."""
    while lo < hi:
        mid = (lo + hi) // 2
        if i <= mid:
            hi = mid
        else:
            lo = mid + 1
    return lo
