"""Helpers shared by the "tools" harnesses (C23, C32, C33, C34, C37): reading the CURRENT source of /repo by AST and
lifting individual functions out of modules that cannot be imported in the sealed sandbox (missing third-party
packages).  Nothing here implements behaviour of the code under test."""
from __future__ import annotations

import ast
import hashlib
import os
from typing import Any, Dict, Iterable, List, Optional

from vlib import paths


def repo_path(*parts: str) -> str:
    """Path below the repository under test (honours VERIF_REPO through vlib.paths)."""
    return os.path.join(paths.REPO, *parts)


def read_source(path: str) -> str:
    with open(path, encoding="utf-8") as f:
        return f.read()


def module_ast(path: str) -> ast.Module:
    return ast.parse(read_source(path), filename=path)


def func_node(path: str, name: str) -> ast.AST:
    """Top-level (async) function definition ``name`` of the current file; KeyError if absent."""
    for node in module_ast(path).body:
        if isinstance(node, (ast.FunctionDef, ast.AsyncFunctionDef)) and node.name == name:
            return node
    raise KeyError(f"{name} not found in {path}")


def func_source(path: str, name: str) -> str:
    src = read_source(path)
    seg = ast.get_source_segment(src, func_node(path, name))
    if seg is None:
        raise KeyError(name)
    return seg


def source_sha(path: str, names: Iterable[str]) -> Dict[str, str]:
    """sha256 prefix of the current text of each lifted function (goes into ctx notes / evidence)."""
    return {n: hashlib.sha256(func_source(path, n).encode()).hexdigest()[:16] for n in names}


def lift(path: str, names: Iterable[str], namespace: Optional[Dict[str, Any]] = None) -> Dict[str, Any]:
    """Compile the CURRENT text of the named top-level functions of ``path`` into ``namespace`` (which must
    provide every global they reference) and return the namespace.  The module itself is never imported."""
    ns: Dict[str, Any] = namespace if namespace is not None else {}
    for n in names:
        code = compile(func_source(path, n), f"<lifted {os.path.basename(path)}:{n}>", "exec")
        exec(code, ns)  # noqa: S102 - source text of the repository under test
    return ns


def module_constant(path: str, name: str) -> ast.AST:
    """The value expression of a top-level ``name = <expr>`` assignment."""
    for node in module_ast(path).body:
        if isinstance(node, ast.Assign) and any(isinstance(t, ast.Name) and t.id == name for t in node.targets):
            return node.value
        if isinstance(node, ast.AnnAssign) and isinstance(node.target, ast.Name) and node.target.id == name and node.value:
            return node.value
    raise KeyError(f"{name} not assigned at top level of {path}")


def regex_literal(path: str, name: str) -> str:
    """Pattern text of a top-level ``NAME = re.compile(r"...")``."""
    v = module_constant(path, name)
    if (
        isinstance(v, ast.Call)
        and isinstance(v.func, ast.Attribute)
        and v.func.attr == "compile"
        and v.args
        and isinstance(v.args[0], ast.Constant)
        and isinstance(v.args[0].value, str)
        and len(v.args) == 1
        and not v.keywords
    ):
        return v.args[0].value
    raise ValueError(f"{name} in {path} is not a plain re.compile(<literal>)")


def parametrize_literals(test_path: str, test_func: str) -> List[Any]:
    """Literal argument list of ``@pytest.mark.parametrize(names, [ ... ])`` on a test function of the repo's own
    suite (translation-validation inputs)."""
    node = func_node(test_path, test_func)
    for dec in node.decorator_list:  # type: ignore[attr-defined]
        if isinstance(dec, ast.Call) and isinstance(dec.func, ast.Attribute) and dec.func.attr == "parametrize":
            return list(ast.literal_eval(dec.args[1]))
    raise KeyError(f"no parametrize on {test_func}")


class _Null:
    def __enter__(self):
        return None

    def __exit__(self, *a):
        return False


def untraced():
    """Context manager: switch CrossHair's opcode tracing off for a region that only handles fully realised
    (concrete) values — the real code then runs at native speed inside the path.  Every symbolic decision must have
    been taken (forked on) before entering.  A no-op in native replay."""
    import sys

    if "crosshair" not in sys.modules:
        return _Null()
    try:
        from crosshair.tracers import NoTracing, is_tracing

        if is_tracing():
            return NoTracing()
    except Exception:  # noqa: BLE001
        pass
    return _Null()


def cbool(b) -> bool:
    """Fork on a (possibly symbolic) bool and return a real ``bool``."""
    if b:
        return True
    return False


def cint(i, lo: int, hi: int) -> int:
    """Fork on a (possibly symbolic) int known to lie within lo..hi and return a real ``int`` (binary search: about
    log2(hi-lo+1) solver decisions per path)."""
    while lo < hi:
        mid = (lo + hi) // 2
        if i <= mid:
            hi = mid
        else:
            lo = mid + 1
    return lo


# ----------------------------------------------------------------------------------------------------------------------
# Engine T, sequence back end: structured strings (C34)
# ----------------------------------------------------------------------------------------------------------------------
# z3's sequence solver decides regex MEMBERSHIP of a concatenation of constrained pieces in milliseconds but does not
# finish on the word equations that a capture-group encoding with fresh group variables produces (measured: `unknown`
# after 60 s on `x.y.z-l.n` with unbounded digit strings).  The helpers below therefore keep a string as the z3 term the
# translated code built (a concatenation of piece variables and literal characters), and resolve capture groups
# STRUCTURALLY: the groups of a match are runs of consecutive pieces; every run is justified by a solver query
# (whenever the string matches, membership of the run in the group's sub-regex is VALID under the stated piece constraints) and the justification is
# re-stated as a safety condition of the final query.  That the justified decomposition is THE one CPython's matcher
# reports rests on `unique_decomposition_queries` (solver-checked per pattern) plus the first-occurrence argument
# stated there.


def seq_leaves(t) -> List[Any]:
    """Flatten a z3 string term into its concatenation leaves; literal leaves are split into single characters."""
    import z3

    out: List[Any] = []

    def walk(x) -> None:
        if z3.is_string_value(x):
            for ch in x.as_string():
                out.append(z3.StringVal(ch))
        elif z3.is_app(x) and x.decl().kind() == z3.Z3_OP_SEQ_CONCAT:
            for c in x.children():
                walk(c)
        else:
            out.append(x)

    walk(t)
    return out


def seq_concat(leaves: List[Any]):
    import z3

    if not leaves:
        return z3.StringVal("")
    return leaves[0] if len(leaves) == 1 else z3.Concat(*leaves)


def seq_same(a, b) -> bool:
    """Syntactic equality of two z3 string terms up to re-association of the concatenation / splitting of literals."""
    la, lb = seq_leaves(a), seq_leaves(b)
    return len(la) == len(lb) and all(x.eq(y) for x, y in zip(la, lb))


class StructStrings:
    """Solver-assisted structural reasoning about z3 string terms under a fixed list of assumptions (the constraints
    on the piece variables).  Every query it answers is recorded in ``self.log``."""

    def __init__(self, assume: List[Any], timeout_ms: int = 20000) -> None:
        self.assume = list(assume)
        self.timeout_ms = timeout_ms
        self._cache: Dict[str, str] = {}
        self.queries = 0

    def _check(self, fml) -> str:
        import z3

        key = fml.sexpr()
        if key not in self._cache:
            s = z3.Solver()
            s.set("timeout", self.timeout_ms)
            s.add(*self.assume)
            s.add(fml)
            self._cache[key] = str(s.check())
            self.queries += 1
        return self._cache[key]

    def valid(self, fml) -> bool:
        import z3

        return self._check(z3.Not(fml)) == "unsat"

    def possible(self, fml) -> bool:
        return self._check(fml) != "unsat"

    def match(self, be, s, pattern: str, guard, ascii_only: bool = True):
        """``re.compile(pattern).match(s)`` for an anchored pattern whose capturing groups are top-level items.
        -> py2smt.SMatch(matched, groups) with groups = runs of pieces of ``s``."""
        import re._constants as rc

        import z3

        from vlib import py2smt as T

        nodes = T.parse_regex(pattern)
        whole = T.regex_to_z3(nodes, ascii_only)
        parts = T.regex_top_level_parts(nodes)
        matched = z3.InRe(s, whole)
        g = T.zguard(guard)
        if not self.possible(z3.And(g, matched)):
            be.safety.append(z3.Not(z3.And(g, matched)))  # re-proved by the final query
            return T.SMatch(z3.BoolVal(False), [])
        leaves = seq_leaves(s)
        items = [(gi, sub, T.regex_to_z3(sub, ascii_only, top=False)) for gi, sub in parts]

        def literal_char(sub) -> Optional[str]:
            if len(sub) == 1 and sub[0][0] is rc.LITERAL:
                return chr(sub[0][1])
            return None

        def search(j: int, i: int):
            if j == len(items):
                rest = leaves[i:]
                if not rest or (len(rest) == 1 and z3.is_string_value(rest[0]) and rest[0].as_string() == "\n"):
                    return []
                return None
            gi, sub, rx = items[j]
            lit = literal_char(sub)
            if lit is not None:
                if i < len(leaves) and z3.is_string_value(leaves[i]) and leaves[i].as_string() == lit:
                    tail = search(j + 1, i + 1)
                    return None if tail is None else [(i, i + 1)] + tail
                return None
            for e in range(i, len(leaves) + 1):
                if self.valid(z3.Implies(z3.And(g, matched), z3.InRe(seq_concat(leaves[i:e]), rx))):
                    tail = search(j + 1, e)
                    if tail is not None:
                        return [(i, e)] + tail
            return None

        split = search(0, 0)
        if split is None:
            raise T.Untranslatable(f"no piece-wise decomposition of {s} for {pattern!r} is valid under the assumptions")
        groups = {}
        for (gi, sub, rx), (i, e) in zip(items, split):
            run = seq_concat(leaves[i:e])
            be.safety.append(z3.Implies(z3.And(g, matched), z3.InRe(run, rx)))
            if gi:
                groups[gi] = run
        return T.SMatch(matched, [groups[k] for k in sorted(groups)])


def _first_char_re(nodes, ascii_only: bool):
    """z3 regex of the characters a word of the (non-nullable) sre node list can start with"""
    import re._constants as rc

    import z3

    from vlib import py2smt as T

    if not nodes:
        raise T.Untranslatable("first-character set of an empty item")
    op, av = nodes[0]
    if op is rc.LITERAL:
        return z3.Re(chr(av))
    if op is rc.IN:
        return T._class_re(av, ascii_only)
    if op is rc.SUBPATTERN:
        return _first_char_re(list(av[3]), ascii_only)
    if op is rc.BRANCH:
        return z3.Union(*[_first_char_re(list(b), ascii_only) for b in av[1]])
    if op in (rc.MAX_REPEAT, rc.MIN_REPEAT) and av[0] >= 1:
        return _first_char_re(list(av[2]), ascii_only)
    raise T.Untranslatable(f"first-character set of {op}")


def unique_decomposition_queries(pattern: str, ascii_only: bool = True) -> List[Any]:
    """Side conditions (each must be UNSAT) under which a string has at most one decomposition into the top-level
    items I1 I2 ... Im of an anchored pattern: no word of I_j contains a character that can start a word of I_{j+1}
    (for the last item: the newline that ``$`` tolerates), and no item matches the empty string.  Then the end of I_j in
    any match is the first occurrence of such a character after its start — so the captured groups are determined by
    the string (first-occurrence argument; induction on j, not solver-checked).  Pure regex-emptiness queries."""
    import z3

    from vlib import py2smt as T

    nodes = T.parse_regex(pattern)
    parts = T.regex_top_level_parts(nodes)
    rx = [T.regex_to_z3(sub, ascii_only, top=False) for _gi, sub in parts]
    full = z3.Full(z3.ReSort(z3.StringSort()))
    out = []
    for j, r in enumerate(rx):
        u = z3.String(f"u{j}")
        nxt = _first_char_re(list(parts[j + 1][1]), ascii_only) if j + 1 < len(rx) else z3.Re("\n")
        out.append(z3.InRe(u, z3.Intersect(r, z3.Concat(full, nxt, full))))
        out.append(z3.InRe(z3.StringVal(""), r))
    return out


# ----------------------------------------------------------------------------------------------------------------------
# Engine T: queries with a time-bounded second opinion
# ----------------------------------------------------------------------------------------------------------------------
def smt_excludes(ctx, variables: Dict[str, Any]) -> List[Any]:
    """the known-finding exclusions exactly as SmtCtx.check applies them (for model sampling / SMT-LIB export)"""
    import z3

    ns = {k: getattr(z3, k) for k in ("And", "Or", "Not", "Implies", "If")}
    ns.update(variables)
    return [z3.Not(eval(e, dict(ns))) for e in ctx.excludes]  # noqa: S307 - committed known_findings.json only


def smt_check(ctx, name: str, assumptions, negated_property, variables, replay, note: str = "", cross_s: int = 5) -> str:
    """ctx.check + a second opinion on the SMT-LIB text bounded to ``cross_s`` seconds.  SmtCtx.check would give the
    second solver (/usr/bin/z3 4.8.12, slow on sequence queries) the whole obligation timeout per query; a timeout of
    the second solver is recorded as such, a definite disagreement becomes ``solver_disagreement``."""
    import z3

    from vlib.smt import second_opinion

    r = ctx.check(name, assumptions=assumptions, negated_property=negated_property, variables=variables, replay=replay,
                  cross_check=False, note=note)
    if r in ("sat", "unsat"):
        s = z3.Solver()
        s.add(*assumptions)
        s.add(*smt_excludes(ctx, variables))
        s.add(negated_property)
        other = second_opinion(s.to_smt2(), cross_s)
        rec = ctx.records[-1]
        rec["cross"] = other
        if other["result"] in ("sat", "unsat") and other["result"] != r:
            rec["result"] = r = "solver_disagreement"
    return r


# ------------------------------------------------------------------------------------------------ process-fresh module state
_MODULE_BASELINES: dict = {}


def reset_module_containers(mod) -> None:
    """Put every module-level mutable container (dict / set / list bound to a private lower- or upper-case name) of ``mod`` back to the content
    it had when this helper first saw the module.  A scenario that is about 'two things happening in ONE process' has to start from a fresh
    process image, but CrossHair explores all paths of an obligation in one interpreter: state a module memoises across calls would otherwise
    leak from one explored path into the next and hide (or fake) order-dependent behaviour."""
    import copy

    key = mod.__name__
    if key not in _MODULE_BASELINES:
        _MODULE_BASELINES[key] = {n: copy.copy(v) for n, v in vars(mod).items()
                                  if isinstance(v, (dict, set, list)) and not n.startswith("__")}
    base = _MODULE_BASELINES[key]
    for n, v in list(vars(mod).items()):
        if isinstance(v, (dict, set, list)) and not n.startswith("__"):
            if n in base:
                want = base[n]
                if isinstance(v, dict):
                    v.clear()
                    v.update(want)
                elif isinstance(v, set):
                    v.clear()
                    v.update(want)
                else:
                    v[:] = want
            else:
                # a container that did not exist at baseline time (created lazily): empty it
                v.clear()
