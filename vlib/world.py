"""Shared building blocks for engine obligations: an event-class pool, constructors for (symbolically shaped)
``BrokerState`` values made of the REAL dataclasses, and the representation invariant REP of DESIGN §1.3."""
from __future__ import annotations

import vlib.boot  # noqa: F401

from typing import Any, Dict, List, Optional, Sequence

from workflows.decorators import CatchErrorHandler, StepConfig
from workflows.events import (
    Event,
    HumanResponseEvent,
    InputRequiredEvent,
    StartEvent,
    StepFailedEvent,
    StopEvent,
)
from workflows.runtime.types.internal_state import (
    BrokerConfig,
    BrokerState,
    EventAttempt,
    InProgressState,
    InternalStepConfig,
    InternalStepWorkerState,
)
from workflows.runtime.types.results import StepWorkerState, StepWorkerWaiter


class EvA(Event):
    pass


class EvB(Event):
    pass


class EvC(Event):
    pass


class AskEv(InputRequiredEvent):
    pass


class AnsEv(HumanResponseEvent):
    pass


class MyStop(StopEvent):
    pass


# one instance per class: identity of event objects is what delivery obligations track
EVA, EVB, EVC = EvA(), EvB(), EvC()
EVA2 = EvA()
ASK, ANS = AskEv(), AnsEv()
START, STOP, MYSTOP = StartEvent(), StopEvent(), MyStop()

EVENT_POOL: List[Event] = [EVA, EVB, EVC, ASK, ANS, START]
CLASS_POOL: List[type] = [EvA, EvB, EvC, AskEv, AnsEv, StartEvent]


def pick(pool: Sequence[Any], i: int) -> Any:
    """Select by a (possibly symbolic) index with explicit forks, so the solver enumerates the index."""
    n = len(pool)
    for k in range(n - 1):
        if i == k:
            return pool[k]
    return pool[n - 1]


def step_config(
    accepted: List[type],
    num_workers: int = 1,
    retry_policy: Any = None,
    role: str = "step",
    for_steps: Optional[List[str]] = None,
    max_recoveries: int = 1,
    returns: Optional[List[type]] = None,
) -> StepConfig:
    return StepConfig(
        accepted_events=list(accepted),
        event_name="ev",
        return_types=list(returns or [type(None)]),
        context_parameter=None,
        num_workers=num_workers,
        retry_policy=retry_policy,
        resources=[],
        role=role,  # type: ignore[arg-type]
        catch_error_for_steps=for_steps,
        catch_error_max_recoveries=max_recoveries,
    )


def shared(step_name: str, collected: Optional[Dict[str, List[Event]]] = None, waiters=None) -> StepWorkerState:
    return StepWorkerState(
        step_name=step_name,
        collected_events={k: list(v) for k, v in (collected or {}).items()},
        collected_waiters=list(waiters or []),
    )


def in_progress(
    step_name: str,
    event: Event,
    worker_id: int,
    attempts: int = 0,
    first_attempt_at: float = 0,
    snapshot: Optional[Dict[str, List[Event]]] = None,
    waiters=None,
    recovery_counts: Optional[Dict[str, int]] = None,
    last_exception: Optional[Exception] = None,
    last_failed_at: Optional[float] = None,
) -> InProgressState:
    return InProgressState(
        event=event,
        worker_id=worker_id,
        shared_state=shared(step_name, snapshot, waiters),
        attempts=attempts,
        first_attempt_at=first_attempt_at,
        last_exception=last_exception,
        last_failed_at=last_failed_at,
        recovery_counts=dict(recovery_counts or {}),
    )


def busy_ids(nw_max: int, bits: Sequence[bool]) -> List[int]:
    """Per-slot booleans -> list of busy worker ids (cheaper for the solver than a symbolic list)."""
    out = []
    for i in range(nw_max):
        if bits[i]:
            out.append(i)
    return out


def worker_state(
    cfg: StepConfig,
    queue: Optional[List[EventAttempt]] = None,
    ips: Optional[List[InProgressState]] = None,
    collected: Optional[Dict[str, List[Event]]] = None,
    waiters: Optional[List[StepWorkerWaiter]] = None,
) -> InternalStepWorkerState:
    return InternalStepWorkerState(
        queue=list(queue or []),
        config=cfg,
        in_progress=list(ips or []),
        collected_events={k: list(v) for k, v in (collected or {}).items()},
        collected_waiters=list(waiters or []),
    )


def broker(
    steps: Dict[str, InternalStepWorkerState],
    is_running: bool = True,
    timeout: Optional[float] = None,
    handlers: Optional[Dict[str, CatchErrorHandler]] = None,
    handler_for_step: Optional[Dict[str, str]] = None,
) -> BrokerState:
    return BrokerState(
        is_running=is_running,
        config=BrokerConfig(
            steps={
                n: InternalStepConfig(
                    accepted_events=list(ws.config.accepted_events),
                    retry_policy=ws.config.retry_policy,
                    num_workers=ws.config.num_workers,
                )
                for n, ws in steps.items()
            },
            timeout=timeout,
            catch_error_handlers=dict(handlers or {}),
            handler_for_step=dict(handler_for_step or {}),
        ),
        workers=dict(steps),
    )


def waiter(
    waiter_id: str,
    event: Event,
    waiting_for: type,
    requirements: Optional[Dict[str, Any]] = None,
    resolved: Optional[Event] = None,
    timed_out: bool = False,
) -> StepWorkerWaiter:
    return StepWorkerWaiter(
        waiter_id=waiter_id,
        event=event,
        waiting_for_event=waiting_for,
        requirements=dict(requirements or {}),
        has_requirements=bool(requirements),
        resolved_event=resolved,
        timed_out=timed_out,
    )


# ---------------------------------------------------------------- representation invariant (live state)


def rep_R1(state: BrokerState) -> bool:
    """in-progress <= num_workers; worker ids pairwise distinct and inside [0, num_workers)."""
    for ws in state.workers.values():
        nw = ws.config.num_workers
        ids = [x.worker_id for x in ws.in_progress]
        if len(ids) > nw:
            return False
        for i in range(len(ids)):
            if ids[i] < 0 or ids[i] >= nw:
                return False
            for j in range(i + 1, len(ids)):
                if ids[i] == ids[j]:
                    return False
    return True


def rep_R2(state: BrokerState) -> bool:
    """while the run is live, a non-empty queue implies the step is at its full worker limit."""
    if not state.is_running:
        return True
    for ws in state.workers.values():
        if ws.queue and len(ws.in_progress) < ws.config.num_workers:
            return False
    return True


def rep(state: BrokerState) -> bool:
    return rep_R1(state) and rep_R2(state)


# ---------------------------------------------------------------- a symbolic two-step world


class StubPolicy:
    """Environment stand-in for a user retry policy: ``next`` returns what the (symbolic) choice says.
    0: give up (None); 1: retry immediately (0); 2: retry after ``delay``; 3: raise."""

    def __init__(self, choice: int, delay: int = 1) -> None:
        self.choice = choice
        self.delay = delay
        self.calls: list = []

    def next(self, elapsed_time: float, attempts: int, error: Exception):
        self.calls.append((elapsed_time, attempts, error))
        if self.choice == 0:
            return None
        if self.choice == 1:
            return 0
        if self.choice == 2:
            return self.delay
        raise RuntimeError("policy raised")


W_NONE, W_PENDING, W_RESOLVED, W_TIMED_OUT = 0, 1, 2, 3


def world_ab(
    nw: int,
    b0: bool,
    b1: bool,
    b2: bool,
    q: int,
    att: int = 0,
    wait_kind: int = 0,
    buf_live: int = 0,
    buf_snap: int = 0,
    policy: Any = None,
    b_busy: bool = False,
    b_q: int = 0,
    is_running: bool = True,
    t0: int = 0,
    handlers: Optional[Dict[str, CatchErrorHandler]] = None,
    handler_for_step: Optional[Dict[str, str]] = None,
    rc: Optional[Dict[str, int]] = None,
    b_accepts: Optional[List[type]] = None,
    q_event: Optional[Event] = None,
    a_accepts: Optional[List[type]] = None,
) -> BrokerState:
    """Step "a": accepts EvA, ``nw`` workers (<=3), busy slots b0..b2, ``q`` queued EvA attempts, optional waiter
    "w1" (waiting for EvC, replaying EVA), collect buffer "buf" with ``buf_live`` EvB events of which the running
    workers saw ``buf_snap``.  Step "b": accepts EvB (and StartEvent), one worker."""
    w = []
    if wait_kind == W_PENDING:
        w = [waiter("w1", EVA, EvC)]
    elif wait_kind == W_RESOLVED:
        w = [waiter("w1", EVA, EvC, resolved=EVC)]
    elif wait_kind == W_TIMED_OUT:
        w = [waiter("w1", EVA, EvC, timed_out=True)]
    live = {"buf": [EVB] * buf_live} if buf_live > 0 else {}
    snap = {"buf": [EVB] * buf_snap} if buf_snap > 0 else {}
    cfg_a = step_config(list(a_accepts) if a_accepts is not None else [EvA], nw, policy)
    ips = [
        in_progress("a", EVA, i, attempts=att, first_attempt_at=t0, snapshot=snap, waiters=w, recovery_counts=rc)
        for i in busy_ids(3, (b0, b1, b2))
    ]
    ws_a = worker_state(cfg_a, [EventAttempt(event=EVA) for _ in range(q)], ips, live, w)
    cfg_b = step_config(list(b_accepts) if b_accepts is not None else [EvB, StartEvent], 1, None)
    ws_b = worker_state(
        cfg_b,
        [EventAttempt(event=EVB) for _ in range(b_q)],
        [in_progress("b", EVB, 0)] if b_busy else [],
    )
    return broker({"a": ws_a, "b": ws_b}, is_running=is_running, handlers=handlers, handler_for_step=handler_for_step)


def world_ab_valid(nw: int, b0: bool, b1: bool, b2: bool, q: int, b_busy: bool = False, b_q: int = 0) -> bool:
    """REP for the shape parameters of world_ab (R1 by construction of busy bits, R2 explicit)."""
    if not (1 <= nw <= 3):
        return False
    if (b1 and nw < 2) or (b2 and nw < 3):
        return False
    nb = (1 if b0 else 0) + (1 if b1 else 0) + (1 if b2 else 0)
    if q > 0 and nb < nw:
        return False
    if b_q > 0 and not b_busy:
        return False
    return q >= 0 and b_q >= 0
