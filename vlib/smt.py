"""Engine T support: discharge z3 queries built from the repo's CURRENT source, with vacuity check,
second-solver cross-check on the SMT-LIB2 text, and native replay of every model."""
from __future__ import annotations

import os
import shutil
import subprocess
import tempfile
import time
from typing import Any, Callable, Dict, List, Optional

import z3


def _py(v: Any) -> Any:
    if z3.is_int_value(v):
        return v.as_long()
    if z3.is_rational_value(v):
        n, d = v.numerator_as_long(), v.denominator_as_long()
        return n / d if d != 1 else n
    if z3.is_algebraic_value(v):
        return float(v.approx(20).as_fraction())
    if z3.is_true(v):
        return True
    if z3.is_false(v):
        return False
    if z3.is_string_value(v):
        return v.as_string()
    return str(v)


class SmtCtx:
    def __init__(self, excludes: Optional[List[str]] = None, timeout_s: int = 60) -> None:
        self.excludes = list(excludes or [])
        self.timeout_s = timeout_s
        self.records: List[Dict[str, Any]] = []

    def check(
        self,
        name: str,
        assumptions: List[Any],
        negated_property: Any,
        variables: Dict[str, Any],
        replay: Optional[Callable[[Dict[str, Any]], bool]] = None,
        cross_check: bool = True,
        note: str = "",
    ) -> str:
        """Returns 'unsat' (property holds for every value satisfying the assumptions), 'sat', 'unknown',
        'vacuous' (assumptions unsatisfiable)."""
        rec: Dict[str, Any] = {"name": name, "note": note}
        t0 = time.time()
        ns = {k: getattr(z3, k) for k in ("And", "Or", "Not", "Implies", "If")}
        ns.update(variables)
        excl = [z3.Not(eval(e, dict(ns))) for e in self.excludes]  # noqa: S307 - committed known_findings.json only
        base = z3.Solver()
        base.set("timeout", self.timeout_s * 1000)
        base.add(*assumptions)
        base.add(*excl)
        vac = base.check()
        rec["assumptions_sat"] = str(vac)
        if str(vac) != "sat":
            rec["result"] = "vacuous" if str(vac) == "unsat" else "unknown"
            rec["solver_s"] = round(time.time() - t0, 3)
            self.records.append(rec)
            return rec["result"]
        s = z3.Solver()
        s.set("timeout", self.timeout_s * 1000)
        s.add(*assumptions)
        s.add(*excl)
        s.add(negated_property)
        r = str(s.check())
        rec["result"] = r
        rec["smt2_bytes"] = len(s.to_smt2())
        if r == "sat":
            m = s.model()
            wit = {}
            for k, var in variables.items():
                try:
                    wit[k] = _py(m.eval(var, model_completion=True))
                except Exception:  # noqa: BLE001
                    wit[k] = str(m.eval(var, model_completion=True))
            rec["witness"] = wit
            if replay is not None:
                try:
                    rec["native_holds"] = bool(replay(wit))
                except Exception as e:  # noqa: BLE001
                    rec["native_holds"] = False
                    rec["native_exception"] = f"{type(e).__name__}: {e}"
        if cross_check and r in ("sat", "unsat"):
            other = second_opinion(s.to_smt2(), self.timeout_s)
            rec["cross"] = other
            if other["result"] in ("sat", "unsat") and other["result"] != r:
                rec["result"] = "solver_disagreement"
        rec["solver_s"] = round(time.time() - t0, 3)
        self.records.append(rec)
        return rec["result"]


def second_opinion(smt2: str, timeout_s: int) -> Dict[str, Any]:
    """Run the same SMT-LIB2 text through an independent solver binary (system z3 4.8.12, else cvc5)."""
    for exe, args in (("/usr/bin/z3", ["-T:%d" % timeout_s]), ("cvc5", ["--tlimit=%d" % (timeout_s * 1000)])):
        path = exe if os.path.isabs(exe) and os.path.exists(exe) else shutil.which(exe)
        if not path:
            continue
        with tempfile.NamedTemporaryFile("w", suffix=".smt2", delete=False) as f:
            f.write(smt2)
            fn = f.name
        try:
            p = subprocess.run([path] + args + [fn], capture_output=True, text=True, timeout=timeout_s + 10)
            out = (p.stdout or "").strip().split("\n")
            if any("(error" in ln for ln in out):
                return {"solver": exe, "result": "error", "detail": out[:2]}
            return {"solver": exe, "result": out[0] if out else "none"}
        except subprocess.TimeoutExpired:
            return {"solver": exe, "result": "timeout"}
        finally:
            os.unlink(fn)
    return {"solver": None, "result": "unavailable"}
