"""Shared helpers for C17 / C26 / C36 (client event stream; idle release / resume).

* ``lift_api_methods``: cut methods out of the CURRENT ``llama_agents/server/_api.py`` by AST (the module needs
  starlette at import) and compile them in a namespace whose only non-real names are the three starlette
  *names* ``HTTPException`` / ``StreamingResponse`` / ``Request`` (data carriers, no behaviour).
* ``VirtualClocks``: patches the module attributes ``time`` / ``datetime`` **of the modules under test** so that they
  read the MiniLoop virtual clock (CrossHair refuses real clocks).
* ``ensure_dbos_importable``: package-__init__ bypass for ``llama_agents.dbos`` (its __init__ imports DBOSRuntime,
  which needs dbos + sqlalchemy at module scope); ``asyncpg`` / ``dbos`` are name-only shims under /verif/shims.
"""
from __future__ import annotations

import vlib.boot  # noqa: F401

import ast
import asyncio
import datetime as _dt
import linecache
import os
import textwrap
from typing import Any, Dict, Iterable, List, Optional

from vlib import paths

API_FILE = os.path.join(paths.PKG, "llama-agents-server", "src", "llama_agents", "server", "_api.py")
DBOS_DIR = os.path.join(paths.PKG, "llama-agents-dbos", "src", "llama_agents", "dbos")


# --------------------------------------------------------------------------------------------- starlette names
class HTTPException(Exception):
    """Name stand-in for starlette.exceptions.HTTPException: a data carrier (status_code, detail)."""

    def __init__(self, status_code: int = 500, detail: Any = None, headers: Any = None) -> None:
        super().__init__(detail)
        self.status_code = status_code
        self.detail = detail
        self.headers = headers


class StreamingResponse:
    """Name stand-in for starlette.responses.StreamingResponse: carries the body iterator and the media type."""

    def __init__(self, content: Any, status_code: int = 200, headers: Any = None, media_type: Any = None) -> None:
        self.body_iterator = content
        self.status_code = status_code
        self.media_type = media_type


class Request:
    """Name stand-in for starlette.requests.Request: path_params / query_params / headers mappings."""

    def __init__(self, path_params: Dict[str, str], query_params: Dict[str, str], headers: Dict[str, str]) -> None:
        self.path_params = dict(path_params)
        self.query_params = dict(query_params)
        self.headers = {k.lower(): v for k, v in headers.items()}


_API_CACHE: Dict[str, Any] = {}


def _api_tree():
    if "tree" not in _API_CACHE:
        with open(API_FILE) as f:
            src = f.read()
        _API_CACHE["src"] = src
        _API_CACHE["tree"] = ast.parse(src)
    return _API_CACHE["src"], _API_CACHE["tree"]


def api_method_source(name: str) -> str:
    src, tree = _api_tree()
    for node in ast.walk(tree):
        if isinstance(node, ast.ClassDef) and node.name == "_WorkflowAPI":
            for item in node.body:
                if isinstance(item, (ast.FunctionDef, ast.AsyncFunctionDef)) and item.name == name:
                    seg = ast.get_source_segment(src, item, padded=True)
                    assert seg is not None
                    return textwrap.dedent(seg)
    raise LookupError(f"_WorkflowAPI.{name} not found in {API_FILE}")


def lift_api_methods(names: Iterable[str]) -> Dict[str, Any]:
    """Compile the named ``_WorkflowAPI`` methods from the current source.  Returns {name: function}."""
    from typing import AsyncGenerator, cast

    from llama_agents.client.protocol import HandlerData
    from llama_agents.client.protocol.serializable_events import EventEnvelopeWithMetadata
    from llama_agents.server._store.abstract_workflow_store import (
        AbstractWorkflowStore,
        HandlerQuery,
        is_terminal_status,
    )
    from workflows.events import InternalDispatchEvent

    ns: Dict[str, Any] = {
        "asyncio": asyncio,
        "cast": cast,
        "Any": Any,
        "AsyncGenerator": AsyncGenerator,
        "EventEnvelopeWithMetadata": EventEnvelopeWithMetadata,
        "HandlerData": HandlerData,
        "AbstractWorkflowStore": AbstractWorkflowStore,
        "HandlerQuery": HandlerQuery,
        "is_terminal_status": is_terminal_status,
        "InternalDispatchEvent": InternalDispatchEvent,
        "HTTPException": HTTPException,
        "StreamingResponse": StreamingResponse,
        "Request": Request,
        "__name__": "lifted_api",
    }
    out: Dict[str, Any] = {}
    for n in names:
        text = "from __future__ import annotations\n" + api_method_source(n)
        fname = f"<lifted {API_FILE}:{n}>"
        # make inspect.getsource()/tracebacks see the lifted text (the runner hashes ENCODED functions' source)
        linecache.cache[fname] = (len(text), None, text.splitlines(True), fname)
        exec(compile(text, fname, "exec"), ns)
        out[n] = ns[n]
    return out


def sse_frame_format_in_source() -> Optional[str]:
    """The f-string that ``format_stream`` yields for an SSE event, rendered with ``{sequence}``/``{payload}``
    placeholders, read from the current source by AST (None if the shape is not the expected single f-string)."""
    src, tree = _api_tree()
    for node in ast.walk(tree):
        if isinstance(node, ast.AsyncFunctionDef) and node.name == "format_stream":
            for sub in ast.walk(node):
                if isinstance(sub, ast.Yield) and isinstance(sub.value, ast.JoinedStr):
                    parts: List[str] = []
                    names: List[str] = []
                    for v in sub.value.values:
                        if isinstance(v, ast.Constant):
                            parts.append(str(v.value))
                        elif isinstance(v, ast.FormattedValue) and isinstance(v.value, ast.Name):
                            parts.append("{" + v.value.id + "}")
                            names.append(v.value.id)
                    if names == ["sequence", "payload"]:
                        return "".join(parts)
    return None


# --------------------------------------------------------------------------------------------- clocks
EPOCH = _dt.datetime(2026, 1, 1, tzinfo=_dt.timezone.utc)


class FakeTime:
    """Stands in for the ``time`` module inside a module under test: reads the loop's virtual clock."""

    def __init__(self, loop: Any) -> None:
        self._loop = loop

    def monotonic(self) -> float:
        return self._loop.time()

    def time(self) -> float:
        return 1_767_225_600.0 + self._loop.time()

    def perf_counter(self) -> float:
        return self._loop.time()


def _real_datetime_at(t: Any) -> _dt.datetime:
    """EPOCH + t seconds as a REAL (C) datetime.  Under CrossHair, constructor calls of datetime/timedelta are
    patched to its symbolic pure-Python classes (which pydantic-core cannot take); so realise `t` and build the
    value with tracing off."""
    if vlib.boot.under_crosshair():
        try:
            from crosshair import realize
            from crosshair.tracers import NoTracing, is_tracing
        except Exception:  # pragma: no cover
            return EPOCH + _dt.timedelta(seconds=float(t))
        if is_tracing():
            secs = realize(t)
            with NoTracing():
                return EPOCH + _dt.timedelta(seconds=float(secs))
    return EPOCH + _dt.timedelta(seconds=float(t))


def make_fake_datetime(loop: Any):
    """Stands in for the name ``datetime`` inside a module under test: ``now`` reads the loop's virtual clock and
    returns a real datetime; ``fromisoformat`` etc. are the real classmethods."""

    class FakeDatetime:
        @staticmethod
        def now(tz: Any = None) -> _dt.datetime:
            d = _real_datetime_at(loop.time())
            return d if tz is not None else d.replace(tzinfo=None)

        @staticmethod
        def fromisoformat(s: str) -> _dt.datetime:
            return _dt.datetime.fromisoformat(s)

    return FakeDatetime


class VirtualClocks:
    """``with VirtualClocks(loop, time_mods=[...], datetime_mods=[...]):`` — patch and always restore."""

    def __init__(self, loop: Any, time_mods: Iterable[Any] = (), datetime_mods: Iterable[Any] = ()) -> None:
        self._loop = loop
        self._time_mods = list(time_mods)
        self._dt_mods = list(datetime_mods)
        self._saved: List[Any] = []

    def __enter__(self) -> "VirtualClocks":
        ft = FakeTime(self._loop)
        fd = make_fake_datetime(self._loop)
        for m in self._time_mods:
            self._saved.append((m, "time", m.time))
            m.time = ft
        for m in self._dt_mods:
            self._saved.append((m, "datetime", m.datetime))
            m.datetime = fd
        return self

    def __exit__(self, *exc: Any) -> None:
        for m, attr, old in reversed(self._saved):
            setattr(m, attr, old)
        self._saved.clear()


# --------------------------------------------------------------------------------------------- dbos package
def ensure_dbos_importable() -> None:
    """``llama_agents/dbos/__init__.py`` imports DBOSRuntime (dbos, sqlalchemy at module scope): bypass the package
    __init__ exactly as vlib.boot does for llama_agents.server, so journal/lifecycle.py and idle_release.py load."""
    vlib.boot._bypass("llama_agents.dbos", DBOS_DIR)


# --------------------------------------------------------------------------------------------- in-process server stack
class InprocStack:
    """The in-process server stack exactly as ``WorkflowServer.__init__`` assembles it (server.py needs starlette):
    ServerRuntimeDecorator( IdleReleaseDecorator( PersistenceDecorator( BasicRuntime ) ) ) over one MemoryWorkflowStore,
    fronted by the real ``_WorkflowService``.  The BasicRuntime is the observing subclass below (no behaviour change).
    """

    def __init__(self, idle_timeout: Any, store: Any = None) -> None:
        from llama_agents.server._runtime.idle_release_runtime import IdleReleaseDecorator
        from llama_agents.server._runtime.persistence_runtime import PersistenceDecorator
        from llama_agents.server._runtime.server_runtime import ServerRuntimeDecorator
        from llama_agents.server._service import _WorkflowService
        from llama_agents.server._store.memory_workflow_store import MemoryWorkflowStore

        self.store = store if store is not None else MemoryWorkflowStore()
        self.basic = make_observing_basic_runtime()
        self.persistence = PersistenceDecorator(self.basic, store=self.store)
        self.idle = IdleReleaseDecorator(self.persistence, store=self.store, idle_timeout=idle_timeout)
        self.runtime = ServerRuntimeDecorator(self.idle, store=self.store, persistence_backoff=[])
        self.service = _WorkflowService(runtime=self.runtime, store=self.store)

    def add_workflow(self, name: str, workflow: Any) -> None:  # == WorkflowServer.add_workflow
        workflow._switch_workflow_name(name)
        workflow._switch_runtime(self.runtime)


_OBS_CLASSES: Dict[str, Any] = {}


def _observing_classes() -> Dict[str, Any]:
    """The observing BasicRuntime / adapter classes, built once per process (a class created per path would make
    CrossHair re-parse this file on every path)."""
    if _OBS_CLASSES:
        return _OBS_CLASSES
    from workflows.plugins.basic import BasicRuntime, ExternalAsyncioAdapter

    from workflows.plugins.basic import InternalAsyncioAdapter
    from workflows.runtime.control_loop import rebuild_state_from_ticks
    from workflows.runtime.types.named_task import PendingWorker, WorkerTask

    class ObsInternalAdapter(InternalAsyncioAdapter):
        async def wait_for_next_task(self, running, pending, timeout=None):  # type: ignore[no-untyped-def]
            # what the runner is about to wait on: worker tasks in flight, and whether its timer heap is non-empty
            self._queues.__dict__["obs_wait"] = {
                "workers": sum(1 for x in list(running) + list(pending) if isinstance(x, (WorkerTask, PendingWorker))),
                "timeout": timeout,
            }
            return await super().wait_for_next_task(running, pending, timeout)

    class ObsExternalAdapter(ExternalAsyncioAdapter):
        def abort(self) -> None:
            q = self._queues
            w = q.__dict__.get("obs_wait") or {"workers": 0, "timeout": None}
            self._outer.aborts.append(
                {"run_id": self.run_id, "mailbox": q.receive_queue.qsize(), "n_ticks": len(q.ticks),
                 "was_running": not q.complete.done(), "at": asyncio.get_running_loop().time(),
                 "workers_running": w["workers"], "wakeup_pending": w["timeout"] is not None,
                 "state": rebuild_state_from_ticks(q.init_state, list(q.ticks))}
            )
            super().abort()

    class ObsBasicRuntime(BasicRuntime):
        def __init__(self) -> None:
            super().__init__()
            self.loops: Dict[str, List[Any]] = {}
            self.aborts: List[Dict[str, Any]] = []
            self.overlap = False  # a control loop was started while an older one of the same run was not done
            self.purge_finished = False  # DBOS stub only (see make_stub_dbos_inner_runtime)

        def run_workflow(self, run_id, workflow, init_state, start_event=None, serialized_state=None, serializer=None):  # type: ignore[no-untyped-def]
            if self.purge_finished:
                q = self._queues.get(run_id)
                if q is not None and q.complete.done():
                    self._queues.pop(run_id, None)
            ad = super().run_workflow(run_id, workflow, init_state, start_event=start_event,
                                      serialized_state=serialized_state, serializer=serializer)
            olds = self.loops.setdefault(run_id, [])
            for t in olds:
                if not t.done():
                    self.overlap = True
            olds.append(self._queues[run_id].complete)
            return ad

        def get_external_adapter(self, run_id):  # type: ignore[no-untyped-def]
            if run_id not in self._queues:
                raise RuntimeError(f"No active workflow with run_id '{run_id}'. ")
            return ObsExternalAdapter(self, self._queues[run_id])

        def get_internal_adapter(self, workflow):  # type: ignore[no-untyped-def]
            inner = super().get_internal_adapter(workflow)
            return ObsInternalAdapter(inner._queues)

        def live_loops(self, run_id: str) -> int:
            return sum(1 for t in self.loops.get(run_id, []) if not t.done())

    _OBS_CLASSES.update(runtime=ObsBasicRuntime, internal=ObsInternalAdapter, external=ObsExternalAdapter)
    return _OBS_CLASSES


def make_observing_basic_runtime() -> Any:
    """A BasicRuntime that additionally RECORDS (a) every control-loop task it creates per run id and (b) a snapshot of
    the run's mailbox at the moment ``abort()`` is called on it.  Pure observation: every call goes to super()."""
    return _observing_classes()["runtime"]()


# --------------------------------------------------------------------------------------------- scenario runner
def concrete(i: Any, lo: int, hi: int) -> int:
    """Fork on a small symbolic int (the solver enumerates lo..hi) and return the concrete value."""
    for k in range(lo, hi):
        if i == k:
            return k
    return hi


def inproc_clock_modules() -> Dict[str, List[Any]]:
    """Every module on the in-process path that reads a clock (found by grep of the current tree; CrossHair raises
    NotDeterministic if one is missed, so the list is self-checking)."""
    import llama_agents.server._runtime.idle_release_runtime as irr
    import llama_agents.server._runtime.server_runtime as srt
    import llama_agents.server._service as svc
    import llama_agents.server._store.abstract_workflow_store as absm
    import llama_agents.server._store.memory_workflow_store as memm
    import workflows.context.internal_context as ictx
    import workflows.plugins.basic as basic_mod
    import workflows.runtime.control_loop as cl
    import workflows.runtime.types.step_function as sf

    return {"time": [basic_mod, cl, sf, ictx], "datetime": [irr, srt, absm, memm, svc]}


class _FixedIds:
    """Deterministic stand-in for the module attribute ``nanoid``/``uuid`` (ids are environment)."""

    def __init__(self, prefix: str) -> None:
        self.prefix = prefix
        self.n = 0

    def __call__(self, *a: Any, **k: Any) -> str:
        self.n += 1
        return f"{self.prefix}{self.n}"

    def uuid4(self) -> str:
        return self()


def run_inproc(idle_timeout: Any, sends: List[Any], make_workflow: Any, make_event: Any, settle: int = 3,
               horizon: int = 12) -> Dict[str, Any]:
    """One whole scenario on a fresh MiniLoop / store / runtime stack.

    * the workflow (built by ``make_workflow()``) is registered as "w" and started through the REAL
      ``_WorkflowService.start_workflow`` (handler "h1", run id "run1");
    * ``sends`` = [(at, payload), ...]: at virtual time ``at`` the event ``make_event(payload)`` is sent through the REAL
      ``_WorkflowService.send_event`` (one sender task per entry, started in list order);
    * after the last send the handler record is polled once per virtual second until it leaves "running"
      (at most ``horizon`` seconds), then ``settle`` more seconds pass.
    Returns an observation record (plain data) for the obligations' predicates."""
    import llama_agents.server._service as svc
    import workflows.runtime.types.step_function as sf
    from llama_agents.server._store.abstract_workflow_store import HandlerQuery
    from vlib.miniloop import MiniLoop

    loop = MiniLoop()
    obs: Dict[str, Any] = {"pre_send": [], "post_send": [], "errors": []}

    async def main() -> None:
        st = InprocStack(idle_timeout)
        wf = make_workflow()
        st.add_workflow("w", wf)
        await st.service.start()
        await st.service.start_workflow(wf, "h1", None)

        async def handler_rec() -> Any:
            return (await st.store.query(HandlerQuery(handler_id_in=["h1"])))[0]

        async def sender(i: int, at: Any, payload: Any) -> None:
            await asyncio.sleep(at)
            h = await handler_rec()
            obs["pre_send"].append({"i": i, "at": loop.time(), "live": st.basic.live_loops("run1"),
                                    "idle_since": h.idle_since is not None, "status": h.status,
                                    "aborts": len(st.basic.aborts), "loops": len(st.basic.loops.get("run1", []))})
            try:
                await st.service.send_event("h1", make_event(payload))
            except Exception as e:  # noqa: BLE001 - recorded, judged by the obligation
                obs["errors"].append(f"send {i}: {type(e).__name__}: {e}")

        tasks = [asyncio.ensure_future(sender(i, at, p)) for i, (at, p) in enumerate(sends)]
        for t in tasks:
            await t
        h = await handler_rec()
        waited = 0
        while h.status == "running" and waited < horizon:
            await asyncio.sleep(1)
            waited += 1
            h = await handler_rec()
        if settle:
            await asyncio.sleep(settle)
            h = await handler_rec()
        ticks = await st.store.get_ticks("run1")
        obs["status"] = h.status
        obs["idle_since"] = h.idle_since is not None
        obs["result"] = h.result.result if h.result is not None else None
        obs["error"] = h.error
        obs["ticks"] = [t.tick_data for t in ticks]
        obs["aborts"] = list(st.basic.aborts)
        obs["overlap"] = st.basic.overlap
        obs["loops"] = len(st.basic.loops.get("run1", []))
        obs["live_at_end"] = st.basic.live_loops("run1")
        obs["end"] = loop.time()
        obs["workflow"] = wf
        obs["loop_exceptions"] = [str(c.get("exception") or c.get("message")) for c in loop._exc]
        await st.service.stop()

    clocks = inproc_clock_modules()
    saved_nanoid, saved_uuid = svc.nanoid, sf.uuid
    svc.nanoid = _FixedIds("run")
    sf.uuid = _FixedIds("span")
    try:
        with VirtualClocks(loop, time_mods=clocks["time"], datetime_mods=clocks["datetime"]):
            loop.run_until_complete(main())
    finally:
        svc.nanoid, sf.uuid = saved_nanoid, saved_uuid
    return obs


def abort_state_is_quiescent(ab: Dict[str, Any]) -> bool:
    """Judge one abort() snapshot: nothing queued (mailbox, step queues), running (in_progress / worker tasks) or
    scheduled (the runner's last wait carried a wake-up timeout <=> its timer heap was non-empty)."""
    if ab["mailbox"] != 0 or ab["workers_running"] != 0 or ab["wakeup_pending"]:
        return False
    for ws in ab["state"].workers.values():
        if ws.queue or ws.in_progress:
            return False
    return True


# ============================================================================================================
# C26 / C36 second generation: tooling speed-ups, sampled scenario runner for both server stacks
# ============================================================================================================
_SPEEDUPS = False


def install_speedups() -> None:
    """Tooling only — none of this changes what the code under test computes.

    * logging is switched off (``logging.disable``): LogRecord construction reads ``time.time()``, which CrossHair
      models as a fresh symbolic float (a fork per log line); log output is observability only.
    * under CrossHair, ``repr()`` of a CONCRETE int/float/bool/str/None returns the native string (CrossHair 0.0.110
      turns even a concrete int's repr into a symbolic string; ``summarize_event`` then forks on its length).
    * under CrossHair, ``workflows.utils.get_steps_from_instance/_class`` (``inspect.getmembers`` over a Workflow:
      pure introspection of the class, no symbolic input) run with tracing off — the REAL functions, executed
      natively, exactly like pydantic-core / sqlite3.  Measured: 18 s -> 2.5 s per whole-run path.
    """
    global _SPEEDUPS
    if _SPEEDUPS:
        return
    _SPEEDUPS = True
    import logging

    logging.disable(logging.CRITICAL)
    if not vlib.boot.under_crosshair():
        return
    try:
        from crosshair import core as ch_core
        from crosshair.tracers import NoTracing
    except Exception:  # pragma: no cover
        return
    import workflows.utils as wu

    orig_repr = ch_core._PATCH_REGISTRATIONS.get(repr)
    if orig_repr is not None:
        simple = (int, float, bool, str, type(None))

        def concrete_repr(obj: Any) -> Any:
            with NoTracing():
                if type(obj) in simple:
                    return repr(obj)
            return orig_repr(obj)

        ch_core._PATCH_REGISTRATIONS[repr] = concrete_repr

    def untraced(fn: Any) -> Any:
        def w(*a: Any, **k: Any) -> Any:
            with NoTracing():
                return fn(*a, **k)

        return w

    for f in (wu.get_steps_from_instance, wu.get_steps_from_class):
        if f not in ch_core._PATCH_REGISTRATIONS:
            ch_core._PATCH_REGISTRATIONS[f] = untraced(f)

    # CrossHair "enforcement" looks up PEP-316 contracts of every callee (parsing the callee's source with ast on every
    # call of a freshly created function / class) in order to check them at run time.  Nothing in /repo, pydantic or
    # asyncio declares such contracts, so the lookup is switched off for every caller file: 20 % of the run time.
    try:
        from crosshair import enforce as ch_enforce

        if ".py" not in ch_enforce._FILE_SUFFIXES_WITHOUT_ENFORCEMENT:
            ch_enforce._FILE_SUFFIXES_WITHOUT_ENFORCEMENT = tuple(ch_enforce._FILE_SUFFIXES_WITHOUT_ENFORCEMENT) + (".py",)
    except Exception:  # pragma: no cover
        pass

    # CrossHair runs gc.collect() on EVERY weakref dereference (WeakValueDictionary lookups in BasicRuntime._queues and
    # WorkflowSet: 34 % of the run time) to make weak references deterministic across its re-executions.  The
    # scenarios here make all solver decisions before the scenario starts (vlib.h_idle.concrete), and their verdicts do
    # not depend on when a finished run's mailbox is collected, so the plain dereference is used.
    try:
        from weakref import ref as _ref

        if _ref.__call__ in ch_core._PATCH_REGISTRATIONS:
            del ch_core._PATCH_REGISTRATIONS[_ref.__call__]
    except Exception:  # pragma: no cover
        pass


def make_stub_dbos_inner_runtime() -> Any:
    """ENVIRONMENT STUB for ``DBOSRuntime`` (dbos / sqlalchemy are not installed): the observing BasicRuntime, plus the
    one thing ``DBOSIdleReleaseDecorator._do_resume`` relies on DBOS for — ``DBOS.delete_workflow_async(run_id)`` makes
    the run id reusable — modelled as: a *finished* run's mailbox entry is dropped when the same run id is started
    again.  It never touches the lifecycle table (``dbos_runtime_touches_lifecycle()`` checks that the real
    DBOSRuntime does not either)."""
    rt = make_observing_basic_runtime()
    rt.purge_finished = True
    return rt


class DBOSUnavailable:
    """Stands in for the NAME ``DBOS`` inside ``llama_agents.dbos.idle_release`` while an obligation runs: every call
    raises a plain ``RuntimeError`` — which ``_do_resume`` handles in its existing ``try/except Exception`` blocks
    ("Failed to await old DBOS workflow" / "DBOS state already purged").  With the stub inner runtime the old run has
    already finished when ``complete_release`` was written, so skipping that wait loses nothing."""

    calls: List[str] = []

    @staticmethod
    async def retrieve_workflow_async(*a: Any, **k: Any) -> Any:
        raise RuntimeError("DBOS is not available in this sandbox (harness stand-in)")

    @staticmethod
    async def delete_workflow_async(*a: Any, **k: Any) -> Any:
        raise RuntimeError("DBOS is not available in this sandbox (harness stand-in)")


def dbos_lifecycle_create_callers() -> List[str]:
    """AST scan of the CURRENT ``llama_agents/dbos`` sources (lifecycle.py itself excluded): every call of a method
    named ``create`` — i.e. every place that could insert a ``run_lifecycle`` row — as "file:line"."""
    out: List[str] = []
    for root, _dirs, files in os.walk(DBOS_DIR):
        for fn in sorted(files):
            if not fn.endswith(".py"):
                continue
            p = os.path.join(root, fn)
            if p.endswith(os.path.join("journal", "lifecycle.py")):
                continue
            with open(p) as f:
                src = f.read()
            for node in ast.walk(ast.parse(src)):
                if isinstance(node, ast.Call) and isinstance(node.func, ast.Attribute) and node.func.attr == "create":
                    out.append(f"{os.path.relpath(p, DBOS_DIR)}:{node.lineno}")
    return out


def dbos_runtime_touches_lifecycle() -> bool:
    """True iff ``llama_agents/dbos/runtime.py`` (the module the stub inner runtime stands in for) does anything with
    the lifecycle lock besides importing the classes and building the lock factory — decided by AST on the current
    source: names containing 'lifecycle' (case-insensitive) may occur only in import statements, in the method
    ``_create_lifecycle_lock_factory`` and as the keyword ``lifecycle_lock=`` of the decorator construction; and no
    ``.create(...)`` call on anything.  If this returns True the stub is no longer faithful and the DBOS obligations
    declare themselves not runnable (precondition unsatisfiable => reported inconclusive, never as holding)."""
    p = os.path.join(DBOS_DIR, "runtime.py")
    with open(p) as f:
        tree = ast.parse(f.read())
    allowed_fn = "_create_lifecycle_lock_factory"

    def walk(node: ast.AST, inside_allowed: bool) -> bool:
        for ch in ast.iter_child_nodes(node):
            if isinstance(ch, (ast.Import, ast.ImportFrom)):
                continue
            ok_here = inside_allowed or (isinstance(ch, (ast.FunctionDef, ast.AsyncFunctionDef)) and ch.name == allowed_fn)
            if not ok_here:
                if isinstance(ch, ast.Name) and "lifecycle" in ch.id.lower():
                    return True
                if isinstance(ch, ast.Attribute) and "lifecycle" in ch.attr.lower() and ch.attr != allowed_fn:
                    return True
                if isinstance(ch, ast.Call) and isinstance(ch.func, ast.Attribute) and ch.func.attr == "create":
                    return True
            if walk(ch, ok_here):
                return True
        return False

    return walk(tree, False)


LIFECYCLE_SQL_FILE = os.path.join(DBOS_DIR, "_store", "sqlite", "migrations", "0001_init.sql")


def make_lifecycle_db(db_path: str) -> None:
    """Create the tables from the package's own sqlite migration SQL (current file) in ``db_path``."""
    import sqlite3

    with open(LIFECYCLE_SQL_FILE) as f:
        sql = f.read()
    conn = sqlite3.connect(db_path)
    try:
        conn.executescript(sql)
        conn.commit()
    finally:
        conn.close()


def lifecycle_row(db_path: str, run_id: str) -> Optional[str]:
    """state of the run's lifecycle row, or None if there is no row (read directly with sqlite3)."""
    import sqlite3

    conn = sqlite3.connect(db_path)
    try:
        row = conn.execute("SELECT state FROM run_lifecycle WHERE run_id = ?", (run_id,)).fetchone()
    finally:
        conn.close()
    return None if row is None else str(row[0])


class DbosStack:
    """The DBOS server stack as ``DBOSRuntime.build_server_runtime`` + ``WorkflowServer`` assemble it:
    ServerRuntimeDecorator( DBOSIdleReleaseDecorator( EventInterceptorDecorator( TickPersistenceDecorator( <inner> ))))
    with the REAL decorators and the REAL ``SqliteRunLifecycleLock`` on ``db_path``; <inner> is the stub above.
    The workflow store is a MemoryWorkflowStore (the decorator only uses the AbstractWorkflowStore interface)."""

    def __init__(self, idle_timeout: Any, db_path: str, store: Any = None, wrap_lock: Any = None) -> None:
        ensure_dbos_importable()
        from llama_agents.dbos.idle_release import DBOSIdleReleaseDecorator
        from llama_agents.dbos.journal.lifecycle import SqliteRunLifecycleLock
        from llama_agents.server._runtime.event_interceptor import EventInterceptorDecorator
        from llama_agents.server._runtime.persistence_runtime import TickPersistenceDecorator
        from llama_agents.server._runtime.server_runtime import ServerRuntimeDecorator
        from llama_agents.server._service import _WorkflowService
        from llama_agents.server._store.memory_workflow_store import MemoryWorkflowStore

        self.db_path = db_path
        self.store = store if store is not None else MemoryWorkflowStore()  # shared by "replicas" = the shared database
        self.basic = make_stub_dbos_inner_runtime()
        self.persistence = TickPersistenceDecorator(self.basic, self.store)
        # same shape as DBOSRuntime._create_lifecycle_lock_factory for the sqlite back end: an async factory
        lock = SqliteRunLifecycleLock(db_path=db_path)
        self.real_lock = lock
        if wrap_lock is not None:  # fault injection (a process death between two lock calls), never a behaviour change
            lock = wrap_lock(lock)
        self.lock = lock

        async def lock_factory() -> Any:
            return lock

        self.idle = DBOSIdleReleaseDecorator(EventInterceptorDecorator(self.persistence), store=self.store,
                                             idle_timeout=idle_timeout, journal_crud=None, lifecycle_lock=lock_factory)
        self.runtime = ServerRuntimeDecorator(self.idle, store=self.store, persistence_backoff=[])
        self.service = _WorkflowService(runtime=self.runtime, store=self.store)

    def add_workflow(self, name: str, workflow: Any) -> None:  # == WorkflowServer.add_workflow
        workflow._switch_workflow_name(name)
        workflow._switch_runtime(self.runtime)


def dbos_clock_modules() -> Dict[str, List[Any]]:
    ensure_dbos_importable()
    import llama_agents.dbos.idle_release as dir_
    import llama_agents.dbos.journal.lifecycle as lc

    c = inproc_clock_modules()
    return {"time": list(c["time"]), "datetime": list(c["datetime"]) + [dir_, lc]}


_SLOW_STORE: List[Any] = []


def make_slow_store(slow_k: int, lat: Any, land_first: bool) -> Any:
    """ENVIRONMENT STUB for a store with I/O latency (Postgres / agent-data): a MemoryWorkflowStore whose ``slow_k``-th
    ``update_handler_status`` call (0-based, counted over the whole scenario) takes ``lat`` virtual seconds — the write takes
    effect either before the wait (``land_first``) or after it.  Every other call is immediate, as in MemoryWorkflowStore.
    The class is built once per process (a class created per path would make CrossHair re-analyse it)."""
    if not _SLOW_STORE:
        from llama_agents.server._store.memory_workflow_store import MemoryWorkflowStore

        class SlowStore(MemoryWorkflowStore):
            def __init__(self, slow_k: int, lat: Any, land_first: bool) -> None:
                super().__init__()
                self.slow_k, self.lat, self.land_first = slow_k, lat, land_first
                self.n_status_writes = 0
                self.slow_hit: Any = None

            async def query(self, query: Any) -> Any:
                # slow_k == -1: EVERY handler look-up by run id (what the release timer and update_handler_status do; the harness itself
                # looks handlers up by handler id) returns its answer `lat` seconds late — read first, delivered late (a stale answer)
                if self.slow_k == -1 and getattr(query, "run_id_in", None):
                    found = await super().query(query)
                    await asyncio.sleep(self.lat)
                    return found
                return await super().query(query)

            async def append_tick(self, run_id: str, tick_data: Any) -> None:
                # slow_k == -2: EVERY tick-log append takes `lat` seconds (the row lands before or after the wait)
                if self.slow_k != -2:
                    await super().append_tick(run_id, tick_data)
                elif self.land_first:
                    await super().append_tick(run_id, tick_data)
                    await asyncio.sleep(self.lat)
                else:
                    await asyncio.sleep(self.lat)
                    await super().append_tick(run_id, tick_data)

            async def update_handler_status(self, run_id: str, **kw: Any) -> None:
                k = self.n_status_writes
                self.n_status_writes += 1
                if k != self.slow_k:
                    await super().update_handler_status(run_id, **kw)
                    return
                self.slow_hit = (asyncio.get_event_loop().time(), sorted(kw))
                if self.land_first:
                    await super().update_handler_status(run_id, **kw)
                    await asyncio.sleep(self.lat)
                else:
                    await asyncio.sleep(self.lat)
                    await super().update_handler_status(run_id, **kw)

        _SLOW_STORE.append(SlowStore)
    return _SLOW_STORE[0](slow_k, lat, land_first)


def run_stack(kind: str, idle_timeout: Any, sends: List[Any], make_workflow: Any, make_event: Any, *,
              early: bool = True, probe_to: int = 0, precreate: bool = False, settle: int = 1,
              horizon: int = 6, simultaneous_resumers: int = 1, slow_write: Any = None) -> Dict[str, Any]:
    """One whole scenario on a fresh MiniLoop / store / runtime stack (``kind`` = "inproc" | "dbos").

    * the workflow instance from ``make_workflow()`` is registered as "w" and started through the REAL
      ``_WorkflowService.start_workflow`` (handler "h1", run id "run1") at virtual time 0;
    * ``sends`` = [(at, payload), ...] (``at`` absolute virtual instants): ``make_event(payload)`` is sent through the
      REAL ``_WorkflowService.send_event``.  ``early=True``: the sender's timer is registered at time 0 (it wins a tie
      with a release timer of the same instant); ``early=False``: it is registered half a second before ``at`` (it
      loses such a tie) — MiniLoop fires equal deadlines in registration order, so both tie orders are covered;
    * a sampler records the run's externally visible condition at every half-integer instant < ``probe_to``;
    * ``kind="dbos"``, ``precreate=True``: the lifecycle row is created through the REAL ``lock.create(run_id)`` right
      after the start (what the ``create`` docstring says happens "when workflow starts").
    Returns plain data for the obligations' predicates."""
    import llama_agents.server._service as svc
    import workflows.runtime.types.step_function as sf
    from llama_agents.server._store.abstract_workflow_store import HandlerQuery
    from vlib.miniloop import MiniLoop

    install_speedups()
    loop = MiniLoop()
    obs: Dict[str, Any] = {"pre_send": [], "post_send": [], "errors": [], "samples": []}
    tmp = None
    db_path = ""  # (every closure cell of main() must be filled: CrossHair inspects them at call time)
    if kind == "dbos":
        from vlib.h_stores import TmpDir

        tmp = TmpDir()
        d = tmp.__enter__()
        db_path = os.path.join(d, "dbos.sqlite")
        make_lifecycle_db(db_path)

    async def main() -> None:
        store = make_slow_store(*slow_write) if slow_write is not None else None
        st: Any = InprocStack(idle_timeout, store=store) if kind == "inproc" else DbosStack(idle_timeout, db_path, store=store)
        wf = make_workflow()
        st.add_workflow("w", wf)
        await st.service.start()
        await st.service.start_workflow(wf, "h1", None)
        if kind == "dbos" and precreate:
            await st.lock.create("run1")

        async def handler_rec() -> Any:
            return (await st.store.query(HandlerQuery(handler_id_in=["h1"])))[0]

        def released_flag() -> Any:
            if kind == "inproc":
                return "run1" not in st.idle._active_run_ids
            return lifecycle_row(db_path, "run1")

        async def snapshot() -> Dict[str, Any]:
            h = await handler_rec()
            return {"at": loop.time(), "live": st.basic.live_loops("run1"), "queued": "run1" in st.basic._queues,
                    "lifecycle": released_flag(), "status": h.status,
                    "idle_since": None if h.idle_since is None else (h.idle_since - EPOCH).total_seconds(),
                    "loops": len(st.basic.loops.get("run1", [])), "aborts": len(st.basic.aborts)}

        async def sampler() -> None:
            if probe_to <= 0:
                return
            await asyncio.sleep(0.5)
            for k in range(probe_to):
                obs["samples"].append(await snapshot())
                if k + 1 < probe_to:
                    await asyncio.sleep(1)

        async def sender(i: int, at: Any, payload: Any) -> None:
            if early or at < 1:
                await asyncio.sleep(at)
            else:
                await asyncio.sleep(at - 0.5)
                await asyncio.sleep(0.5)
            obs["pre_send"].append(dict(await snapshot(), i=i))
            try:
                await st.service.send_event("h1", make_event(payload))
            except Exception as e:  # noqa: BLE001 - recorded, judged by the obligation
                obs["errors"].append(f"send {i}: {type(e).__name__}: {e}")
            # WorkflowHandler.send_event hands the tick to a background task: "delivered" is observed a quarter of a
            # second later (virtual time only advances when nothing is runnable, so everything of this instant has
            # settled), and once more at +0.75 s if the run is still being resumed (the DBOS sender polls every 0.5 s
            # while the row is 'releasing')
            await asyncio.sleep(0.25)
            snap = await snapshot()
            if snap["status"] == "running" and snap["live"] == 0:
                await asyncio.sleep(0.5)
                snap = await snapshot()
            obs["post_send"].append(dict(snap, i=i))

        tasks = [asyncio.ensure_future(sampler())]
        tasks += [asyncio.ensure_future(sender(i, at, p)) for i, (at, p) in enumerate(sends)]
        for t in tasks:
            await t
        h = await handler_rec()
        waited = 0
        while h.status == "running" and waited < horizon:
            await asyncio.sleep(1)
            waited += 1
            h = await handler_rec()
        if settle:
            await asyncio.sleep(settle)
            h = await handler_rec()
        ticks = await st.store.get_ticks("run1")
        obs["status"] = h.status
        obs["idle_since"] = h.idle_since is not None
        obs["result"] = h.result.result if h.result is not None else None
        obs["error"] = h.error
        obs["ticks"] = [t.tick_data for t in ticks]
        obs["aborts"] = list(st.basic.aborts)
        obs["overlap"] = st.basic.overlap
        obs["loops"] = len(st.basic.loops.get("run1", []))
        obs["live_at_end"] = st.basic.live_loops("run1")
        obs["end"] = loop.time()
        obs["workflow"] = wf
        obs["final"] = await snapshot()
        # instants at which the engine announced the run idle (WorkflowIdleEvent in the stored event stream)
        obs["idle_at"] = [(e.timestamp - EPOCH).total_seconds() for e in await st.store.query_events("run1")
                          if e.event.type == "WorkflowIdleEvent"]
        obs["loop_exceptions"] = [str(c.get("exception") or c.get("message")) for c in loop._exc]
        obs["slow_hit"] = getattr(st.store, "slow_hit", None)
        obs["status_writes"] = getattr(st.store, "n_status_writes", None)
        await st.service.stop()
        await asyncio.sleep(0)  # let the stop task (cancels whatever is still active) run

    clocks = inproc_clock_modules() if kind == "inproc" else dbos_clock_modules()
    saved_nanoid, saved_uuid = svc.nanoid, sf.uuid
    svc.nanoid = _FixedIds("run")
    sf.uuid = _FixedIds("span")
    saved_dbos = None
    if kind == "dbos":
        import llama_agents.dbos.idle_release as dir_

        saved_dbos = dir_.DBOS
        dir_.DBOS = DBOSUnavailable
    try:
        with VirtualClocks(loop, time_mods=clocks["time"], datetime_mods=clocks["datetime"]):
            loop.run_until_complete(main())
    finally:
        svc.nanoid, sf.uuid = saved_nanoid, saved_uuid
        if kind == "dbos":
            import llama_agents.dbos.idle_release as dir_

            dir_.DBOS = saved_dbos
        if tmp is not None:
            tmp.__exit__(None, None, None)
    return obs


def ext_payloads_in_ticks(ticks: List[Dict[str, Any]], field: str = "n") -> List[Any]:
    """The ``field`` values of the external events recorded as ``add_event`` ticks, in log order."""
    out: List[Any] = []
    for t in ticks:
        if t.get("type") != "add_event":
            continue
        ev = t.get("event") or {}
        val = ev.get("value") if isinstance(ev, dict) else None
        if isinstance(val, dict) and field in val:
            out.append(val[field])
    return out
