"""Shared helpers for C17 / C26 / C36 (client event stream; idle release / resume).

* ``lift_api_methods``: cut methods out of the CURRENT ``llama_agents/server/_api.py`` by AST (the module needs
  starlette at import) and compile them in a namespace whose only non-real names are the three starlette
  *names* ``HTTPException`` / ``StreamingResponse`` / ``Request`` (data carriers, no behaviour).
* ``VirtualClocks``: patches the module attributes ``time`` / ``datetime`` **of the modules under test** so that they
  read the MiniLoop virtual clock (CrossHair refuses real clocks).
* ``ensure_dbos_importable``: package-__init__ bypass for ``llama_agents.dbos`` (its __init__ imports DBOSRuntime,
  which needs dbos + sqlalchemy at module scope); ``asyncpg`` / ``dbos`` are name-only shims under /verif/shims.
"""
from __future__ import annotations

import vlib.boot  # noqa: F401

import ast
import asyncio
import datetime as _dt
import linecache
import os
import textwrap
from typing import Any, Dict, Iterable, List, Optional

from vlib import paths

API_FILE = os.path.join(paths.PKG, "llama-agents-server", "src", "llama_agents", "server", "_api.py")
DBOS_DIR = os.path.join(paths.PKG, "llama-agents-dbos", "src", "llama_agents", "dbos")


# --------------------------------------------------------------------------------------------- starlette names
class HTTPException(Exception):
    """Name stand-in for starlette.exceptions.HTTPException: a data carrier (status_code, detail)."""

    def __init__(self, status_code: int = 500, detail: Any = None, headers: Any = None) -> None:
        super().__init__(detail)
        self.status_code = status_code
        self.detail = detail
        self.headers = headers


class StreamingResponse:
    """Name stand-in for starlette.responses.StreamingResponse: carries the body iterator and the media type."""

    def __init__(self, content: Any, status_code: int = 200, headers: Any = None, media_type: Any = None) -> None:
        self.body_iterator = content
        self.status_code = status_code
        self.media_type = media_type


class Request:
    """Name stand-in for starlette.requests.Request: path_params / query_params / headers mappings."""

    def __init__(self, path_params: Dict[str, str], query_params: Dict[str, str], headers: Dict[str, str]) -> None:
        self.path_params = dict(path_params)
        self.query_params = dict(query_params)
        self.headers = {k.lower(): v for k, v in headers.items()}


_API_CACHE: Dict[str, Any] = {}


def _api_tree():
    if "tree" not in _API_CACHE:
        with open(API_FILE) as f:
            src = f.read()
        _API_CACHE["src"] = src
        _API_CACHE["tree"] = ast.parse(src)
    return _API_CACHE["src"], _API_CACHE["tree"]


def api_method_source(name: str) -> str:
    src, tree = _api_tree()
    for node in ast.walk(tree):
        if isinstance(node, ast.ClassDef) and node.name == "_WorkflowAPI":
            for item in node.body:
                if isinstance(item, (ast.FunctionDef, ast.AsyncFunctionDef)) and item.name == name:
                    seg = ast.get_source_segment(src, item, padded=True)
                    assert seg is not None
                    return textwrap.dedent(seg)
    raise LookupError(f"_WorkflowAPI.{name} not found in {API_FILE}")


def lift_api_methods(names: Iterable[str]) -> Dict[str, Any]:
    """Compile the named ``_WorkflowAPI`` methods from the current source.  Returns {name: function}."""
    from typing import AsyncGenerator, cast

    from llama_agents.client.protocol import HandlerData
    from llama_agents.client.protocol.serializable_events import EventEnvelopeWithMetadata
    from llama_agents.server._store.abstract_workflow_store import (
        AbstractWorkflowStore,
        HandlerQuery,
        is_terminal_status,
    )
    from workflows.events import InternalDispatchEvent

    ns: Dict[str, Any] = {
        "asyncio": asyncio,
        "cast": cast,
        "Any": Any,
        "AsyncGenerator": AsyncGenerator,
        "EventEnvelopeWithMetadata": EventEnvelopeWithMetadata,
        "HandlerData": HandlerData,
        "AbstractWorkflowStore": AbstractWorkflowStore,
        "HandlerQuery": HandlerQuery,
        "is_terminal_status": is_terminal_status,
        "InternalDispatchEvent": InternalDispatchEvent,
        "HTTPException": HTTPException,
        "StreamingResponse": StreamingResponse,
        "Request": Request,
        "__name__": "lifted_api",
    }
    out: Dict[str, Any] = {}
    for n in names:
        text = "from __future__ import annotations\n" + api_method_source(n)
        fname = f"<lifted {API_FILE}:{n}>"
        # make inspect.getsource()/tracebacks see the lifted text (the runner hashes ENCODED functions' source)
        linecache.cache[fname] = (len(text), None, text.splitlines(True), fname)
        exec(compile(text, fname, "exec"), ns)
        out[n] = ns[n]
    return out


def sse_frame_format_in_source() -> Optional[str]:
    """The f-string that ``format_stream`` yields for an SSE event, rendered with ``{sequence}``/``{payload}``
    placeholders, read from the current source by AST (None if the shape is not the expected single f-string)."""
    src, tree = _api_tree()
    for node in ast.walk(tree):
        if isinstance(node, ast.AsyncFunctionDef) and node.name == "format_stream":
            for sub in ast.walk(node):
                if isinstance(sub, ast.Yield) and isinstance(sub.value, ast.JoinedStr):
                    parts: List[str] = []
                    names: List[str] = []
                    for v in sub.value.values:
                        if isinstance(v, ast.Constant):
                            parts.append(str(v.value))
                        elif isinstance(v, ast.FormattedValue) and isinstance(v.value, ast.Name):
                            parts.append("{" + v.value.id + "}")
                            names.append(v.value.id)
                    if names == ["sequence", "payload"]:
                        return "".join(parts)
    return None


# --------------------------------------------------------------------------------------------- clocks
EPOCH = _dt.datetime(2026, 1, 1, tzinfo=_dt.timezone.utc)


class FakeTime:
    """Stands in for the ``time`` module inside a module under test: reads the loop's virtual clock."""

    def __init__(self, loop: Any) -> None:
        self._loop = loop

    def monotonic(self) -> float:
        return self._loop.time()

    def time(self) -> float:
        return 1_767_225_600.0 + self._loop.time()

    def perf_counter(self) -> float:
        return self._loop.time()


def _real_datetime_at(t: Any) -> _dt.datetime:
    """EPOCH + t seconds as a REAL (C) datetime.  Under CrossHair, constructor calls of datetime/timedelta are
    patched to its symbolic pure-Python classes (which pydantic-core cannot take); so realise `t` and build the
    value with tracing off."""
    if vlib.boot.under_crosshair():
        try:
            from crosshair import realize
            from crosshair.tracers import NoTracing, is_tracing
        except Exception:  # pragma: no cover
            return EPOCH + _dt.timedelta(seconds=float(t))
        if is_tracing():
            secs = realize(t)
            with NoTracing():
                return EPOCH + _dt.timedelta(seconds=float(secs))
    return EPOCH + _dt.timedelta(seconds=float(t))


def make_fake_datetime(loop: Any):
    """Stands in for the name ``datetime`` inside a module under test: ``now`` reads the loop's virtual clock and
    returns a real datetime; ``fromisoformat`` etc. are the real classmethods."""

    class FakeDatetime:
        @staticmethod
        def now(tz: Any = None) -> _dt.datetime:
            d = _real_datetime_at(loop.time())
            return d if tz is not None else d.replace(tzinfo=None)

        @staticmethod
        def fromisoformat(s: str) -> _dt.datetime:
            return _dt.datetime.fromisoformat(s)

    return FakeDatetime


class VirtualClocks:
    """``with VirtualClocks(loop, time_mods=[...], datetime_mods=[...]):`` — patch and always restore."""

    def __init__(self, loop: Any, time_mods: Iterable[Any] = (), datetime_mods: Iterable[Any] = ()) -> None:
        self._loop = loop
        self._time_mods = list(time_mods)
        self._dt_mods = list(datetime_mods)
        self._saved: List[Any] = []

    def __enter__(self) -> "VirtualClocks":
        ft = FakeTime(self._loop)
        fd = make_fake_datetime(self._loop)
        for m in self._time_mods:
            self._saved.append((m, "time", m.time))
            m.time = ft
        for m in self._dt_mods:
            self._saved.append((m, "datetime", m.datetime))
            m.datetime = fd
        return self

    def __exit__(self, *exc: Any) -> None:
        for m, attr, old in reversed(self._saved):
            setattr(m, attr, old)
        self._saved.clear()


# --------------------------------------------------------------------------------------------- dbos package
def ensure_dbos_importable() -> None:
    """``llama_agents/dbos/__init__.py`` imports DBOSRuntime (dbos, sqlalchemy at module scope): bypass the package
    __init__ exactly as vlib.boot does for llama_agents.server, so journal/lifecycle.py and idle_release.py load."""
    vlib.boot._bypass("llama_agents.dbos", DBOS_DIR)
