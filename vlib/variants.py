"""Generate per-obligation variant files from a harness module's source.

A variant is the harness file, byte-identical except for the PEP-316 docstring of ONE obligation function:
  * extra ``pre:`` lines are inserted (partition predicates; negated known-finding classes);
  * for the reachability twin every ``post:`` line becomes ``post: False`` (body unchanged).
"""
from __future__ import annotations

import ast
import os
from typing import List, Tuple


def _doc_range(src: str, fn_name: str) -> Tuple[int, int, int]:
    tree = ast.parse(src)
    for node in tree.body:
        if isinstance(node, (ast.FunctionDef, ast.AsyncFunctionDef)) and node.name == fn_name:
            first = node.body[0]
            if not (isinstance(first, ast.Expr) and isinstance(first.value, ast.Constant) and isinstance(first.value.value, str)):
                raise ValueError(f"{fn_name}: no contract docstring")
            return first.lineno, first.end_lineno, node.lineno
    raise ValueError(f"function {fn_name} not found")


def make_variant(src: str, fn_name: str, extra_pre: List[str], twin: bool) -> str:
    lo, hi, _ = _doc_range(src, fn_name)
    lines = src.split("\n")
    doc = lines[lo - 1 : hi]
    out: List[str] = []
    inserted = False
    for ln in doc:
        stripped = ln.lstrip()
        indent = ln[: len(ln) - len(stripped)]
        if stripped.startswith("post:"):
            if not inserted:
                for e in extra_pre:
                    out.append(f"{indent}pre: {e}")
                inserted = True
            out.append(f"{indent}post: False" if twin else ln)
        else:
            out.append(ln)
    if not inserted:
        raise ValueError(f"{fn_name}: contract has no post: line")
    return "\n".join(lines[: lo - 1] + out + lines[hi:])


def write_variant(src: str, fn_name: str, extra_pre: List[str], twin: bool, path: str) -> None:
    text = make_variant(src, fn_name, extra_pre, twin)
    ast.parse(text)
    os.makedirs(os.path.dirname(path), exist_ok=True)
    with open(path, "w") as f:
        f.write(text)


def contract_lines(src: str, fn_name: str) -> List[str]:
    lo, hi, _ = _doc_range(src, fn_name)
    return [l.strip() for l in src.split("\n")[lo - 1 : hi] if l.strip().startswith(("pre:", "post:", "raises:"))]


def parse_call_args(message: str, fn_name: str):
    """'false when calling f(1, [0], x=2) (which returns False)' -> ([1, [0]], {'x': 2})"""
    marker = f"when calling {fn_name}("
    i = message.find(marker)
    if i < 0:
        raise ValueError("no call in message")
    j = i + len("when calling ")
    depth = 0
    k = j
    in_str = None
    while k < len(message):
        c = message[k]
        if in_str:
            if c == "\\":
                k += 1
            elif c == in_str:
                in_str = None
        elif c in "'\"":
            in_str = c
        elif c in "([{":
            depth += 1
        elif c in ")]}":
            depth -= 1
            if depth == 0:
                break
        k += 1
    call_src = message[j : k + 1]
    node = ast.parse(call_src, mode="eval").body
    assert isinstance(node, ast.Call)
    args = [ast.literal_eval(a) for a in node.args]
    kwargs = {kw.arg: ast.literal_eval(kw.value) for kw in node.keywords}
    return args, kwargs
