"""./check <Cxx> [--tier quick|thorough] [--only NAME] [--jobs N]     run one property's obligations
   ./check replay <replay.json>                                       re-run a recorded counterexample natively
Exit 0: property held on everything explored (inconclusive obligations are listed, never called success);
exit 1 + "VIOLATION property=<id> replay=<path>"; exit 3: harness error (never a verdict)."""
from __future__ import annotations

import argparse
import concurrent.futures as cf
import hashlib
import importlib
import inspect
import json
import os
import shutil
import subprocess
import sys
import tempfile
import time
from typing import Any, Dict, List, Optional

from vlib import paths
from vlib.variants import contract_lines, parse_call_args, write_variant

PY = sys.executable


def _env(tier: str) -> Dict[str, str]:
    env = dict(os.environ)
    env["PYTHONPATH"] = paths.pythonpath()
    env["VERIF_TIER"] = tier
    env["PYTHONHASHSEED"] = "0"
    env["PYTHONDONTWRITEBYTECODE"] = "1"
    env.setdefault(paths.GUARD, "1")
    return env


def load_known(pid: str) -> List[Dict[str, Any]]:
    if not os.path.exists(paths.KNOWN_FINDINGS):
        return []
    with open(paths.KNOWN_FINDINGS) as f:
        data = json.load(f)
    return [e for e in data.get("findings", []) if e.get("property") == pid and e.get("status", "open") == "open"]


def native(path: str, fn: str, args, kwargs, tier: str, timeout: int = 300) -> Dict[str, Any]:
    payload = json.dumps({"args": args, "kwargs": kwargs})
    try:
        p = subprocess.run(
            [PY, "-m", "vlib.replay", path, fn, payload], capture_output=True, text=True, env=_env(tier), timeout=timeout
        )
    except subprocess.TimeoutExpired:
        return {"holds": None, "exception": "native replay timed out"}
    for ln in p.stdout.splitlines():
        if ln.startswith("REPLAY-RESULT "):
            return json.loads(ln[len("REPLAY-RESULT ") :])
    return {"holds": None, "exception": "native replay crashed: " + (p.stderr or "")[-1500:]}


def _run_ch(job: Dict[str, Any], tier: str) -> Dict[str, Any]:
    out = job["variant"] + ".json"
    T = job["timeout"]
    cmd = [PY, "-m", "vlib.chdrive", job["variant"], job["fn"], str(T), str(job.get("path_timeout", T)), out]
    t0 = time.time()
    try:
        p = subprocess.run(cmd, capture_output=True, text=True, env=_env(tier), timeout=T * 2 + 90)
        err = p.stderr[-2000:]
    except subprocess.TimeoutExpired:
        return {"status": "timeout", "messages": [], "stats": {}, "wall_s": round(time.time() - t0, 1)}
    if not os.path.exists(out):
        return {"status": "error", "messages": [{"state": "driver_crash", "message": err}], "stats": {}, "wall_s": round(time.time() - t0, 1)}
    with open(out) as f:
        return json.load(f)


def _run_smt(job: Dict[str, Any], tier: str) -> Dict[str, Any]:
    out = os.path.join(job["work"], job["fn"] + ".smt.json")
    T = job["timeout"]
    cmd = [PY, "-m", "vlib.smtdrive", job["file"], job["fn"], str(T), out, json.dumps(job["excludes"])]
    t0 = time.time()
    try:
        subprocess.run(cmd, capture_output=True, text=True, env=_env(tier), timeout=T * 8 + 120)
    except subprocess.TimeoutExpired:
        return {"status": "timeout", "records": [], "wall_s": round(time.time() - t0, 1)}
    if not os.path.exists(out):
        return {"status": "error", "records": [], "wall_s": round(time.time() - t0, 1), "error": "driver crash"}
    with open(out) as f:
        return json.load(f)


def src_hash(qual: str) -> Dict[str, Any]:
    """'pkg.mod:Qual.name' -> sha256 of the current source text of that object (shows the encoding is regenerated)."""
    try:
        modname, _, q = qual.partition(":")
        obj: Any = importlib.import_module(modname)
        for part in q.split("."):
            if part:
                obj = getattr(obj, part)
        src = inspect.getsource(obj)
        return {"function": qual, "sha256": hashlib.sha256(src.encode()).hexdigest()[:16], "lines": src.count("\n")}
    except Exception as e:  # noqa: BLE001
        return {"function": qual, "sha256": None, "error": f"{type(e).__name__}: {e}"}


def write_replay(pid: str, ob: str, harness_file: str, args, kwargs, observed, tier: str, message: str) -> str:
    os.makedirs(paths.REPLAYS, exist_ok=True)
    blob = json.dumps([ob, args, kwargs], sort_keys=True, default=str)
    h = hashlib.sha256(blob.encode()).hexdigest()[:10]
    path = os.path.join(paths.REPLAYS, f"{pid}-{ob}-{h}.json")
    with open(path, "w") as f:
        json.dump(
            {
                "property": pid,
                "obligation": ob,
                "harness": os.path.relpath(harness_file, paths.VERIF),
                "function": ob,
                "args": args,
                "kwargs": kwargs,
                "tier": tier,
                "solver_message": message,
                "observed_native": observed,
                "how": "./check replay " + os.path.relpath(path, paths.VERIF),
            },
            f,
            indent=1,
            default=str,
        )
    return path


def run_property(pid: str, tier: str, only: Optional[str], jobs: int) -> int:
    t_start = time.time()
    import vlib.boot  # noqa: F401
    from vlib.ob import obligations_of

    harness_file = os.path.join(paths.VERIF, "harness", f"{pid}.py")
    if not os.path.exists(harness_file):
        print(f"HARNESS-ERROR: no harness for {pid}")
        return 3
    os.environ["VERIF_TIER"] = tier
    mod = importlib.import_module(f"harness.{pid}")
    obs = [o for o in obligations_of(mod.__name__) if tier in o.tiers and (only is None or o.name == only)]
    if not obs:
        print(f"HARNESS-ERROR: no obligations for {pid} in tier {tier}")
        return 3
    src = open(harness_file).read()
    known = load_known(pid)
    if only is None and os.path.isdir(paths.REPLAYS):  # replay files are rewritten by every full run
        for fn_ in os.listdir(paths.REPLAYS):
            if fn_.startswith(pid + "-"):
                os.unlink(os.path.join(paths.REPLAYS, fn_))
    os.makedirs(paths.WORK, exist_ok=True)
    work = tempfile.mkdtemp(prefix=f"{pid}-{tier}-", dir=paths.WORK)
    joblist: List[Dict[str, Any]] = []
    try:
        for ob in obs:
            kf = [k for k in known if k.get("obligation") == ob.name]
            excludes = [k["exclude"] for k in kf if k.get("exclude")]
            if ob.kind == "smt":
                joblist.append({"kind": "smt", "ob": ob, "fn": ob.name, "file": harness_file, "work": work,
                                "timeout": ob.timeout[tier], "excludes": excludes, "partition": None, "twin": False})
                continue
            parts = ob.partitions.get(tier) or [None]
            if parts != [None]:
                # partition cover: the part of the pre-space that NO partition covers must be empty, otherwise the run would
                # silently skip it.  Variant = post: False + the negation of every partition: "Unable to meet precondition"
                # (or no counterexample) = covered; a counterexample = a gap (reported as inconclusive, never as success).
                vdir = os.path.join(work, f"{ob.name}_cover")
                vpath = os.path.join(vdir, f"{pid}.py")
                write_variant(src, ob.name, [f"not ({e})" for e in excludes] + [f"not ({p_})" for p_ in parts], True, vpath)
                joblist.append({"kind": "crosshair", "ob": ob, "fn": ob.name, "variant": vpath, "partition": "__cover__",
                                "twin": True, "cover": True, "timeout": 60})
            for pi, part in enumerate(parts):
                extra = [f"not ({e})" for e in excludes] + ([part] if part else [])
                for twin in (False, True):
                    vdir = os.path.join(work, f"{ob.name}_p{pi}_{'twin' if twin else 'main'}")
                    vpath = os.path.join(vdir, f"{pid}.py")
                    write_variant(src, ob.name, extra, twin, vpath)
                    joblist.append({"kind": "crosshair", "ob": ob, "fn": ob.name, "variant": vpath, "partition": part,
                                    "twin": twin, "timeout": min(ob.timeout[tier], 90) if twin else ob.timeout[tier]})
        # longest first
        joblist.sort(key=lambda j: -j["timeout"])
        with cf.ThreadPoolExecutor(max_workers=jobs) as ex:
            futs = {ex.submit(_run_smt if j["kind"] == "smt" else _run_ch, j, tier): j for j in joblist}
            for fut in cf.as_completed(futs):
                futs[fut]["result"] = fut.result()

        # ---------------------------------------------------------------- classify
        violations: List[str] = []
        harness_errors: List[str] = []
        ob_reports: List[Dict[str, Any]] = []
        total_paths = 0
        solver_s = 0.0
        n_units = 0
        n_discharged = 0
        samples: List[Any] = []
        for ob in obs:
            mine = [j for j in joblist if j["ob"] is ob]
            rep: Dict[str, Any] = {"obligation": ob.name, "kind": ob.kind, "what": ob.what, "bounds": ob.bounds, "units": []}
            if ob.kind == "crosshair":
                rep["contract"] = contract_lines(src, ob.name)
            for j in mine:
                if j.get("cover"):
                    r = j["result"]
                    cov = {"partition": "__cover__", "wall_s": r.get("wall_s"), "paths": r.get("stats", {}).get("num_paths", 0)}
                    if r["status"] == "counterexample":
                        n_units += 1
                        msg = next((m for m in r["messages"] if m["state"] in ("post_fail", "exec_err", "post_err")), {"message": ""})
                        cov["verdict"] = "inconclusive:partition_gap"
                        cov["solver_message"] = msg["message"][:300]
                    else:
                        cov["verdict"] = "cover:" + r["status"]  # pre_unsat / not_confirmed / timeout: no input outside the partitions was found
                    rep["units"].append(cov)
                    continue
                if j["twin"]:
                    continue
                r = j["result"]
                n_units += 1
                unit: Dict[str, Any] = {"partition": j["partition"], "wall_s": r.get("wall_s")}
                if ob.kind == "smt":
                    unit["records"] = r.get("records", [])
                    solver_s += sum(x.get("solver_s", 0) for x in unit["records"])
                    if r["status"] != "ok":
                        unit["verdict"] = "harness_error" if r["status"] == "error" else "inconclusive:" + r["status"]
                        if r["status"] == "error":
                            harness_errors.append(f"{ob.name}: {r.get('error')} {r.get('traceback', '')[-800:]}")
                    else:
                        verdict = "discharged"
                        for q in unit["records"]:
                            total_paths += 1
                            if q["result"] == "unsat":
                                continue
                            if q["result"] == "sat":
                                if q.get("native_holds") is False:
                                    p = write_replay(pid, f"{ob.name}.{q['name']}", harness_file, [], {"witness": q.get("witness")},
                                                     {"holds": False, "exception": q.get("native_exception")}, tier, "z3 model")
                                    violations.append(p)
                                    verdict = "violated"
                                elif q.get("native_holds") is True:
                                    harness_errors.append(f"{ob.name}.{q['name']}: model does not reproduce natively: {q.get('witness')}")
                                    verdict = "harness_error"
                                else:
                                    verdict = "inconclusive:sat_without_replay"
                            else:
                                if verdict == "discharged":
                                    verdict = "inconclusive:" + q["result"]
                        if not unit["records"]:
                            verdict = "inconclusive:no_queries"
                        unit["verdict"] = verdict
                        if verdict == "discharged":
                            n_discharged += 1
                    rep["units"].append(unit)
                    continue
                # crosshair
                twin = next(t for t in mine if t["twin"] and not t.get("cover") and t["partition"] == j["partition"])["result"]
                stats = r.get("stats", {})
                unit["paths"] = stats.get("num_paths", 0)
                unit["stats"] = stats
                unit["twin"] = twin["status"]
                total_paths += unit["paths"]
                solver_s += float(r.get("wall_s") or 0)
                st = r["status"]
                if st == "confirmed":
                    if twin["status"] == "counterexample":
                        unit["verdict"] = "discharged"
                        n_discharged += 1
                    else:
                        unit["verdict"] = "inconclusive:vacuous(twin=%s)" % twin["status"]
                elif st == "counterexample":
                    msg = next(m for m in r["messages"] if m["state"] in ("post_fail", "exec_err", "post_err"))
                    unit["solver_message"] = msg["message"][:600]
                    try:
                        args, kwargs = parse_call_args(msg["message"], ob.name)
                    except Exception as e:  # noqa: BLE001
                        unit["verdict"] = "harness_error"
                        harness_errors.append(f"{ob.name}: cannot parse counterexample {msg['message'][:300]!r}: {e}")
                        rep["units"].append(unit)
                        continue
                    nat = native(harness_file, ob.name, args, kwargs, tier)
                    unit["counterexample"] = {"args": args, "kwargs": kwargs, "native": nat}
                    if nat.get("holds") is False:
                        p = write_replay(pid, ob.name, harness_file, args, kwargs, nat, tier, msg["message"][:600])
                        violations.append(p)
                        unit["verdict"] = "violated"
                    else:
                        unit["verdict"] = "harness_error"
                        harness_errors.append(
                            f"{ob.name}: solver counterexample {args} {kwargs} does not reproduce natively "
                            f"({nat}); {msg['message'][:300]} {msg.get('traceback', '')[-1200:]}"
                        )
                elif st in ("not_confirmed", "pre_unsat", "timeout"):
                    unit["verdict"] = "inconclusive:" + st
                else:
                    unit["verdict"] = "harness_error"
                    harness_errors.append(f"{ob.name}: {json.dumps(r.get('messages', []))[-1500:]}")
                rep["units"].append(unit)
            # known findings of this obligation: replay the witness natively, report
            for k in [k for k in known if k.get("obligation") == ob.name]:
                if ob.kind == "crosshair" and k.get("witness") is not None:
                    nat = native(harness_file, ob.name, k["witness"].get("args", []), k["witness"].get("kwargs", {}), tier)
                    still = nat.get("holds") is False
                else:
                    still = True
                    fnr = getattr(mod, "replay_known", None)
                    if fnr is not None:
                        try:
                            still = not bool(fnr(ob.name, k.get("witness")))
                        except Exception:  # noqa: BLE001
                            still = True
                rep.setdefault("known_findings", []).append({"id": k.get("id"), "what": k.get("what"), "still_fails": still})
                if still:
                    print(f"KNOWN-FINDING: property={pid} {k.get('what')} [{k.get('id')}; obligation {ob.name}; witness {json.dumps(k.get('witness'))}]")
                else:
                    print(f"NOTE: known finding {k.get('id')} of {pid} no longer reproduces on this tree (witness holds)")
            ob_reports.append(rep)
            if len(samples) < 12:
                samples.append({"obligation": ob.name, "contract": rep.get("contract"), "first_unit": rep["units"][0] if rep["units"] else None})

        # known findings attached to obligations that are not part of this tier: still replay their witness and say so
        if only is None:
            in_tier = {o.name for o in obs}
            for k in known:
                if k.get("obligation") in in_tier:
                    continue
                if hasattr(mod, k.get("obligation", "")) and k.get("witness") is not None and "args" in k["witness"]:
                    nat = native(harness_file, k["obligation"], k["witness"].get("args", []), k["witness"].get("kwargs", {}), tier)
                    still = nat.get("holds") is False
                else:
                    still = True
                if still:
                    print(f"KNOWN-FINDING: property={pid} {k.get('what')} [{k.get('id')}; obligation {k.get('obligation')} (other tier); witness {json.dumps(k.get('witness'))}]")
                else:
                    print(f"NOTE: known finding {k.get('id')} of {pid} no longer reproduces on this tree (witness holds)")

        wall = round(time.time() - t_start, 2)
        inconclusive = [
            f"{r['obligation']}[{u.get('partition')}]: {u['verdict']}" for r in ob_reports for u in r["units"] if u["verdict"].startswith("inconclusive")
        ]
        evidence = {
            "property_id": pid,
            "tier": tier,
            "seed": vlib.boot.SEED,
            "level": "other",
            "coverage": {
                "explanation": (
                    "Bounded symbolic checking of the real code. Each obligation is a contract harness over the real "
                    "functions of /repo's current working tree: CrossHair executes the Python symbolically (z3 decides every "
                    "branch; 'discharged' = 'Confirmed over all paths' within the pre: bounds AND the reachability twin "
                    "(same body, post: False) is violated), or an AST->SMT encoding is decided by z3 (unsat, cross-checked "
                    "by a second solver). Anything else is listed under 'inconclusive'. Not a proof: nothing is claimed "
                    "outside the stated bounds."
                ),
                "obligations": n_units,
                "discharged": n_discharged,
                "evaluations": total_paths,
                "distinct_nontrivial": sum(
                    (u.get("stats", {}).get("num_paths", 0) if r["kind"] == "crosshair" else len(u.get("records", [])))
                    for r in ob_reports for u in r["units"] if u["verdict"] == "discharged"
                ),
                "rule": "evaluations = symbolic execution paths explored by CrossHair (each path is a distinct z3-feasible "
                "branch combination, covering every input value that follows it) plus SMT queries; distinct_nontrivial "
                "= those belonging to discharged obligations.",
                "exhaustive": bool(n_units and n_discharged == n_units),
                "inconclusive": inconclusive,
                "functions_encoded": [src_hash(q) for q in getattr(mod, "ENCODED", [])],
                "stubs_and_assumptions": getattr(mod, "ASSUMES", []),
                "out_of_claim": getattr(mod, "OUTSIDE", []),
                "solver_time_s": round(solver_s, 1),
                "obligation_reports": ob_reports,
                "samples": samples,
                "checker_cmd": f"./check {pid} --tier {tier}",
                "trusted_base": ["CPython 3.12", "crosshair-tool 0.0.110", "z3 5.1.0", "pydantic/sqlite3/json executing concretely", "vlib.miniloop", "shims/"],
            },
            "assumptions": list(getattr(mod, "ASSUMES", [])),
            "wall_s": wall,
            "violations": len(violations),
        }
        os.makedirs(paths.EVIDENCE, exist_ok=True)
        with open(os.path.join(paths.EVIDENCE, f"{pid}.json"), "w") as f:
            json.dump(evidence, f, indent=1, default=str)
        print(f"{pid} tier={tier}: obligations={n_units} discharged={n_discharged} inconclusive={len(inconclusive)} "
              f"paths={total_paths} violations={len(violations)} wall={wall}s")
        for i in inconclusive:
            print("  INCONCLUSIVE " + i)
        if harness_errors:
            for h in harness_errors:
                print("HARNESS-ERROR: " + h)
            return 3
        if violations:
            for p in violations:
                print(f"VIOLATION property={pid} replay={p}")
            return 1
        return 0
    finally:
        if not os.environ.get("VERIF_KEEP_WORK"):
            shutil.rmtree(work, ignore_errors=True)


def do_replay(path: str) -> int:
    with open(path) as f:
        rp = json.load(f)
    harness_file = os.path.join(paths.VERIF, rp["harness"])
    fn = rp["function"]
    if "." in fn:  # smt query: harness provides replay_known(ob, witness)
        os.environ["VERIF_TIER"] = rp.get("tier", "quick")
        from vlib.replay import load_harness

        mod = load_harness(harness_file)
        holds = bool(mod.replay_known(fn, rp["kwargs"].get("witness")))
        nat = {"holds": holds}
    else:
        nat = native(harness_file, fn, rp["args"], rp["kwargs"], rp.get("tier", "quick"))
    print(json.dumps(nat))
    if nat.get("holds") is False:
        print(f"VIOLATION property={rp['property']} replay={path}")
        return 1
    print("replay: property holds on this input with the current tree")
    return 0


def main(argv=None) -> int:
    ap = argparse.ArgumentParser()
    ap.add_argument("target")
    ap.add_argument("path", nargs="?")
    ap.add_argument("--tier", default=os.environ.get("VERIF_TIER", "quick"), choices=["quick", "thorough"])
    ap.add_argument("--only", default=None)
    ap.add_argument("--jobs", type=int, default=int(os.environ.get("VERIF_JOBS", "16")))
    a = ap.parse_args(argv)
    if a.target == "replay":
        return do_replay(a.path)
    # must be set BEFORE vlib.boot / the harness module are imported: tier-dependent bounds (vlib.boot.B) are evaluated at
    # import time, also in this process (partition lists are built from them)
    os.environ["VERIF_TIER"] = a.tier
    return run_property(a.target, a.tier, a.only, a.jobs)


if __name__ == "__main__":
    sys.exit(main())
