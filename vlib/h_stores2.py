"""Helpers for the server-runtime harness C15.

Nothing here models the code under test.  ``FaultStore`` is an *environment*: a workflow store (any real store inside) whose
handler writes / event appends fail on solver-chosen calls — the documented reason ``_retry_store_write`` exists.
``VRuntime`` is the real BasicRuntime whose adapter reads the event loop's (virtual) clock instead of ``time.time()``.
``StubInner`` / ``StubExternal`` are the innermost adapters of a decorator stack (recording, no behaviour)."""
from __future__ import annotations

import vlib.boot  # noqa: F401

import asyncio
from typing import Any, List, Optional, Sequence

from llama_agents.server._store.abstract_workflow_store import AbstractWorkflowStore, HandlerQuery, PersistentHandler
from workflows.plugins.basic import BasicRuntime, InternalAsyncioAdapter
from workflows.runtime.types.plugin import ExternalRunAdapter, InternalRunAdapter


class TransientStoreError(IOError):
    """what a store raises when a write does not go through (connection reset, lock timeout ...)"""


class FaultStore(AbstractWorkflowStore):
    """Delegates to a real store.  The i-th ``update`` call raises iff ``upd_fail[i]``.  ``append_event`` fails ``app_n``
    consecutive times starting at: the 1st append call (``app_mode`` 1), the 2nd (2), the first append of a terminal event
    (StopEvent or subclass; 3); never (0).  A failing call leaves the inner store untouched.  ``query`` hands out copies (like
    every database-backed store), so a failed write cannot leak through an aliased in-memory object.
    ``update_handler_status`` is the REAL inherited AbstractWorkflowStore method running on this object's query / update."""

    def __init__(self, inner: AbstractWorkflowStore, upd_fail: Sequence[bool] = (), app_mode: int = 0, app_n: int = 0) -> None:
        self.inner = inner
        self.upd_fail = list(upd_fail)
        self.app_mode = app_mode
        self.app_left = app_n if app_mode != 0 else 0
        self.app_armed = False
        self.n_update = 0
        self.n_append = 0
        self.poll_interval = inner.poll_interval
        self.status_log: List[str] = []      # status of run r's handler after every successful update (observation)

    def create_state_store(self, run_id, state_type=None, serialized_state=None, serializer=None):
        return self.inner.create_state_store(run_id, state_type, serialized_state, serializer)

    async def query(self, query: HandlerQuery) -> List[PersistentHandler]:
        return [h.model_copy() for h in await self.inner.query(query)]   # shallow: field values are never mutated in place

    async def update(self, handler: PersistentHandler) -> None:
        i = self.n_update
        self.n_update += 1
        if i < len(self.upd_fail) and self.upd_fail[i]:
            raise TransientStoreError("update #%d did not go through" % i)
        await self.inner.update(handler.model_copy())
        self.status_log.append(handler.status)

    async def delete(self, query: HandlerQuery) -> int:
        return await self.inner.delete(query)

    async def append_event(self, run_id, event) -> None:
        i = self.n_append
        self.n_append += 1
        if not self.app_armed and self.app_left > 0:
            if self.app_mode == 1 or (self.app_mode == 2 and i >= 1):
                self.app_armed = True
            elif self.app_mode == 3 and "StopEvent" in (list(event.types or []) + [event.type]):
                self.app_armed = True
        if self.app_armed and self.app_left > 0:
            self.app_left -= 1
            raise TransientStoreError("append_event #%d did not go through" % i)
        await self.inner.append_event(run_id, event)

    async def query_events(self, run_id, after_sequence=None, limit=None):
        return await self.inner.query_events(run_id, after_sequence, limit)

    async def append_tick(self, run_id, tick_data) -> None:
        await self.inner.append_tick(run_id, tick_data)

    async def get_ticks(self, run_id):
        return await self.inner.get_ticks(run_id)


# ------------------------------------------------------------------------------------------------ runtime on the virtual clock
class VAdapter(InternalAsyncioAdapter):
    """the real asyncio adapter; only the clock is the event loop's (MiniLoop: virtual) instead of time.time()"""

    def __init__(self, base: InternalAsyncioAdapter) -> None:
        self.__dict__.update(base.__dict__)

    async def get_now(self) -> float:
        return asyncio.get_running_loop().time()


class VRuntime(BasicRuntime):
    def get_internal_adapter(self, workflow):
        return VAdapter(super().get_internal_adapter(workflow))


# ------------------------------------------------------------------------------------------------ innermost adapters
class StubInner(InternalRunAdapter):
    """innermost internal adapter of a decorator stack: records what reaches it"""

    def __init__(self, run_id: str, replaying: bool = False) -> None:
        self._run_id = run_id
        self._replaying = replaying
        self.written: List[Any] = []

    @property
    def run_id(self) -> str:
        return self._run_id

    def is_replaying(self) -> bool:
        return self._replaying

    async def write_to_event_stream(self, event) -> None:
        self.written.append(event)

    async def get_now(self) -> float:
        return asyncio.get_running_loop().time()

    async def send_event(self, tick) -> None:
        pass

    async def wait_receive(self, timeout_seconds: Optional[float] = None):
        raise vlib.boot.HarnessError("StubInner.wait_receive must not be reached")

    async def close(self) -> None:
        pass

    def get_state_store(self):
        return None


class StubExternal(ExternalRunAdapter):
    """innermost external adapter: records the ticks sent to the run"""

    def __init__(self, run_id: str) -> None:
        self._run_id = run_id
        self.sent: List[Any] = []

    @property
    def run_id(self) -> str:
        return self._run_id

    async def send_event(self, tick) -> None:
        self.sent.append(tick)

    def stream_published_events(self):
        raise vlib.boot.HarnessError("StubExternal.stream_published_events must not be reached")

    async def close(self) -> None:
        pass

    async def get_result(self):
        raise vlib.boot.HarnessError("StubExternal.get_result must not be reached")

    def get_state_store(self):
        return None


class StubExternalRuntime(BasicRuntime):
    """a real BasicRuntime whose get_external_adapter hands out one StubExternal (no run is needed underneath)"""

    def __init__(self) -> None:
        super().__init__()
        self.ext: dict = {}

    def get_external_adapter(self, run_id: str):
        if run_id not in self.ext:
            self.ext[run_id] = StubExternal(run_id)
        return self.ext[run_id]
