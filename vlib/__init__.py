"""Verification framework for run-llama/workflows-py: solver-based checking of the real code (see /verif/DESIGN.md)."""
