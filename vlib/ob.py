"""Obligation registry.  A harness module declares obligations with a decorator that returns the function
unchanged (so CrossHair analyses the plain function and its PEP-316 contract)."""
from __future__ import annotations

from dataclasses import dataclass, field
from typing import Any, Callable, Dict, List, Optional

_REG: Dict[str, List["Obligation"]] = {}


@dataclass
class Obligation:
    name: str
    fn: Callable[..., Any]
    kind: str  # "crosshair" | "smt"
    tiers: tuple
    timeout: Dict[str, int]
    partitions: Dict[str, List[str]] = field(default_factory=dict)  # tier -> extra `pre:` expressions
    what: str = ""
    bounds: Dict[str, Any] = field(default_factory=dict)
    expect_twin: bool = True


def obligation(
    *,
    quick: Optional[int] = 60,
    thorough: Optional[int] = 300,
    partitions_quick: Optional[List[str]] = None,
    partitions_thorough: Optional[List[str]] = None,
    what: str = "",
    bounds: Optional[Dict[str, Any]] = None,
    kind: str = "crosshair",
):
    """quick/thorough: per-condition timeout in seconds for that tier, or None = not run in that tier."""

    def deco(fn):
        tiers = tuple(t for t, v in (("quick", quick), ("thorough", thorough)) if v is not None)
        ob = Obligation(
            name=fn.__name__,
            fn=fn,
            kind=kind,
            tiers=tiers,
            timeout={"quick": quick or 0, "thorough": thorough or 0},
            partitions={"quick": partitions_quick or [], "thorough": partitions_thorough or []},
            what=what or (fn.__doc__ or "").strip().split("\n")[0],
            bounds=bounds or {},
        )
        _REG.setdefault(fn.__module__, []).append(ob)
        return fn

    return deco


def smt_obligation(*, quick: Optional[int] = 60, thorough: Optional[int] = 300, what: str = "", bounds=None):
    """An Engine-T obligation: a plain function () -> SmtReport executed in a sub-process."""
    return obligation(quick=quick, thorough=thorough, what=what, bounds=bounds, kind="smt")


def obligations_of(module_name: str) -> List[Obligation]:
    return list(_REG.get(module_name, []))
