"""Sub-process driver for Engine-T obligations: call ``fn(ctx: SmtCtx)`` of a harness file, dump the records."""
from __future__ import annotations

import json
import sys
import time
import traceback


def main(argv) -> int:
    file, fn_name, timeout_s, out, excludes = argv[0], argv[1], int(float(argv[2])), argv[3], json.loads(argv[4])
    t0 = time.time()
    res = {"file": file, "fn": fn_name, "status": "error", "records": [], "wall_s": 0.0}
    try:
        from vlib.replay import load_harness
        from vlib.smt import SmtCtx

        mod = load_harness(file)
        ctx = SmtCtx(excludes=excludes, timeout_s=timeout_s)
        getattr(mod, fn_name)(ctx)
        res["records"] = ctx.records
        res["status"] = "ok"
    except BaseException as e:  # noqa: BLE001
        # the translator fails CLOSED: source it cannot translate makes the obligation inconclusive, never a verdict and never a
        # harness error (the other obligations of the property still run and may find the violation)
        res["status"] = "untranslatable" if type(e).__name__ == "Untranslatable" else "error"
        res["error"] = repr(e)
        res["traceback"] = traceback.format_exc()[-4000:]
    res["wall_s"] = round(time.time() - t0, 3)
    with open(out, "w") as f:
        json.dump(res, f, default=str)
    return 0


if __name__ == "__main__":
    sys.exit(main(sys.argv[1:]))
