"""Engine T front end: a small AST -> z3 translator for the string / int kernels of the "tools" properties.

The translator is a *symbolic interpreter over the Python AST of the CURRENT source*: it walks the statements of a
function, keeps an environment of z3-valued variables, forks at every ``if`` whose test is not concrete, unrolls
``for _ in range(a, b)`` up to a bound, inlines calls to other translated functions, and returns the list of
*guarded outcomes* ``(guard, kind, value)`` with kind in {"return", "raise", "cutoff"}.  Anything it does not
understand raises ``Untranslatable`` — it FAILS CLOSED: the obligation is then inconclusive (reported as a harness
error by the driver), never discharged.

Two string back ends (DESIGN.md, Engine T):

* ``SeqBackend``  — z3 sequence theory, for short strings (version strings, archive member names);
* ``ArrBackend``  — hand-unrolled, quantifier-free *bounded array of character codes with a symbolic length*:
  a string is ``(n, a)`` with ``n: Int`` and ``a: Array Int Int``; concat / slice / rstrip / indexing are ground
  constraints over indices ``0..N-1`` (N = 84).  This is what answers in ~0.1 s on 63-character arithmetic where the
  sequence theory does not finish.

Regular expressions are taken from the source as literals and parsed with CPython's own ``re._parser``; they are
compiled either to a z3 ``Re`` (SeqBackend) or to a position-set dynamic program over the bounded array (exact for
regular expressions without back-references / look-around; ``$`` keeps CPython's "or before a final newline").
"""
from __future__ import annotations

import ast
import re._constants as _rc
import re._parser as _rp
from typing import Any, Callable, Dict, List, Optional, Sequence, Tuple

import z3


class Untranslatable(Exception):
    """The construct is outside the translator: the obligation must be reported inconclusive (fail closed)."""


class _NoMerge(Exception):
    """two paths have different shapes: they stay forked"""


# ======================================================================================================================
# regular expressions
# ======================================================================================================================
ASCII_MAX = 127


def parse_regex(pattern: str):
    try:
        return list(_rp.parse(pattern))
    except Exception as e:  # noqa: BLE001
        raise Untranslatable(f"regex {pattern!r}: {e}")


def _class_pred(items, c, ascii_only: bool):
    """z3 Bool: character code ``c`` (Int) is in the sre IN-set ``items``."""
    neg = False
    alts = []
    for op, av in items:
        if op is _rc.NEGATE:
            neg = True
        elif op is _rc.LITERAL:
            alts.append(c == av)
        elif op is _rc.RANGE:
            alts.append(z3.And(c >= av[0], c <= av[1]))
        elif op is _rc.CATEGORY:
            if not ascii_only:
                raise Untranslatable("category escapes need the ASCII assumption")
            if av is _rc.CATEGORY_DIGIT:
                alts.append(z3.And(c >= 48, c <= 57))
            elif av is _rc.CATEGORY_NOT_DIGIT:
                alts.append(z3.Not(z3.And(c >= 48, c <= 57)))
            else:
                raise Untranslatable(f"category {av}")
        else:
            raise Untranslatable(f"set item {op}")
    p = z3.Or(*alts) if alts else z3.BoolVal(False)
    return z3.Not(p) if neg else p


def _char_re(lo: int, hi: int):
    return z3.Range(chr(lo), chr(hi)) if lo != hi else z3.Re(chr(lo))


def _class_re(items, ascii_only: bool):
    neg = False
    alts = []
    for op, av in items:
        if op is _rc.NEGATE:
            neg = True
        elif op is _rc.LITERAL:
            alts.append(z3.Re(chr(av)))
        elif op is _rc.RANGE:
            alts.append(_char_re(av[0], av[1]))
        elif op is _rc.CATEGORY:
            if not ascii_only:
                raise Untranslatable("category escapes need the ASCII assumption")
            if av is _rc.CATEGORY_DIGIT:
                alts.append(z3.Range("0", "9"))
            else:
                raise Untranslatable(f"category {av}")
        else:
            raise Untranslatable(f"set item {op}")
    u = alts[0] if len(alts) == 1 else z3.Union(*alts)
    if neg:
        if not ascii_only:
            raise Untranslatable("negated set needs the ASCII assumption")
        return z3.Diff(z3.Range(chr(0), chr(ASCII_MAX)), u)
    return u


def regex_to_z3(nodes, ascii_only: bool = True, top: bool = True):
    """sre node list -> z3 Re for ``re.match`` semantics on the WHOLE string: the pattern has to be anchored with
    ``$`` (kept with CPython's meaning: end, or just before a final newline) when ``top``; a leading ``^`` is a no-op
    for ``.match``.  Unanchored patterns are refused (prefix matching is not what any kernel here does)."""
    nodes = list(nodes)
    if top:
        if nodes and nodes[0][0] is _rc.AT and nodes[0][1] is _rc.AT_BEGINNING:
            nodes = nodes[1:]
        if not (nodes and nodes[-1][0] is _rc.AT and nodes[-1][1] is _rc.AT_END):
            raise Untranslatable("pattern not anchored with $")
        body = regex_to_z3(nodes[:-1], ascii_only, top=False)
        return z3.Concat(body, z3.Option(z3.Re("\n")))
    parts = []
    for op, av in nodes:
        if op is _rc.LITERAL:
            parts.append(z3.Re(chr(av)))
        elif op is _rc.IN:
            parts.append(_class_re(av, ascii_only))
        elif op is _rc.ANY:
            raise Untranslatable("'.'")
        elif op in (_rc.MAX_REPEAT, _rc.MIN_REPEAT):
            lo, hi, sub = av
            r = regex_to_z3(sub, ascii_only, top=False)
            if hi is _rc.MAXREPEAT:
                parts.append(z3.Star(r) if lo == 0 else (z3.Plus(r) if lo == 1 else z3.Concat(z3.Loop(r, lo, lo), z3.Star(r))))
            else:
                parts.append(z3.Option(r) if (lo, hi) == (0, 1) else z3.Loop(r, lo, hi))
        elif op is _rc.SUBPATTERN:
            parts.append(regex_to_z3(av[3], ascii_only, top=False))
        elif op is _rc.BRANCH:
            parts.append(z3.Union(*[regex_to_z3(b, ascii_only, top=False) for b in av[1]]))
        else:
            raise Untranslatable(f"regex node {op}")
    if not parts:
        return z3.Re("")
    return parts[0] if len(parts) == 1 else z3.Concat(*parts)


def regex_top_level_parts(nodes) -> List[Tuple[Optional[int], Any]]:
    """Split an anchored pattern ``^ p1 p2 ... $`` into its top-level items: [(group number | None, sre nodes)].
    Only patterns whose capturing groups are top-level items are supported (enough for the version regex)."""
    nodes = list(nodes)
    if nodes and nodes[0][0] is _rc.AT and nodes[0][1] is _rc.AT_BEGINNING:
        nodes = nodes[1:]
    if not (nodes and nodes[-1][0] is _rc.AT and nodes[-1][1] is _rc.AT_END):
        raise Untranslatable("pattern not anchored with $")
    out = []
    for op, av in nodes[:-1]:
        if op is _rc.SUBPATTERN:
            if av[0] is None:
                out.append((None, [(op, av)]))
            else:
                if _has_group(av[3]):
                    raise Untranslatable("nested capturing groups")
                out.append((av[0], list(av[3])))
        else:
            if _has_group([(op, av)]):
                raise Untranslatable("capturing group below top level")
            out.append((None, [(op, av)]))
    return out


def _has_group(nodes) -> bool:
    for op, av in nodes:
        if op is _rc.SUBPATTERN:
            if av[0] is not None or _has_group(av[3]):
                return True
        elif op in (_rc.MAX_REPEAT, _rc.MIN_REPEAT):
            if _has_group(av[2]):
                return True
        elif op is _rc.BRANCH:
            if any(_has_group(b) for b in av[1]):
                return True
    return False


# ======================================================================================================================
# bounded-array strings
# ======================================================================================================================
N = 84  # strings of the array back end have length <= N-1 (indices 0..N-1 carry ground constraints)


class BStr:
    """(n, a): length (python int or z3 Int) and Array Int Int of character codes; a[i] is meaningful for i < n."""

    __slots__ = ("n", "a")

    def __init__(self, n, a):
        self.n = n
        self.a = a

    def at(self, i):
        return z3.Select(self.a, i)


def _is_py_int(x) -> bool:
    return isinstance(x, int) and not isinstance(x, bool)


class ArrBackend:
    kind = "arr"

    def __init__(self) -> None:
        self.defs: List[Any] = []       # definitional constraints (always satisfiable: they define fresh symbols)
        self.safety: List[Any] = []     # conditions the translated code needs to be defined (index in range, ASCII)
        self._k = 0

    def fresh(self, stem: str, sort=None):
        self._k += 1
        name = f"{stem}!{self._k}"
        if sort == "arr":
            return z3.Array(name, z3.IntSort(), z3.IntSort())
        if sort == "bool":
            return z3.Bool(name)
        return z3.Int(name)

    # ---- construction
    def const(self, s: str) -> BStr:
        a = z3.K(z3.IntSort(), z3.IntVal(0))
        for i, ch in enumerate(s):
            a = z3.Store(a, i, ord(ch))
        return BStr(len(s), a)

    def symbolic(self, stem: str, max_len: int) -> BStr:
        n = self.fresh(stem + "_len")
        a = self.fresh(stem, "arr")
        self.defs.append(z3.And(n >= 0, n <= max_len))
        return BStr(n, a)

    def from_chars(self, chars: Sequence[Any]) -> BStr:
        a = z3.K(z3.IntSort(), z3.IntVal(0))
        for i, c in enumerate(chars):
            a = z3.Store(a, i, c)
        return BStr(len(chars), a)

    # ---- operations
    def length(self, s: BStr):
        return s.n

    def concat(self, x: BStr, y: BStr) -> BStr:
        if _is_py_int(y.n) and y.n == 0:
            return x
        if _is_py_int(x.n) and x.n == 0:
            return y
        if _is_py_int(x.n) and _is_py_int(y.n):
            # both lengths concrete: the result is written down directly (no fresh array, no definitions)
            if x.n + y.n > N - 1:
                raise Untranslatable("concatenation longer than the array bound")
            return self.from_chars([x.at(i) for i in range(x.n)] + [y.at(j) for j in range(y.n)])
        r = self.fresh("cat", "arr")
        if _is_py_int(y.n):
            # short concrete right operand: its characters are placed by comparing the index with len(x) — no read of
            # y at a symbolic index
            for i in range(N):
                tail = z3.IntVal(0)
                for j in reversed(range(y.n)):
                    tail = z3.If(x.n == i - j, y.at(j), tail)
                self.defs.append(z3.Select(r, i) == z3.If(i < x.n, x.at(i), tail))
            return BStr(x.n + y.n, r)
        for i in range(N):
            self.defs.append(z3.Select(r, i) == z3.If(i < x.n, x.at(i), y.at(i - x.n)))
        return BStr(x.n + y.n, r)

    def slice_to(self, s: BStr, k) -> BStr:
        if not _is_py_int(k) or k < 0:
            raise Untranslatable("slice bound must be a concrete non-negative int")
        if _is_py_int(s.n):
            return BStr(min(s.n, k), s.a)
        return BStr(z3.If(s.n < k, s.n, z3.IntVal(k)), s.a)

    def slice_from(self, s: BStr, k) -> BStr:
        if not _is_py_int(k) or k < 0:
            raise Untranslatable("slice bound must be a concrete non-negative int")
        r = self.fresh("tail", "arr")
        for i in range(N):
            self.defs.append(z3.Select(r, i) == s.at(i + k))
        n = max(s.n - k, 0) if _is_py_int(s.n) else z3.If(s.n - k > 0, s.n - k, z3.IntVal(0))
        return BStr(n, r)

    def char_at(self, s: BStr, i, guard) -> BStr:
        if not _is_py_int(i) or i < 0:
            raise Untranslatable("index must be a concrete non-negative int")
        self.safety.append(z3.Implies(guard, s.n > i) if not _is_py_int(s.n) else z3.BoolVal(s.n > i))
        return self.from_chars([s.at(i)])

    def rstrip_char(self, s: BStr, ch: str) -> BStr:
        if len(ch) != 1:
            raise Untranslatable("rstrip of a single character only")
        c = ord(ch)
        m = self.fresh("rstrip_len")
        self.defs.append(z3.And(m >= 0, m <= s.n))
        self.defs.append(z3.Or(m == 0, s.at(m - 1) != c))
        for j in range(N):
            self.defs.append(z3.Implies(z3.And(m <= j, j < s.n), s.at(j) == c))
        return BStr(m, s.a)

    def truth(self, s: BStr):
        return z3.BoolVal(s.n > 0) if _is_py_int(s.n) else s.n > 0

    def _one_char(self, s: BStr, what: str, guard):
        if not (_is_py_int(s.n) and s.n == 1):
            raise Untranslatable(f"{what} on a string that is not a single character")
        c = s.at(0)
        self.safety.append(z3.Implies(guard, z3.And(c >= 0, c <= ASCII_MAX)))  # Unicode semantics are not encoded
        return c

    def isalpha(self, s: BStr, guard):
        c = self._one_char(s, "isalpha", guard)
        return z3.Or(z3.And(c >= 65, c <= 90), z3.And(c >= 97, c <= 122))

    def isdigit(self, s: BStr, guard):
        c = self._one_char(s, "isdigit", guard)
        return z3.And(c >= 48, c <= 57)

    # ---- property side helpers
    def eq_prefix(self, x: BStr, y: BStr, upto):
        """x[i] == y[i] for all i < upto (ground)."""
        return z3.And(*[z3.Implies(i < upto, x.at(i) == y.at(i)) for i in range(N)])

    def matches(self, s: BStr, pattern_nodes, ascii_only: bool = False):
        """z3 Bool: ``re.compile(pattern).match(s)`` is not None (CPython semantics incl. '$')."""
        start = [z3.BoolVal(i == 0) for i in range(N + 1)]
        end = _positions(list(pattern_nodes), start, s, ascii_only)
        return z3.Or(*end)

    def merge(self, guarded: Sequence[Tuple[Any, BStr]], stem: str = "res") -> Tuple[BStr, List[Any], Any]:
        """One fresh string R standing for 'the returned value': (R, constraints [g_i => R == r_i], Or(g_i)).
        Sound for 'exists an outcome violating P': the guards of distinct paths are mutually exclusive."""
        R = self.symbolic(stem, N - 1)
        cons = []
        for g, r in guarded:
            cons.append(z3.Implies(g, z3.And(R.n == r.n, *[R.at(i) == r.at(i) for i in range(N)])))
        return R, cons, z3.Or(*[g for g, _ in guarded]) if guarded else z3.BoolVal(False)

    def all_in(self, s: BStr, pred: Callable[[Any], Any]):
        return z3.And(*[z3.Implies(i < s.n, pred(s.at(i))) for i in range(N)])


def _positions(nodes, S, s: BStr, ascii_only: bool):
    """S[i]: 'the matcher can be at position i'; returns the position set after matching ``nodes``."""
    for op, av in nodes:
        if op is _rc.LITERAL or op is _rc.IN:
            T = [z3.BoolVal(False)]
            for i in range(N):
                pred = (s.at(i) == av) if op is _rc.LITERAL else _class_pred(av, s.at(i), ascii_only)
                T.append(z3.And(S[i], i < s.n, pred))
            S = [z3.simplify(t) for t in T]
        elif op is _rc.AT:
            if av is _rc.AT_BEGINNING:
                S = [S[0]] + [z3.BoolVal(False)] * N
            elif av is _rc.AT_END:
                S = [z3.simplify(z3.And(S[i], z3.Or(s.n == i, z3.And(s.n == i + 1, s.at(i) == 10)))) for i in range(N + 1)]
            else:
                raise Untranslatable(f"anchor {av}")
        elif op is _rc.SUBPATTERN:
            S = _positions(list(av[3]), S, s, ascii_only)
        elif op is _rc.BRANCH:
            outs = [_positions(list(b), S, s, ascii_only) for b in av[1]]
            S = [z3.simplify(z3.Or(*[o[i] for o in outs])) for i in range(N + 1)]
        elif op in (_rc.MAX_REPEAT, _rc.MIN_REPEAT):
            lo, hi, sub = av
            reps = N if hi is _rc.MAXREPEAT else hi
            cur = S
            acc = list(S) if lo == 0 else [z3.BoolVal(False)] * (N + 1)
            for r in range(1, reps + 1):
                cur = _positions(list(sub), cur, s, ascii_only)
                if r >= lo:
                    acc = [z3.simplify(z3.Or(acc[i], cur[i])) for i in range(N + 1)]
            S = acc
        else:
            raise Untranslatable(f"regex node {op}")
    return S


# ======================================================================================================================
# sequence-theory strings
# ======================================================================================================================
class SDigits:
    """A non-negative int represented by its canonical decimal digit string (``0|[1-9][0-9]*``): str(x) == x.s"""

    __slots__ = ("s",)

    def __init__(self, s):
        self.s = s


DIGITS_RE = z3.Union(z3.Re("0"), z3.Concat(z3.Range("1", "9"), z3.Star(z3.Range("0", "9"))))


class SeqBackend:
    kind = "seq"

    def __init__(self) -> None:
        self.defs: List[Any] = []
        self.safety: List[Any] = []
        self._k = 0

    def fresh(self, stem: str, sort=None):
        self._k += 1
        name = f"{stem}!{self._k}"
        if sort == "bool":
            return z3.Bool(name)
        if sort == "int":
            return z3.Int(name)
        return z3.String(name)

    def const(self, s: str):
        return z3.StringVal(s)

    def length(self, s):
        return z3.Length(s)

    def concat(self, x, y):
        return z3.Concat(x, y)

    def truth(self, s):
        return z3.Length(s) > 0

    def endswith(self, s, suf):
        return z3.SuffixOf(suf, s)

    def startswith(self, s, pre):
        return z3.PrefixOf(pre, s)

    def removesuffix(self, s, suf):
        return z3.If(z3.SuffixOf(suf, s), z3.SubString(s, 0, z3.Length(s) - z3.Length(suf)), s)


class SMatch:
    """Result of ``<compiled regex>.match(s)``: ``matched`` (Bool) and the captured groups (strings)."""

    def __init__(self, matched, groups):
        self.matched = matched
        self.groups = groups


def seq_regex_match(be: SeqBackend, s, pattern: str, ascii_only: bool = True) -> SMatch:
    """Encode ``re.compile(pattern).match(s)`` with capture groups for patterns whose groups are top-level items.
    matched <=> s in L(pattern);  matched => s == p1 ++ ... ++ pk (++ optional final newline) with p_j in L(item_j).
    The decomposition is unique for the patterns used here (checked by an obligation of the harness)."""
    nodes = parse_regex(pattern)
    whole = regex_to_z3(nodes, ascii_only)
    parts = regex_top_level_parts(nodes)
    matched = z3.InRe(s, whole)
    vars_, groups = [], {}
    for gi, sub in parts:
        v = be.fresh("grp" if gi else "lit")
        vars_.append(v)
        be.defs.append(z3.Implies(matched, z3.InRe(v, regex_to_z3(sub, ascii_only, top=False))))
        if gi:
            groups[gi] = v
    nl = be.fresh("nl")
    be.defs.append(z3.Or(nl == z3.StringVal(""), nl == z3.StringVal("\n")))
    be.defs.append(z3.Implies(matched, s == z3.Concat(*(vars_ + [nl])) if vars_ else s == nl))
    return SMatch(matched, [groups[i] for i in sorted(groups)])


# ======================================================================================================================
# the interpreter
# ======================================================================================================================
class PyTuple:
    def __init__(self, items):
        self.items = list(items)


class Opaque:
    """A value the kernel only passes around (never inspected by translated code)."""

    def __init__(self, name: str):
        self.name = name


Outcome = Tuple[Any, str, Any]  # (guard: z3 Bool, kind, value)


class Interp:
    def __init__(self, backend, functions: Optional[Dict[str, ast.AST]] = None,
                 intrinsics: Optional[Dict[str, Callable[..., Any]]] = None, globals_: Optional[Dict[str, Any]] = None,
                 unroll: int = 3, merge: bool = False) -> None:
        self.be = backend
        self.merge = merge      # state merging: paths that fall through a statement with the same shape are joined by ite
        self.functions = dict(functions or {})
        self.intrinsics = dict(intrinsics or {})
        self.globals = dict(globals_ or {})
        self.unroll = unroll
        self.log: List[str] = []

    # ------------------------------------------------------------------ values
    def is_str(self, v) -> bool:
        return isinstance(v, BStr) or (isinstance(v, z3.ExprRef) and z3.is_string(v))

    def lift_str(self, v):
        if isinstance(v, str):
            return self.be.const(v)
        if isinstance(v, SDigits):
            return v.s
        if self.is_str(v):
            return v
        raise Untranslatable(f"not a string value: {type(v).__name__}")

    def truth(self, v, guard):
        if isinstance(v, bool):
            return v
        if isinstance(v, z3.ExprRef) and z3.is_bool(v):
            return v
        if v is None:
            return False
        if isinstance(v, SMatch):
            return v.matched
        if isinstance(v, str):
            return len(v) > 0
        if self.is_str(v):
            return self.be.truth(v)
        if _is_py_int(v):
            return v != 0
        if isinstance(v, z3.ExprRef) and z3.is_int(v):
            return v != 0
        if isinstance(v, (dict, list, tuple, set, frozenset)):
            return len(v) > 0
        raise Untranslatable(f"truth value of {type(v).__name__}")

    @staticmethod
    def _not(b):
        return (not b) if isinstance(b, bool) else z3.Not(b)

    @staticmethod
    def _and(a, b):
        if isinstance(a, bool):
            return b if a else False
        if isinstance(b, bool):
            return a if b else False
        return z3.And(a, b)

    @staticmethod
    def _or(a, b):
        if isinstance(a, bool):
            return True if a else b
        if isinstance(b, bool):
            return True if b else a
        return z3.Or(a, b)

    # ------------------------------------------------------------------ expressions
    def dotted(self, node) -> Optional[str]:
        if isinstance(node, ast.Name):
            return node.id
        if isinstance(node, ast.Attribute):
            base = self.dotted(node.value)
            return None if base is None else base + "." + node.attr
        return None

    def eval(self, node, env, guard):  # noqa: C901
        be = self.be
        if isinstance(node, ast.Constant):
            if isinstance(node.value, (str, int, bool)) or node.value is None:
                return node.value
            raise Untranslatable(f"constant {node.value!r}")
        if isinstance(node, ast.Name):
            if node.id in env:
                return env[node.id]
            if node.id in self.globals:
                return self.globals[node.id]
            raise Untranslatable(f"unknown name {node.id}")
        if isinstance(node, ast.Await):
            return self.eval(node.value, env, guard)
        if isinstance(node, ast.JoinedStr):
            parts = []
            for part in node.values:
                if isinstance(part, ast.Constant):
                    v = self.lift_str(part.value)
                elif isinstance(part, ast.FormattedValue):
                    if part.conversion != -1 or part.format_spec is not None:
                        raise Untranslatable("f-string conversion / format spec")
                    v = self.lift_str(self.eval(part.value, env, guard))
                else:
                    raise Untranslatable("f-string part")
                # concatenation is associative: adjacent parts of concrete length are joined first (cheap, exact)
                if parts and isinstance(v, BStr) and isinstance(parts[-1], BStr) and _is_py_int(v.n) and _is_py_int(parts[-1].n):
                    parts[-1] = be.concat(parts[-1], v)
                else:
                    parts.append(v)
            out = None
            for v in parts:
                out = v if out is None else be.concat(out, v)
            return out if out is not None else self.lift_str("")
        if isinstance(node, ast.BinOp):
            l, r = self.eval(node.left, env, guard), self.eval(node.right, env, guard)
            if isinstance(node.op, ast.Add):
                if (self.is_str(l) or isinstance(l, str)) and (self.is_str(r) or isinstance(r, str)):
                    if isinstance(l, str) and isinstance(r, str):
                        return l + r
                    return be.concat(self.lift_str(l), self.lift_str(r))
                if self._intlike(l) and self._intlike(r):
                    return l + r
            if isinstance(node.op, ast.Sub) and self._intlike(l) and self._intlike(r):
                return l - r
            if isinstance(node.op, ast.Mult) and _is_py_int(l) and _is_py_int(r):
                return l * r
            raise Untranslatable(f"binary operator {type(node.op).__name__} on {type(l).__name__}/{type(r).__name__}")
        if isinstance(node, ast.UnaryOp):
            if isinstance(node.op, ast.Not):
                return self._not(self.truth(self.eval(node.operand, env, guard), guard))
            if isinstance(node.op, ast.USub):
                v = self.eval(node.operand, env, guard)
                if self._intlike(v):
                    return -v
            raise Untranslatable("unary operator")
        if isinstance(node, ast.BoolOp):
            # short circuit: later operands are only evaluated (and their safety conditions only required) under the
            # condition that the earlier ones did not decide
            acc = None
            g = guard
            for sub in node.values:
                t = self.truth(self.eval(sub, env, g), g)
                if acc is None:
                    acc = t
                else:
                    acc = self._and(acc, t) if isinstance(node.op, ast.And) else self._or(acc, t)
                cont = t if isinstance(node.op, ast.And) else self._not(t)
                g = self._and(g, cont)
                if isinstance(g, bool) and not g:
                    break
            return acc
        if isinstance(node, ast.Compare):
            if len(node.ops) != 1:
                raise Untranslatable("chained comparison")
            l, r = self.eval(node.left, env, guard), self.eval(node.comparators[0], env, guard)
            return self.compare(node.ops[0], l, r)
        if isinstance(node, ast.IfExp):
            t = self.truth(self.eval(node.test, env, guard), guard)
            if isinstance(t, bool):
                return self.eval(node.body if t else node.orelse, env, guard)
            a = self.eval(node.body, env, self._and(guard, t))
            b = self.eval(node.orelse, env, self._and(guard, z3.Not(t)))
            if isinstance(a, z3.ExprRef) and isinstance(b, z3.ExprRef):
                return z3.If(t, a, b)
            raise Untranslatable("conditional expression on non-z3 values")
        if isinstance(node, ast.Subscript):
            v = self.eval(node.value, env, guard)
            sl = node.slice
            if isinstance(sl, ast.Slice):
                if sl.step is not None:
                    raise Untranslatable("slice step")
                lo = None if sl.lower is None else self.eval(sl.lower, env, guard)
                hi = None if sl.upper is None else self.eval(sl.upper, env, guard)
                if not isinstance(v, BStr):
                    raise Untranslatable("slicing is implemented for the array back end only")
                if lo is None and hi is not None:
                    return be.slice_to(v, hi)
                if hi is None and lo is not None:
                    return be.slice_from(v, lo)
                raise Untranslatable("slice shape")
            i = self.eval(sl, env, guard)
            if isinstance(v, BStr):
                return be.char_at(v, i, guard if not isinstance(guard, bool) else z3.BoolVal(guard))
            if isinstance(v, (list, tuple)) and _is_py_int(i):
                return v[i]
            raise Untranslatable("subscript")
        if isinstance(node, ast.Tuple):
            return PyTuple([self.eval(e, env, guard) for e in node.elts])
        if isinstance(node, ast.Call):
            return self.call(node, env, guard)
        if isinstance(node, ast.Attribute):
            d = self.dotted(node)
            if d is not None and d in self.globals:
                return self.globals[d]
            base = self.eval(node.value, env, guard)
            h = self.intrinsics.get("attr:" + node.attr)
            if h is not None:
                return h(self, guard, env, base)
            raise Untranslatable(f"attribute .{node.attr}")
        raise Untranslatable(f"expression {type(node).__name__}")

    @staticmethod
    def _intlike(v) -> bool:
        return _is_py_int(v) or (isinstance(v, z3.ExprRef) and z3.is_int(v))

    def compare(self, op, l, r):
        if isinstance(op, (ast.Is, ast.IsNot)):
            if r is None or l is None:
                other = l if r is None else r
                if isinstance(other, (BStr, SDigits, SMatch, PyTuple, str, int)) or self.is_str(other):
                    res = False
                elif other is None:
                    res = True
                else:
                    raise Untranslatable("'is None' on an opaque value")
                return res if isinstance(op, ast.Is) else (not res)
            raise Untranslatable("'is' comparison")
        if isinstance(op, (ast.In, ast.NotIn)):
            if isinstance(r, (set, frozenset, list, tuple)) and all(isinstance(x, str) for x in r):
                ls = self.lift_str(l)
                if isinstance(ls, BStr):
                    raise Untranslatable("'in' on array strings")
                res = z3.Or(*[ls == z3.StringVal(x) for x in sorted(r)]) if r else z3.BoolVal(False)
                return res if isinstance(op, ast.In) else z3.Not(res)
            raise Untranslatable("'in' on a non-constant container")
        if self._intlike(l) and self._intlike(r):
            table = {ast.Lt: lambda a, b: a < b, ast.LtE: lambda a, b: a <= b, ast.Gt: lambda a, b: a > b,
                     ast.GtE: lambda a, b: a >= b, ast.Eq: lambda a, b: a == b, ast.NotEq: lambda a, b: a != b}
            f = table.get(type(op))
            if f is None:
                raise Untranslatable("comparison operator")
            return f(l, r)
        if isinstance(op, (ast.Eq, ast.NotEq)) and (self.is_str(l) or isinstance(l, str)) and (self.is_str(r) or isinstance(r, str)):
            if isinstance(l, str) and isinstance(r, str):
                res = l == r
                return res if isinstance(op, ast.Eq) else (not res)
            ls, rs = self.lift_str(l), self.lift_str(r)
            if isinstance(ls, BStr):
                raise Untranslatable("== on array strings")
            res = ls == rs
            return res if isinstance(op, ast.Eq) else z3.Not(res)
        raise Untranslatable(f"comparison {type(op).__name__} on {type(l).__name__}/{type(r).__name__}")

    def call(self, node: ast.Call, env, guard):
        be = self.be
        d = self.dotted(node.func)
        if d is not None and d in self.intrinsics:
            args = [self.eval(a, env, guard) for a in node.args]
            kwargs = {k.arg: self.eval(k.value, env, guard) for k in node.keywords}
            return self.intrinsics[d](self, guard, env, *args, **kwargs)
        if isinstance(node.func, ast.Name):
            if node.func.id == "len" and len(node.args) == 1:
                v = self.eval(node.args[0], env, guard)
                if isinstance(v, str):
                    return len(v)
                return be.length(self.lift_str(v))
            if node.func.id == "str" and len(node.args) == 1:
                v = self.eval(node.args[0], env, guard)
                if isinstance(v, SDigits):
                    return v.s
                if self.is_str(v) or isinstance(v, str):
                    return v
                raise Untranslatable("str() of a non-digit-string int")
        if isinstance(node.func, ast.Attribute):
            # method on a value
            meth = node.func.attr
            if meth == "join" and len(node.args) == 1:
                sep = self.eval(node.func.value, env, guard)
                return self.join(sep, node.args[0], env, guard)
            base = self.eval(node.func.value, env, guard)
            args = [self.eval(a, env, guard) for a in node.args]
            if node.keywords:
                raise Untranslatable("keyword arguments on a method")
            h = self.intrinsics.get("method:" + meth)
            if h is not None:
                return h(self, guard, env, base, *args)
            gz = guard if not isinstance(guard, bool) else z3.BoolVal(guard)
            if isinstance(base, BStr):
                if meth == "rstrip" and len(args) == 1 and isinstance(args[0], str):
                    return be.rstrip_char(base, args[0])
                if meth == "isalpha" and not args:
                    return be.isalpha(base, gz)
                if meth == "isdigit" and not args:
                    return be.isdigit(base, gz)
                if meth == "count" and len(args) == 1 and isinstance(args[0], str) and len(args[0]) == 1:
                    return z3.Sum(*[z3.If(z3.And(i < base.n, base.at(i) == ord(args[0])), 1, 0) for i in range(N)])
            elif self.is_str(base):
                if meth == "endswith" and len(args) == 1:
                    return be.endswith(base, self.lift_str(args[0]))
                if meth == "startswith" and len(args) == 1:
                    return be.startswith(base, self.lift_str(args[0]))
                if meth == "removesuffix" and len(args) == 1:
                    return be.removesuffix(base, self.lift_str(args[0]))
            if isinstance(base, SMatch) and meth == "groups" and not args:
                return PyTuple(base.groups)
            raise Untranslatable(f"method .{meth} on {type(base).__name__}")
        raise Untranslatable(f"call {ast.dump(node.func)[:80]}")

    def join(self, sep, arg, env, guard):
        be = self.be
        if isinstance(arg, ast.GeneratorExp):
            if len(arg.generators) != 1 or arg.generators[0].ifs or not isinstance(arg.generators[0].target, ast.Name):
                raise Untranslatable("generator shape")
            it = self.eval(arg.generators[0].iter, env, guard)
            if isinstance(it, PyTuple):
                it = it.items
            if not isinstance(it, list):
                raise Untranslatable("generator over a non-list")
            items = []
            for x in it:
                e2 = dict(env)
                e2[arg.generators[0].target.id] = x
                items.append(self.eval(arg.elt, e2, guard))
        else:
            items = self.eval(arg, env, guard)
            if isinstance(items, PyTuple):
                items = items.items
            if not isinstance(items, list):
                raise Untranslatable("join over a non-list")
        seps = self.lift_str(sep)
        out = None
        for x in items:
            xs = self.lift_str(x)
            out = xs if out is None else be.concat(be.concat(out, seps) if not (isinstance(sep, str) and sep == "") else out, xs)
        return out if out is not None else self.lift_str("")

    # ------------------------------------------------------------------ statements
    def run_function(self, fn: ast.AST, args: Dict[str, Any], guard=True, with_env: bool = False) -> List[Any]:
        """guarded outcomes (guard, kind, value) of the function body; ``with_env`` appends the final environment"""
        env = dict(args)
        params = [a.arg for a in fn.args.args]  # type: ignore[attr-defined]
        defaults = fn.args.defaults  # type: ignore[attr-defined]
        for p, dflt in zip(params[len(params) - len(defaults):], defaults):
            if p not in env:
                env[p] = self.eval(dflt, {}, True)
        for p in params:
            if p not in env:
                raise Untranslatable(f"missing argument {p}")
        outs = []
        for g, kind, val, _env in self.block(list(fn.body), env, guard):  # type: ignore[attr-defined]
            if kind == "fall":
                kind, val = "return", None
            outs.append((g, kind, val, _env) if with_env else (g, kind, val))
        return outs

    def block(self, stmts, env, guard):
        """-> list of (guard, kind, value, env) with kind in fall/return/raise/cutoff"""
        if not stmts:
            return [(guard, "fall", None, env)]
        first, rest = stmts[0], stmts[1:]
        results = []
        outs = self.stmt(first, env, guard)
        if self.merge and len(outs) > 1:
            outs = self.merge_falls(outs, guard)
        for g, kind, val, e in outs:
            if kind == "fall":
                results.extend(self.block(rest, e, g))
            else:
                results.append((g, kind, val, e))
        return results

    # ------------------------------------------------------------------ state merging
    def ite_value(self, t, a, b):
        """a value that equals ``a`` where ``t`` holds and ``b`` elsewhere; ``_NoMerge`` if the two are of different shapes
        (the paths then stay forked — merging is an optimisation, never a semantic change)"""
        if a is b:
            return a
        if isinstance(a, bool) and isinstance(b, bool):
            if a == b:
                return a
            return z3.If(t, z3.BoolVal(a), z3.BoolVal(b))
        if _is_py_int(a) and _is_py_int(b):
            if a == b:
                return a
            return z3.If(t, z3.IntVal(a), z3.IntVal(b))
        if isinstance(a, str) and isinstance(b, str) and a == b:
            return a
        strish = lambda v: isinstance(v, (str, BStr))  # noqa: E731
        if strish(a) and strish(b) and self.be.kind == "arr":
            A, B = self.lift_str(a), self.lift_str(b)
            n = A.n if (_is_py_int(A.n) and _is_py_int(B.n) and A.n == B.n) else z3.If(
                t, A.n if not _is_py_int(A.n) else z3.IntVal(A.n), B.n if not _is_py_int(B.n) else z3.IntVal(B.n))
            arr = A.a if A.a.eq(B.a) else z3.If(t, A.a, B.a)
            return BStr(n, arr)
        boolish = lambda v: isinstance(v, bool) or (isinstance(v, z3.ExprRef) and z3.is_bool(v))  # noqa: E731
        if boolish(a) and boolish(b):
            return z3.If(t, zguard(a), zguard(b))
        if self._intlike(a) and self._intlike(b):
            return z3.If(t, a if not _is_py_int(a) else z3.IntVal(a), b if not _is_py_int(b) else z3.IntVal(b))
        if isinstance(a, z3.ExprRef) and isinstance(b, z3.ExprRef) and a.sort().eq(b.sort()):
            return a if a.eq(b) else z3.If(t, a, b)
        if isinstance(a, list) and isinstance(b, list) and len(a) == len(b):
            return [self.ite_value(t, x, y) for x, y in zip(a, b)]
        if isinstance(a, PyTuple) and isinstance(b, PyTuple) and len(a.items) == len(b.items):
            return PyTuple([self.ite_value(t, x, y) for x, y in zip(a.items, b.items)])
        raise _NoMerge()

    def merge_envs(self, t, ea, eb):
        """environment that is ``ea`` where t holds and ``eb`` elsewhere.  Hidden path state (keys starting with ``__``:
        ordinals of stub calls) must be identical; the two paths must bind the same names."""
        if set(ea) != set(eb):
            raise _NoMerge()
        out = {}
        for k in ea:
            if k.startswith("__"):
                if not (type(ea[k]) is type(eb[k]) and ea[k] == eb[k]):
                    raise _NoMerge()
                out[k] = ea[k]
            else:
                out[k] = self.ite_value(t, ea[k], eb[k])
        return out

    def merge_falls(self, outs, total):
        """join the fall-through outcomes of one statement where their environments have the same shape.  ``outs``
        partition ``total`` (the guard the statement was executed under): if everything joins into one path its guard is
        ``total`` itself."""
        groups = []  # [guard, env]
        others = []
        for g, kind, val, e in outs:
            if kind != "fall":
                others.append((g, kind, val, e))
                continue
            for grp in groups:
                try:
                    # the new path is tested first: within Or(grp, g) exactly one of the two holds
                    env = self.merge_envs(zguard(g), e, grp[1])
                except _NoMerge:
                    continue
                grp[0] = self._or(grp[0], g)
                grp[1] = env
                break
            else:
                groups.append([g, e])
        if len(groups) == 1 and not others:
            groups[0][0] = total
        return [(g, "fall", None, e) for g, e in groups] + others

    def stmt(self, node, env, guard):  # noqa: C901
        if isinstance(node, ast.Expr):
            if isinstance(node.value, ast.Constant):
                return [(guard, "fall", None, env)]  # docstring
            raise Untranslatable("expression statement")
        if isinstance(node, ast.Pass):
            return [(guard, "fall", None, env)]
        if isinstance(node, (ast.Assign, ast.AnnAssign)):
            targets = node.targets if isinstance(node, ast.Assign) else [node.target]
            if len(targets) != 1:
                raise Untranslatable("multiple assignment targets")
            value_node = node.value
            results = []
            for g, val, hidden in self.eval_forking(value_node, env, guard):
                e2 = dict(env)
                if hidden:
                    e2.update(hidden)
                if isinstance(val, tuple) and len(val) == 2 and val[0] == "__raise__":
                    results.append((g, "raise", val[1], e2))
                    continue
                self.bind(targets[0], val, e2)
                results.append((g, "fall", None, e2))
            return results
        if isinstance(node, ast.Return):
            if node.value is None:
                return [(guard, "return", None, env)]
            out = []
            for g, val, hidden in self.eval_forking(node.value, env, guard):
                e2 = env
                if hidden:
                    e2 = dict(env)
                    e2.update(hidden)
                if isinstance(val, tuple) and len(val) == 2 and val[0] == "__raise__":
                    out.append((g, "raise", val[1], e2))
                else:
                    out.append((g, "return", val, e2))
            return out
        if isinstance(node, ast.Raise):
            name = "Exception"
            if isinstance(node.exc, ast.Call):
                name = self.dotted(node.exc.func) or name
            elif node.exc is not None:
                name = self.dotted(node.exc) or name
            return [(guard, "raise", name, env)]
        if isinstance(node, ast.If):
            t = self.truth(self.eval(node.test, env, guard), guard)
            if isinstance(t, bool):
                return self.block(list(node.body if t else node.orelse), env, guard)
            t = z3.simplify(t)
            if z3.is_true(t):
                return self.block(list(node.body), env, guard)
            if z3.is_false(t):
                return self.block(list(node.orelse), env, guard)
            return self.block(list(node.body), dict(env), self._and(guard, t)) + self.block(
                list(node.orelse), dict(env), self._and(guard, z3.Not(t))
            )
        if isinstance(node, ast.For):
            if node.orelse or not isinstance(node.target, ast.Name):
                raise Untranslatable("for shape")
            it = node.iter
            if not (isinstance(it, ast.Call) and isinstance(it.func, ast.Name) and it.func.id == "range"):
                raise Untranslatable("for over something else than range()")
            bounds = [self.eval(a, env, guard) for a in it.args]
            if not all(_is_py_int(b) for b in bounds) or len(bounds) not in (1, 2):
                raise Untranslatable("range bounds")
            lo, hi = (0, bounds[0]) if len(bounds) == 1 else bounds
            live = [(guard, env)]
            results = []
            count = 0
            for i in range(lo, hi):
                if count >= self.unroll:
                    for g, e in live:
                        results.append((g, "cutoff", f"loop unrolled {self.unroll} of {hi - lo} iterations", e))
                    live = []
                    break
                count += 1
                nxt = []
                for g, e in live:
                    e2 = dict(e)
                    e2[node.target.id] = i
                    for g2, kind, val, e3 in self.block(list(node.body), e2, g):
                        if kind == "fall":
                            nxt.append((g2, e3))
                        else:
                            results.append((g2, kind, val, e3))
                live = nxt
            for g, e in live:
                results.append((g, "fall", None, e))
            return results
        raise Untranslatable(f"statement {type(node).__name__}")

    def eval_forking(self, node, env, guard):
        """value expression that may be a call to another translated function (forks into its outcomes)"""
        inner = node.value if isinstance(node, ast.Await) else node
        if isinstance(inner, ast.Call):
            d = self.dotted(inner.func)
            if d is not None and d in self.functions and d not in self.intrinsics:
                fn = self.functions[d]
                params = [a.arg for a in fn.args.args]  # type: ignore[attr-defined]
                args = {}
                for p, a in zip(params, inner.args):
                    args[p] = self.eval(a, env, guard)
                for k in inner.keywords:
                    args[k.arg] = self.eval(k.value, env, guard)
                # hidden path state (``__``-prefixed keys: the ordinals intrinsics keep of stub calls made so far on this
                # path) flows INTO the callee and back OUT with each of its outcomes — a call is not a fresh path
                for k, v in env.items():
                    if k.startswith("__"):
                        if k in args:
                            raise Untranslatable(f"parameter name {k} clashes with hidden path state")
                        args[k] = v
                out = []
                for g, kind, val, e in self.run_function(fn, args, guard, with_env=True):
                    hidden = {k: v for k, v in e.items() if k.startswith("__")}
                    if kind == "return":
                        out.append((g, val, hidden))
                    elif kind == "raise":
                        out.append((g, ("__raise__", val), hidden))
                    else:
                        raise Untranslatable("loop cutoff inside an inlined call")
                return out
        return [(guard, self.eval(node, env, guard), None)]

    def bind(self, target, val, env) -> None:
        if isinstance(target, ast.Name):
            env[target.id] = val
            return
        if isinstance(target, ast.Tuple):
            items = val.items if isinstance(val, PyTuple) else (list(val) if isinstance(val, (list, tuple)) else None)
            if items is None or len(items) != len(target.elts):
                raise Untranslatable("tuple unpacking shape")
            for t, v in zip(target.elts, items):
                self.bind(t, v, env)
            return
        raise Untranslatable(f"assignment target {type(target).__name__}")


def zguard(g):
    return z3.BoolVal(g) if isinstance(g, bool) else g
