"""Imported first by every harness module.

* puts the real source trees of /repo (current working tree, no install) and the shims on sys.path;
* pre-seeds package ``__init__`` bypasses (DESIGN §0): ``llama_agents.server`` and ``llama_agents.cli`` import
  starlette / dulwich at package scope; a bare module whose ``__path__`` is the real directory lets the
  sub-modules import unmodified;
* registers the CrossHair patch that realises symbolic values at the pydantic-core boundary;
* exposes TIER / TWIN / tier-dependent bound selection.
"""
from __future__ import annotations

import os
import sys
import types

from vlib import paths

for _p in reversed([paths.SHIMS] + paths.SRC_DIRS):
    if _p not in sys.path:
        sys.path.insert(0, _p)

# the hook guard is always on for checks (no hooks are currently needed; see MANIFEST.hooks)
os.environ.setdefault(paths.GUARD, "1")

TIER = os.environ.get("VERIF_TIER", "quick")
THOROUGH = TIER == "thorough"
try:
    SEED = int(os.environ.get("VERIF_SEED", "0") or 0)
except ValueError:
    SEED = 0


def B(quick, thorough):
    """Tier-dependent bound."""
    return thorough if THOROUGH else quick


def _bypass(pkg: str, real_dir: str) -> None:
    if pkg in sys.modules:
        return
    m = types.ModuleType(pkg)
    m.__path__ = [real_dir]  # type: ignore[attr-defined]
    m.__verif_bypass__ = True  # type: ignore[attr-defined]
    sys.modules[pkg] = m


_bypass("llama_agents.server", os.path.join(paths.PKG, "llama-agents-server", "src", "llama_agents", "server"))
_bypass("llama_agents.cli", os.path.join(paths.PKG, "llamactl", "src", "llama_agents", "cli"))
_bypass(
    "llama_agents.cli.config", os.path.join(paths.PKG, "llamactl", "src", "llama_agents", "cli", "config")
)
_bypass(
    "llama_agents.control_plane",
    os.path.join(paths.PKG, "llama-agents-control-plane", "src", "llama_agents", "control_plane"),
)


def under_crosshair() -> bool:
    return "crosshair" in sys.modules


_patched = False


def install_crosshair_patches() -> None:
    """pydantic-core rejects CrossHair's lazy symbolic str/int proxies: realise at that C boundary."""
    global _patched
    if _patched:
        return
    _patched = True
    try:
        from crosshair import NoTracing, realize, register_patch
        from pydantic_core import SchemaValidator
    except Exception:  # pragma: no cover - native replay without crosshair
        return
    _orig = SchemaValidator.validate_python

    def _realize_keep_identity(x, depth=0):
        """Realise CrossHair proxies inside plain containers; every other object (events, models, exceptions)
        is passed through untouched so object identity is the same symbolically and natively."""
        t = type(x)
        if hasattr(t, "__ch_realize__"):
            x = realize(x)
            t = type(x)
        if depth > 6:
            return x
        if t is dict:
            return {_realize_keep_identity(k, depth + 1): _realize_keep_identity(v, depth + 1) for k, v in x.items()}
        if t is list:
            return [_realize_keep_identity(v, depth + 1) for v in x]
        if t is tuple:
            return tuple(_realize_keep_identity(v, depth + 1) for v in x)
        if t is set:
            return {_realize_keep_identity(v, depth + 1) for v in x}
        return x

    def _validate_python(self, input, *a, **kw):  # noqa: A002
        with NoTracing():
            input = _realize_keep_identity(input)
            a = tuple(_realize_keep_identity(v) for v in a)
            kw = {k: _realize_keep_identity(v) for k, v in kw.items()}
        return _orig(self, input, *a, **kw)

    try:
        register_patch(SchemaValidator.validate_python, _validate_python)
    except Exception:
        pass


if under_crosshair():
    install_crosshair_patches()


def drive(coro):
    """Run a coroutine that never really suspends (stub adapters return immediately) to completion."""
    try:
        coro.send(None)
    except StopIteration as e:
        return e.value
    coro.close()
    raise HarnessError("coroutine suspended: stubbed environment must not block")


class HarnessError(BaseException):
    """A defect of the harness, never a verdict about the code under test."""
