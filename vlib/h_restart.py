"""Whole-stack scenarios for C13 / C14: the in-process server stack (``vlib.h_idle.InprocStack`` = the real
ServerRuntimeDecorator( IdleReleaseDecorator( PersistenceDecorator( BasicRuntime ) ) ) + real ``_WorkflowService`` + real
``MemoryWorkflowStore``) on the virtual-time loop.

* ``run_first(make_workflow, ...)``   run a workflow through the real service until its handler leaves "running";
                                      returns the persisted tick log (as stored) and the outcome.
* ``run_restarted(make_workflow, prefix, ...)``  a NEW process image: fresh store holding only the handler record
                                      ("running") and the first ``len(prefix)`` persisted ticks, fresh runtime stack, fresh
                                      workflow object; ``service.start()`` (= server start) resumes it; returns the outcome."""
from __future__ import annotations

import vlib.boot  # noqa: F401

import asyncio
from typing import Any, Dict, List, Optional

from vlib.h_idle import InprocStack, VirtualClocks, _FixedIds, inproc_clock_modules, install_speedups
from vlib.miniloop import MiniLoop

install_speedups()  # tooling only (see vlib.h_idle.install_speedups); scenarios fork on their parameters BEFORE they start


def _with_env(loop: MiniLoop, main: Any) -> None:
    import llama_agents.server._service as svc
    import workflows.runtime.types.step_function as sf

    clocks = inproc_clock_modules()
    saved_nanoid, saved_uuid = svc.nanoid, sf.uuid
    svc.nanoid = _FixedIds("run")
    sf.uuid = _FixedIds("span")
    try:
        with VirtualClocks(loop, time_mods=clocks["time"], datetime_mods=clocks["datetime"]):
            loop.run_until_complete(main())
    finally:
        svc.nanoid, sf.uuid = saved_nanoid, saved_uuid


async def _settle(st: InprocStack, horizon: int, obs: Dict[str, Any], loop: MiniLoop, extra: int = 0) -> None:
    from llama_agents.server._store.abstract_workflow_store import HandlerQuery

    async def rec() -> Any:
        return (await st.store.query(HandlerQuery(handler_id_in=["h1"])))[0]

    h = await rec()
    waited = 0
    while h.status == "running" and waited < horizon:
        await asyncio.sleep(1)
        waited += 1
        h = await rec()
    if extra:
        await asyncio.sleep(extra)
        h = await rec()
    obs["status"] = h.status
    obs["result"] = h.result.result if h.result is not None else None
    obs["error"] = h.error
    obs["idle_since"] = h.idle_since is not None
    obs["ticks"] = [t.tick_data for t in await st.store.get_ticks("run1")]
    obs["end"] = loop.time()
    obs["live_at_end"] = st.basic.live_loops("run1")
    obs["aborts"] = len(st.basic.aborts)
    obs["loop_exceptions"] = [str(c.get("exception") or c.get("message")) for c in loop._exc]
    try:
        store = st.store.create_state_store("run1")
        obs["state"] = store.to_dict(__import__("workflows.context.serializers", fromlist=["JsonSerializer"]).JsonSerializer())
    except Exception as e:  # noqa: BLE001
        obs["state"] = f"unreadable: {e}"


def run_first(make_workflow: Any, idle_timeout: Any = 1000, horizon: int = 12, sends: Optional[List[Any]] = None,
              make_event: Any = None, extra: int = 0) -> Dict[str, Any]:
    loop = MiniLoop()
    obs: Dict[str, Any] = {"errors": []}

    async def main() -> None:
        st = InprocStack(idle_timeout)
        wf = make_workflow()
        st.add_workflow("w", wf)
        await st.service.start()
        await st.service.start_workflow(wf, "h1", None)

        async def sender(at: Any, payload: Any) -> None:
            await asyncio.sleep(at)
            try:
                await st.service.send_event("h1", make_event(payload))
            except Exception as e:  # noqa: BLE001
                obs["errors"].append(f"{type(e).__name__}: {e}")

        tasks = [asyncio.ensure_future(sender(at, p)) for (at, p) in (sends or [])]
        for t in tasks:
            await t
        await _settle(st, horizon, obs, loop, extra)
        obs["workflow"] = wf
        await st.service.stop()

    _with_env(loop, main)
    return obs


def run_restarted(make_workflow: Any, prefix: List[Dict[str, Any]], idle_timeout: Any = 1000, horizon: int = 12,
                  state: Any = None, extra: int = 0) -> Dict[str, Any]:
    """Server restart: everything in memory is gone; the store has the handler row (still 'running') and ``prefix``."""
    from llama_agents.server._store.abstract_workflow_store import PersistentHandler
    from llama_agents.server._store.memory_workflow_store import MemoryWorkflowStore

    loop = MiniLoop()
    obs: Dict[str, Any] = {"errors": []}

    async def main() -> None:
        store = MemoryWorkflowStore()
        st = InprocStack(idle_timeout, store=store)
        wf = make_workflow()
        st.add_workflow("w", wf)
        await store.update(PersistentHandler(handler_id="h1", workflow_name="w", status="running", run_id="run1"))
        for td in prefix:
            await store.append_tick("run1", td)
        await st.service.start()  # launch() -> PersistenceDecorator._on_server_start resumes running handlers
        resume = st.persistence.resume_task
        if resume is not None:
            try:
                await resume
            except Exception as e:  # noqa: BLE001
                obs["errors"].append(f"resume task: {type(e).__name__}: {e}")
        await _settle(st, horizon, obs, loop, extra)
        obs["workflow"] = wf
        await st.service.stop()

    _with_env(loop, main)
    return obs


# ------------------------------------------------------------------------------------------------ crash at any STORE WRITE


def make_recording_store() -> Any:
    """A MemoryWorkflowStore that also logs its primitive writes (handler row upserts, tick appends, event appends) in order.
    update_handler_status() is implemented by the store base class as query + update, so it shows up as an "update"."""
    import copy

    from llama_agents.server._store.memory_workflow_store import MemoryWorkflowStore

    class RecordingStore(MemoryWorkflowStore):
        def __init__(self) -> None:
            super().__init__()
            self.writes: List[Any] = []

        async def update(self, handler: Any) -> None:
            self.writes.append(("update", handler.model_copy(deep=True)))
            await super().update(handler)

        async def append_tick(self, run_id: str, tick_data: Dict[str, Any]) -> None:
            self.writes.append(("tick", run_id, copy.deepcopy(tick_data)))
            await super().append_tick(run_id, tick_data)

        async def append_event(self, run_id: str, event: Any) -> None:
            self.writes.append(("event", run_id, event))
            await super().append_event(run_id, event)

    return RecordingStore()


def run_first_recording(make_workflow: Any, idle_timeout: Any = 1000, horizon: int = 12, sends: Optional[List[Any]] = None,
                        make_event: Any = None) -> Dict[str, Any]:
    """run_first over a recording store: additionally returns obs["writes"], the ordered primitive store writes.
    ``sends`` = [(at, payload)]: external events sent through the real service at virtual instants."""
    loop = MiniLoop()
    obs: Dict[str, Any] = {"errors": []}

    async def main() -> None:
        store = make_recording_store()
        st = InprocStack(idle_timeout, store=store)
        wf = make_workflow()
        st.add_workflow("w", wf)
        await st.service.start()
        await st.service.start_workflow(wf, "h1", None)

        async def sender(at: Any, payload: Any) -> None:
            await asyncio.sleep(at)
            try:
                await st.service.send_event("h1", make_event(payload))
            except Exception as e:  # noqa: BLE001
                obs["errors"].append(f"{type(e).__name__}: {e}")

        for t in [asyncio.ensure_future(sender(at, p)) for (at, p) in (sends or [])]:
            await t
        await _settle(st, horizon, obs, loop, 0)
        obs["writes"] = list(store.writes)
        await st.service.stop()

    _with_env(loop, main)
    return obs


def ticks_in(writes: List[Any]) -> List[Dict[str, Any]]:
    return [w[2] for w in writes if w[0] == "tick"]


def run_restarted_from_writes(make_workflow: Any, writes: List[Any], idle_timeout: Any = 1000, horizon: int = 12, record: bool = False,
                              sqlite_path: Optional[str] = None) -> Dict[str, Any]:
    """Server restart after a crash that happened right after the last of ``writes`` reached the store: a fresh store gets
    exactly these writes (handler row states, ticks, events), a fresh stack is started over it."""
    from llama_agents.server._store.memory_workflow_store import MemoryWorkflowStore

    loop = MiniLoop()
    obs: Dict[str, Any] = {"errors": []}
    # private copies of the recorded rows, made with the tracer off (CrossHair's datetime stand-ins cannot be deep-copied by
    # pydantic); the recorded writes themselves stay untouched for the next path
    from vlib.h_handlers import native

    writes = native(lambda: [(w[0], w[1].model_copy(deep=True)) if w[0] == "update" else w for w in writes])

    async def main() -> None:
        if sqlite_path is not None:
            # the restarted process finds the rows in a SQLite database (written through the real SqliteWorkflowStore, upserts included)
            from llama_agents.server._store.sqlite.sqlite_workflow_store import SqliteWorkflowStore

            store = SqliteWorkflowStore(sqlite_path)
        else:
            store = make_recording_store() if record else MemoryWorkflowStore()
        for w in writes:
            if w[0] == "update":
                await store.update(w[1])
            elif w[0] == "tick":
                await store.append_tick(w[1], w[2])
            else:
                await store.append_event(w[1], w[2])
        st = InprocStack(idle_timeout, store=store)
        wf = make_workflow()
        st.add_workflow("w", wf)
        await st.service.start()
        resume = st.persistence.resume_task
        if resume is not None:
            try:
                await resume
            except Exception as e:  # noqa: BLE001
                obs["errors"].append(f"resume task: {type(e).__name__}: {e}")
        await _settle(st, horizon, obs, loop, 0)
        if record:
            obs["writes"] = list(store.writes)     # the replayed prefix followed by what this life wrote itself
        await st.service.stop()

    _with_env(loop, main)
    return obs
