"""Sub-process driver: run CrossHair (symbolic execution + z3) on ONE contract function of ONE generated
variant file and write a structured JSON result.  Equivalent to

    crosshair check --report_all --per_condition_timeout T --per_path_timeout P file.py:LINE

but through the API so that message states and path statistics come back as data."""
from __future__ import annotations

import collections
import json
import os
import sys
import time
import traceback


def main(argv) -> int:
    file, fn_name, cond_timeout, path_timeout, out = argv[0], argv[1], float(argv[2]), float(argv[3]), argv[4]
    t0 = time.time()
    res = {"file": file, "fn": fn_name, "status": "error", "messages": [], "stats": {}, "wall_s": 0.0}
    try:
        import vlib.boot  # noqa: F401  (paths + bypasses before anything of the repo is imported)
        from crosshair.core_and_libs import analyze_function, run_checkables
        from crosshair.options import AnalysisOptionSet
        from crosshair.fnutil import FunctionInfo
        from crosshair.main import prefer_pure_python_imports  # type: ignore
        from crosshair.options import AnalysisKind
        from crosshair.util import add_to_pypath, load_file

        vlib.boot.install_crosshair_patches()
        stats: collections.Counter = collections.Counter()
        options = AnalysisOptionSet(
            analysis_kind=[AnalysisKind.PEP316],
            per_condition_timeout=cond_timeout,
            per_path_timeout=path_timeout,
            report_all=True,
            max_uninteresting_iterations=0,  # 0 = unlimited: only exhaustion or the timeout ends the search
        )
        options.stats = stats
        with add_to_pypath(os.path.dirname(file)), prefer_pure_python_imports():
            mod = load_file(file)
            fn = getattr(mod, fn_name)
            checkables = analyze_function(FunctionInfo.from_module(mod, fn_name), options)
            if not checkables:
                res["status"] = "error"
                res["messages"].append({"state": "no_conditions", "message": "no checkable conditions found"})
            msgs = run_checkables(checkables)
        worst = None
        for m in msgs:
            res["messages"].append(
                {
                    "state": m.state.value,
                    "message": m.message,
                    "line": m.line,
                    "condition_src": getattr(m, "condition_src", ""),
                    "traceback": (m.traceback or "")[-3000:],
                }
            )
        states = [m["state"] for m in res["messages"]]
        if any(s in ("post_fail", "exec_err", "post_err") for s in states):
            worst = "counterexample"
        elif any(s in ("syntax_err", "import_err", "no_conditions") for s in states):
            worst = "error"
        elif any(s == "cannot_confirm" for s in states):
            worst = "not_confirmed"
        elif any(s == "pre_unsat" for s in states):
            worst = "pre_unsat"
        elif states and all(s == "confirmed" for s in states):
            worst = "confirmed"
        else:
            worst = "error"
        res["status"] = worst
        res["stats"] = dict(stats)
    except BaseException as e:  # noqa: BLE001 - report everything as harness error
        res["status"] = "error"
        res["messages"].append({"state": "driver_exception", "message": repr(e), "traceback": traceback.format_exc()[-4000:]})
    res["wall_s"] = round(time.time() - t0, 3)
    with open(out, "w") as f:
        json.dump(res, f)
    return 0


if __name__ == "__main__":
    sys.exit(main(sys.argv[1:]))
