"""Locations. Everything is derived from the environment so a snapshot copy of /verif works too."""
from __future__ import annotations

import os

VERIF = os.path.dirname(os.path.dirname(os.path.abspath(__file__)))
REPO = os.environ.get("VERIF_REPO", "/repo")
PKG = os.path.join(REPO, "packages")

SRC_DIRS = [
    os.path.join(PKG, "llama-index-workflows", "src"),
    os.path.join(PKG, "llama-agents-server", "src"),
    os.path.join(PKG, "llama-agents-client", "src"),
    os.path.join(PKG, "llama-agents-core", "src"),
    os.path.join(PKG, "llama-agents-dbos", "src"),
    os.path.join(PKG, "llama-agents-control-plane", "src"),
    os.path.join(PKG, "llamactl", "src"),
    os.path.join(REPO, "src"),
]

SHIMS = os.path.join(VERIF, "shims")
# seeded-bug trials (tools/seedtrial.sh) redirect evidence so that /verif/evidence always comes from runs against /repo itself
EVIDENCE = os.environ.get("VERIF_EVIDENCE_DIR") or os.path.join(VERIF, "evidence")
REPLAYS = os.path.join(EVIDENCE, "replays")
WORK = os.environ.get("VERIF_WORK", os.path.join(VERIF, ".work"))
KNOWN_FINDINGS = os.path.join(VERIF, "known_findings.json")
GUARD = "RUN_LLAMA_WORKFLOWS_PY_VERIF"


def pythonpath() -> str:
    return os.pathsep.join([VERIF, SHIMS] + SRC_DIRS)
