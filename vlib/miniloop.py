"""Deterministic minimal asyncio event loop with virtual time (no selectors, no signals, no threads)."""
from __future__ import annotations
import asyncio, collections, heapq, itertools
from asyncio import events, futures, tasks

class MiniLoop(asyncio.AbstractEventLoop):
    def __init__(self) -> None:
        self._ready: collections.deque = collections.deque()
        self._timers: list = []
        self._now = 0.0
        self._seq = itertools.count()
        self._closed = False
        self._exc = []
        self._task_factory = None
    # -- time
    def time(self) -> float:
        return self._now
    def get_debug(self) -> bool:
        return False
    def is_running(self) -> bool:
        return True
    def is_closed(self) -> bool:
        return self._closed
    def close(self) -> None:
        self._closed = True
    # -- scheduling
    def call_soon(self, callback, *args, context=None):
        h = events.Handle(callback, args, self, context)
        self._ready.append(h)
        return h
    call_soon_threadsafe = call_soon
    def call_later(self, delay, callback, *args, context=None):
        return self.call_at(self._now + delay, callback, *args, context=context)
    def call_at(self, when, callback, *args, context=None):
        h = events.TimerHandle(when, callback, args, self, context)
        heapq.heappush(self._timers, (when, next(self._seq), h))
        return h
    def _timer_handle_cancelled(self, handle) -> None:
        pass
    def create_future(self):
        return futures.Future(loop=self)
    def create_task(self, coro, *, name=None, context=None):
        return tasks.Task(coro, loop=self, name=name, context=context)
    def call_exception_handler(self, context) -> None:
        self._exc.append(context)
    def default_exception_handler(self, context) -> None:
        self._exc.append(context)
    def run_in_executor(self, executor, func, *args):
        # the function runs at once (no real thread), but - as with a real executor, whose completion reaches the loop through
        # call_soon_threadsafe - its result becomes visible in a LATER loop iteration: the awaiting coroutine is always suspended once
        fut = self.create_future()
        try:
            r = func(*args)
        except Exception as e:  # noqa
            self.call_soon(lambda: fut.done() or fut.set_exception(e))
        else:
            self.call_soon(lambda: fut.done() or fut.set_result(r))
        return fut
    # -- running
    def run_until_complete(self, coro):
        events._set_running_loop(self)
        try:
            t = self.create_task(coro)
            while not t.done():
                if self._ready:
                    h = self._ready.popleft()
                    if not h._cancelled:
                        h._run()
                elif self._timers:
                    when, _, h = heapq.heappop(self._timers)
                    self._now = max(self._now, when)
                    if not h._cancelled:
                        h._run()
                else:
                    raise RuntimeError("deadlock: no ready handles or timers")
            return t.result()
        finally:
            events._set_running_loop(None)
