"""Whole-run harness support: run the REAL Workflow.run() -> BasicRuntime -> control_loop -> step workers on
MiniLoop, with the environment's nondeterminism (which pending completion happens next, how much time passes)
driven by symbolic schedule variables.

The adapter overrides only the documented ``InternalRunAdapter.wait_for_next_task`` / ``get_now`` hooks (the same
hooks the DBOS adapter overrides to fix an order)."""
from __future__ import annotations

import vlib.boot  # noqa: F401

import asyncio
from typing import Any, Callable, List, Optional

from vlib.miniloop import MiniLoop
from workflows.plugins.basic import BasicRuntime, InternalAsyncioAdapter
from workflows.runtime.types.plugin import WaitForNextTaskResult


class Env:
    """Holds the symbolic schedule (a list or tuple of small ints), the gates step bodies block on, a virtual clock."""

    def __init__(self, choices) -> None:
        self.choices = list(choices)
        self.ci = 0
        self.gates: List[asyncio.Future] = []
        self.gate_tags: List[Any] = []
        self.now = 0.0
        self.log: List[Any] = []
        self.running: dict = {}
        self.maxrun: dict = {}

    def choose(self, n: int) -> int:
        """Next schedule decision in [0, n). Explicit forks so the solver enumerates the options."""
        if n <= 1 or self.ci >= len(self.choices):
            return 0
        c = self.choices[self.ci]
        self.ci += 1
        for k in range(n - 1):
            if c == k:
                return k
        return n - 1

    async def gate(self, tag: Any = None) -> None:
        """A step body awaits this; the environment opens gates in an order chosen by the schedule."""
        f = asyncio.get_running_loop().create_future()
        self.gates.append(f)
        self.gate_tags.append(tag)
        await f

    def enter(self, key: str) -> None:
        self.running[key] = self.running.get(key, 0) + 1
        self.maxrun[key] = max(self.maxrun.get(key, 0), self.running[key])

    def leave(self, key: str) -> None:
        self.running[key] -= 1


def _stable_key(nt: Any):
    step = getattr(nt, "step_name", None)
    if step is not None:
        return (0, str(step), int(getattr(nt, "worker_id", 0)))
    return (1, "", int(getattr(nt, "sequence", 0) or 0))


class SymAdapter(InternalAsyncioAdapter):
    def __init__(self, base: InternalAsyncioAdapter, env: Env) -> None:
        self.__dict__.update(base.__dict__)
        self.env = env

    async def get_now(self) -> float:
        return self.env.now

    async def wait_for_next_task(self, running, pending, timeout=None):
        started = [p.start(asyncio.create_task(p.coro)) for p in pending]
        # the runner builds `running` by iterating a SET of tasks (order = object addresses): sort by the task's stable
        # name (step, worker id; the pull last) so that a schedule index means the same task in every process
        named = sorted(list(running) + started, key=_stable_key)
        while True:
            for _ in range(8):  # let started tasks run until they block
                await asyncio.sleep(0)
            done = [nt.task for nt in named if nt.task.done()]
            open_gates = [g for g in self.env.gates if not g.done()]
            n = len(done) + len(open_gates) + (1 if timeout is not None else 0)
            if n == 0:
                # only the pull (external input) can make progress: wait for the outside world
                await asyncio.wait([nt.task for nt in named], return_when=asyncio.FIRST_COMPLETED)
                continue
            k = self.env.choose(n)
            if k < len(done):
                return WaitForNextTaskResult(done[k], started)
            k -= len(done)
            if k < len(open_gates):
                open_gates[k].set_result(None)
                continue
            # let the earliest scheduled wake-up fire
            self.env.now += timeout
            return WaitForNextTaskResult(None, started)


class SymRuntime(BasicRuntime):
    def __init__(self, env: Env) -> None:
        super().__init__()
        self.env = env

    def get_internal_adapter(self, workflow):
        return SymAdapter(super().get_internal_adapter(workflow), self.env)


def run_loop(main: Callable[[], Any]) -> Any:
    """Run ``await main()`` on a fresh MiniLoop."""
    loop = MiniLoop()
    return loop.run_until_complete(main())
