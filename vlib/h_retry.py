"""Shared helpers of the retry properties C05/C06/C07.

Engine T for ``workflows.retry_policy``: a small *symbolic evaluator of the module's CURRENT source* (read with
``inspect.getsource`` + ``ast`` on every run).  Constructing a strategy evaluates the real ``__init__`` body over z3
terms; calling it evaluates the real ``__call__`` body.  The result is a z3 term (Python float -> Real, int -> Int)
plus explicit side conditions:

* every ``x ** k`` (k a concrete non-negative int, unrolled) gets ``|x**k| <= DBL_MAX`` — CPython raises
  ``OverflowError`` otherwise.  ``try: ... except OverflowError: ...`` is understood (guarded alternative);
* every ``+ - * /`` requires its *operands* to be finite (an overflowed operand is ``inf`` in CPython and the Real model
  diverges from it); results may exceed DBL_MAX — order-only consumers (min/max/compare) treat such a value exactly
  like ``inf``;
* ``random.Random(seed).uniform(a, b)`` is the uninterpreted function ``U(seed, draw_index, a, b)`` constrained to lie
  between a and b; a draw from the module-level ``random`` is a fresh unconstrained-by-seed variable and is counted.

Rounding is ignored (stated deviation): only order, sign, finiteness and exact-arithmetic identities are decided.
Anything the evaluator does not understand raises ``Untranslatable`` — the obligation is then reported
``untranslatable`` (inconclusive), never as holding."""
from __future__ import annotations

import vlib.boot  # noqa: F401

import ast
import inspect
import os
import sys
from fractions import Fraction
from typing import Any, Dict, List, Optional, Tuple

import z3

DBL_MAX_F = sys.float_info.max
DBL_MAX = z3.RealVal(str(Fraction(DBL_MAX_F)))


class Untranslatable(Exception):
    pass


class _PosInf:
    def __repr__(self) -> str:
        return "+inf"


POS_INF = _PosInf()


class Raised:
    def __init__(self, name: str) -> None:
        self.name = name

    def __repr__(self) -> str:
        return f"Raised({self.name})"


class SymObj:
    def __init__(self, cls: str) -> None:
        self.cls = cls
        self.fields: Dict[str, Any] = {}

    def __repr__(self) -> str:
        return f"<{self.cls} {self.fields}>"


class Rng:
    def __init__(self, seed: Any) -> None:
        self.seed = seed  # z3 Int term, or None = module-level random
        self.draws = 0


class Ref:
    """A name the evaluator knows how to call: kind in {'builtin','class','func','module','type'}."""

    def __init__(self, kind: str, name: str) -> None:
        self.kind, self.name = kind, name

    def __repr__(self) -> str:
        return f"Ref({self.kind}:{self.name})"


class Bound:
    def __init__(self, obj: Any, name: str) -> None:
        self.obj, self.name = obj, name


class SuperProxy:
    def __init__(self, obj: SymObj, after: str) -> None:
        self.obj, self.after = obj, after


class Path:
    """One execution path: path condition (relative to the call) and the side conditions met on it."""

    def __init__(self, pc: Optional[List[Any]] = None, side: Optional[List[Tuple[str, Any]]] = None) -> None:
        self.pc: List[Any] = list(pc or [])
        self.side: List[Tuple[str, Any]] = list(side or [])

    def fork(self) -> "Path":
        return Path(self.pc, self.side)


def is_z3(v: Any) -> bool:
    return isinstance(v, z3.ExprRef)


def is_num(v: Any) -> bool:
    return (isinstance(v, (int, float, Fraction)) and not isinstance(v, bool)) or (is_z3(v) and z3.is_arith(v))


def to_real(v: Any) -> Any:
    if is_z3(v):
        if z3.is_int(v):
            return z3.ToReal(v)
        if z3.is_real(v):
            return v
        raise Untranslatable(f"not numeric: {v}")
    if isinstance(v, bool):
        return z3.RealVal(1 if v else 0)
    if isinstance(v, int):
        return z3.RealVal(v)
    if isinstance(v, float):
        if v != v or v in (float("inf"), float("-inf")):
            raise Untranslatable("non-finite float constant in arithmetic")
        return z3.RealVal(str(Fraction(v)))
    if isinstance(v, Fraction):
        return z3.RealVal(str(v))
    raise Untranslatable(f"not numeric: {v!r}")


def to_bool(v: Any) -> Any:
    """Python truthiness of a value the evaluator holds."""
    if is_z3(v):
        if z3.is_bool(v):
            return v
        if z3.is_arith(v):
            return v != 0
        raise Untranslatable("truthiness of non-bool term")
    if isinstance(v, (bool, int, float, Fraction, tuple, list, str)) or v is None:
        return bool(v)
    if isinstance(v, (SymObj, Rng, Ref)):
        return True
    raise Untranslatable(f"truthiness of {v!r}")


def _abs(t: Any) -> Any:
    return z3.If(t >= 0, t, -t)


def finite(t: Any) -> Any:
    t = to_real(t)
    return z3.And(t <= DBL_MAX, t >= -DBL_MAX)


def zmin(a: Any, b: Any) -> Any:
    # CPython: min(a, b) returns b only if b < a
    return z3.If(b < a, b, a)


def zmax(a: Any, b: Any) -> Any:
    return z3.If(b > a, b, a)


class Translator:
    """Symbolic evaluator over the current source of ``workflows.retry_policy``."""

    def __init__(self) -> None:
        import workflows.retry_policy as rp

        self.module = rp
        self.file = inspect.getsourcefile(rp) or ""
        self.source = inspect.getsource(rp)
        self.tree = ast.parse(self.source)
        self.classes: Dict[str, ast.ClassDef] = {}
        self.funcs: Dict[str, ast.FunctionDef] = {}
        self.modnames: Dict[str, Ref] = {}
        for node in self.tree.body:
            if isinstance(node, ast.ClassDef):
                self.classes[node.name] = node
            elif isinstance(node, ast.FunctionDef):
                self.funcs[node.name] = node
            elif isinstance(node, ast.Import):
                for a in node.names:
                    self.modnames[a.asname or a.name] = Ref("module", a.name)
            elif isinstance(node, ast.ImportFrom):
                for a in node.names:
                    self.modnames[a.asname or a.name] = Ref("type", f"{node.module}.{a.name}")
        self.U = z3.Function("U", z3.IntSort(), z3.IntSort(), z3.RealSort(), z3.RealSort(), z3.RealSort())
        self.axioms: List[Any] = []  # range facts of the uniform draws
        self.module_draws: List[Any] = []  # fresh vars standing for reads of the module-level RNG
        self.seeded_draws: List[Any] = []
        self._fresh = 0
        self.notes: List[str] = []
        self.int_ranges: Dict[str, Tuple[int, int]] = {}  # name of a symbolic Int -> (lo, hi) it is ASSUMED to lie in (C07)

    # ------------------------------------------------------------------ class model
    def _mro(self, cls: str) -> List[str]:
        out = []
        cur: Optional[str] = cls
        while cur is not None:
            if cur not in self.classes:
                raise Untranslatable(f"unknown class {cur}")
            out.append(cur)
            bases = self.classes[cur].bases
            if len(bases) > 1:
                raise Untranslatable(f"multiple inheritance in {cur}")
            if not bases:
                cur = None
            elif isinstance(bases[0], ast.Name) and bases[0].id in self.classes:
                cur = bases[0].id
            elif isinstance(bases[0], ast.Name) and bases[0].id in ("object", "Protocol"):
                cur = None
            else:
                raise Untranslatable(f"base of {cur} not understood: {ast.dump(bases[0])}")
        return out

    def _find_method(self, cls: str, name: str, after: Optional[str] = None) -> Tuple[str, ast.FunctionDef]:
        mro = self._mro(cls)
        if after is not None:
            mro = mro[mro.index(after) + 1 :]
        for c in mro:
            for node in self.classes[c].body:
                if isinstance(node, ast.FunctionDef) and node.name == name:
                    if node.decorator_list:
                        raise Untranslatable(f"decorated method {c}.{name}")
                    return c, node
        raise Untranslatable(f"no method {name} on {cls}")

    def has_class(self, cls: str) -> bool:
        return cls in self.classes

    # ------------------------------------------------------------------ calls
    def _bind(self, fn: ast.FunctionDef, args: List[Any], kwargs: Dict[str, Any], owner: str) -> Dict[str, Any]:
        a = fn.args
        if a.posonlyargs or a.kwarg:
            raise Untranslatable(f"signature of {fn.name}")
        env: Dict[str, Any] = {}
        names = [x.arg for x in a.args]
        pos = list(args)
        if len(pos) > len(names) and a.vararg is None:
            raise Untranslatable(f"too many positional arguments for {fn.name}")
        for n, v in zip(names, pos):
            env[n] = v
        if a.vararg is not None:
            env[a.vararg.arg] = tuple(pos[len(names) :])
        defaults = dict(zip(names[len(names) - len(a.defaults) :], a.defaults))
        kwdefaults = {k.arg: d for k, d in zip(a.kwonlyargs, a.kw_defaults)}
        allowed = set(names) | {k.arg for k in a.kwonlyargs}
        for k, v in kwargs.items():
            if k not in allowed or k in env:
                raise Untranslatable(f"bad keyword {k} for {fn.name}")
            env[k] = v
        tmp = Path()
        for n in names:
            if n not in env:
                if n not in defaults:
                    raise Untranslatable(f"missing argument {n} for {fn.name}")
                env[n] = self.eval(defaults[n], {}, tmp, owner)
        for k in a.kwonlyargs:
            if k.arg not in env:
                d = kwdefaults.get(k.arg)
                if d is None:
                    raise Untranslatable(f"missing kw-only argument {k.arg} for {fn.name}")
                env[k.arg] = self.eval(d, {}, tmp, owner)
        if tmp.side or tmp.pc:
            raise Untranslatable("side conditions in default values")
        return env

    def run_function(self, fn: ast.FunctionDef, env: Dict[str, Any], owner: str) -> List[Tuple[Path, Any]]:
        """All paths through the body: [(path, return value | Raised)]."""
        outs = []
        for kind, path, _env, val in self._block(fn.body, env, Path(), owner):
            if kind == "fall":
                outs.append((path, None))
            elif kind == "ret":
                outs.append((path, val))
            else:
                outs.append((path, val))
        return outs

    def construct(self, cls: str, *args: Any, **kwargs: Any) -> SymObj:
        obj = SymObj(cls)
        owner, init = self._find_method(cls, "__init__") if self._has_method(cls, "__init__") else (cls, None)
        if init is None:
            if args or kwargs:
                raise Untranslatable(f"{cls}() takes no arguments")
            return obj
        env = self._bind(init, [obj] + list(args), dict(kwargs), owner)
        outs = self.run_function(init, env, owner)
        self._only_plain(outs, f"{cls}.__init__")
        return obj

    def _has_method(self, cls: str, name: str) -> bool:
        try:
            self._find_method(cls, name)
            return True
        except Untranslatable:
            return False

    def _only_plain(self, outs: List[Tuple[Path, Any]], what: str) -> Any:
        if len(outs) != 1:
            raise Untranslatable(f"{what}: {len(outs)} paths where exactly one is supported")
        path, val = outs[0]
        if isinstance(val, Raised):
            raise Untranslatable(f"{what} raises {val.name}")
        if path.pc or path.side:
            raise Untranslatable(f"{what}: conditional/side-conditioned constructor")
        return val

    def call_method(self, obj: SymObj, name: str, args: List[Any], kwargs: Dict[str, Any], after: Optional[str] = None) -> List[Tuple[Path, Any]]:
        owner, fn = self._find_method(obj.cls, name, after)
        env = self._bind(fn, [obj] + list(args), dict(kwargs), owner)
        return self.run_function(fn, env, owner)

    def call(self, obj: SymObj, *args: Any, **kwargs: Any) -> List[Tuple[Path, Any]]:
        """obj(*args, **kwargs) — every path with its condition, side conditions and value."""
        return self.call_method(obj, "__call__", list(args), dict(kwargs))

    def call_function(self, name: str, *args: Any, **kwargs: Any) -> Any:
        """Evaluate a module-level function of the current source (e.g. ``wait_full_jitter``) that returns one value."""
        if name not in self.funcs:
            raise Untranslatable(f"unknown function {name}")
        f = self.funcs[name]
        return self._only_plain(self.run_function(f, self._bind(f, list(args), dict(kwargs), ""), ""), name)

    def declare_int_range(self, k: Any, lo: int, hi: int) -> None:
        """State that the symbolic Int ``k`` lies in lo..hi (the query must carry the same assumption): ``x ** k`` is then
        translated as the exact case table  k==lo -> x**lo, ..., k==hi -> x**hi."""
        if not (is_z3(k) and z3.is_int(k) and z3.is_const(k)) or lo < 0 or hi < lo:
            raise Untranslatable("declare_int_range: a symbolic Int constant and 0 <= lo <= hi are required")
        self.int_ranges[str(k)] = (lo, hi)

    def power(self, a: Any, b: Any) -> Any:
        """Exact value of the float power ``a ** b`` as a Real term (no side condition added here).  a: Real term or a
        concrete float/Fraction; b: concrete non-negative int, or a symbolic Int with a declared range."""
        if isinstance(a, bool) or (isinstance(a, int) and not isinstance(a, bool)) or (is_z3(a) and z3.is_int(a)):
            raise Untranslatable("int-typed base of ** (Python ints do not overflow)")

        def one(j: int) -> Any:
            if is_z3(a):
                return _pw(a, j)
            return z3.RealVal(str(Fraction(a) ** j))

        if isinstance(b, int) and not isinstance(b, bool):
            if b < 0:
                raise Untranslatable("** with a negative exponent")
            return one(b)
        if is_z3(b) and z3.is_int(b) and str(b) in self.int_ranges:
            lo, hi = self.int_ranges[str(b)]
            t = one(hi)
            for j in range(hi - 1, lo - 1, -1):
                t = z3.If(b == j, one(j), t)
            return t
        raise Untranslatable("** with a non-concrete exponent of undeclared range")

    # ------------------------------------------------------------------ statements
    def _block(self, stmts: List[ast.stmt], env: Dict[str, Any], path: Path, owner: str):
        states = [(path, env)]
        outs = []
        for st in stmts:
            nxt = []
            for p, e in states:
                for kind, p2, e2, val in self._stmt(st, e, p, owner):
                    if kind == "fall":
                        nxt.append((p2, e2))
                    else:
                        outs.append((kind, p2, e2, val))
            states = nxt
        for p, e in states:
            outs.append(("fall", p, e, None))
        return outs

    def _stmt(self, st: ast.stmt, env: Dict[str, Any], path: Path, owner: str):
        if isinstance(st, ast.Expr):
            if isinstance(st.value, ast.Constant):
                return [("fall", path, env, None)]
            self.eval(st.value, env, path, owner)
            return [("fall", path, env, None)]
        if isinstance(st, ast.Pass):
            return [("fall", path, env, None)]
        if isinstance(st, (ast.Assign, ast.AnnAssign)):
            if isinstance(st, ast.Assign):
                if len(st.targets) != 1:
                    raise Untranslatable("multiple assignment targets")
                tgt = st.targets[0]
                value = st.value
            else:
                tgt = st.target
                value = st.value
                if value is None:
                    return [("fall", path, env, None)]
            v = self.eval(value, env, path, owner)
            env = dict(env)
            if isinstance(tgt, ast.Name):
                env[tgt.id] = v
            elif isinstance(tgt, ast.Attribute) and isinstance(tgt.value, ast.Name) and isinstance(env.get(tgt.value.id), SymObj):
                env[tgt.value.id].fields[tgt.attr] = v
            else:
                raise Untranslatable(f"assignment target {ast.dump(tgt)}")
            return [("fall", path, env, None)]
        if isinstance(st, ast.Return):
            v = None if st.value is None else self.eval(st.value, env, path, owner)
            return [("ret", path, env, v)]
        if isinstance(st, ast.Raise):
            name = "Exception"
            exc = st.exc
            if isinstance(exc, ast.Call):
                exc = exc.func
            if isinstance(exc, ast.Name):
                name = exc.id
            return [("raise", path, env, Raised(name))]
        if isinstance(st, ast.If):
            t = to_bool(self.eval(st.test, env, path, owner))
            if isinstance(t, bool):
                return self._block(st.body if t else st.orelse, env, path, owner)
            p1, p2 = path.fork(), path.fork()
            p1.pc.append(t)
            p2.pc.append(z3.Not(t))
            return self._block(st.body, dict(env), p1, owner) + self._block(st.orelse, dict(env), p2, owner)
        if isinstance(st, ast.Try):
            return self._try(st, env, path, owner)
        raise Untranslatable(f"statement {type(st).__name__} at line {getattr(st, 'lineno', '?')}")

    def _try(self, st: ast.Try, env: Dict[str, Any], path: Path, owner: str):
        """try/except OverflowError (or ArithmeticError/Exception family naming it): the body runs when none of
        its ``**`` overflows; otherwise the handler runs.  The body must be free of visible effects before the raise
        (only local assignments), which is checked by construction: effects are local env updates that the handler
        path does not see."""
        if st.finalbody or st.orelse or len(st.handlers) != 1:
            raise Untranslatable("try shape")
        h = st.handlers[0]
        names = []
        if isinstance(h.type, ast.Name):
            names = [h.type.id]
        elif isinstance(h.type, ast.Tuple):
            names = [x.id for x in h.type.elts if isinstance(x, ast.Name)]
        if not names or any(n not in ("OverflowError", "ArithmeticError") for n in names):
            raise Untranslatable("except clause other than OverflowError/ArithmeticError")
        inner = Path()
        outs = []
        body_outs = self._block(st.body, dict(env), inner, owner)
        for kind, p, e, val in body_outs:
            if kind == "raise":
                raise Untranslatable("raise inside try body")
            pows = [c for (lbl, c) in p.side if lbl == "pow"]
            rest = [(lbl, c) for (lbl, c) in p.side if lbl != "pow"]
            ok = z3.And(*pows) if pows else z3.BoolVal(True)
            good = path.fork()
            good.pc.extend(p.pc + [ok])
            good.side.extend(rest)
            outs.append((kind, good, e, val))
            if pows:
                bad = path.fork()
                bad.pc.extend(p.pc + [z3.Not(ok)])
                outs.extend(self._block(h.body, dict(env), bad, owner))
        return outs

    # ------------------------------------------------------------------ expressions
    def fresh(self, prefix: str) -> Any:
        self._fresh += 1
        return z3.Real(f"{prefix}!{self._fresh}")

    def _merge_call(self, outs: List[Tuple[Path, Any]], path: Path, what: str) -> Any:
        """Fold a callee's paths into one value inside the caller's current path."""
        if not outs:
            raise Untranslatable(f"{what}: no paths")
        if len(outs) == 1:
            p, v = outs[0]
            if isinstance(v, Raised):
                raise Untranslatable(f"{what} always raises {v.name}")
            path.pc.extend(p.pc)
            path.side.extend(p.side)
            return v
        result = None
        for p, v in reversed(outs):
            if isinstance(v, Raised):
                raise Untranslatable(f"{what}: conditional raise in nested call")
            cond = z3.And(*p.pc) if p.pc else z3.BoolVal(True)
            for lbl, c in p.side:
                path.side.append((lbl, z3.Implies(cond, c)))
            if v is None or not is_num(v):
                raise Untranslatable(f"{what}: cannot merge non-numeric results")
            result = to_real(v) if result is None else z3.If(cond, to_real(v), result)
        return result

    def eval(self, e: ast.expr, env: Dict[str, Any], path: Path, owner: str) -> Any:  # noqa: C901
        if isinstance(e, ast.Constant):
            if isinstance(e.value, (int, float, bool, str)) or e.value is None:
                return e.value
            raise Untranslatable(f"constant {e.value!r}")
        if isinstance(e, ast.Name):
            if e.id in env:
                return env[e.id]
            if e.id in self.classes:
                return Ref("class", e.id)
            if e.id in self.funcs:
                return Ref("func", e.id)
            if e.id in self.modnames:
                return self.modnames[e.id]
            if e.id in ("max", "min", "float", "int", "len", "sum", "isinstance", "abs", "any", "all", "super", "callable", "bool"):
                return Ref("builtin", e.id)
            raise Untranslatable(f"name {e.id}")
        if isinstance(e, ast.Tuple):
            return tuple(self.eval(x, env, path, owner) for x in e.elts)
        if isinstance(e, ast.Attribute):
            base = self.eval(e.value, env, path, owner)
            if isinstance(base, SymObj):
                if e.attr in base.fields:
                    return base.fields[e.attr]
                if self._has_method(base.cls, e.attr):
                    return Bound(base, e.attr)
                raise Untranslatable(f"attribute {base.cls}.{e.attr} not assigned by __init__")
            if isinstance(base, Ref) and base.kind == "module" and base.name == "random":
                if e.attr == "Random":
                    return Ref("builtin", "random.Random")
                if e.attr == "uniform":
                    return Bound(Rng(None), "uniform")
                raise Untranslatable(f"random.{e.attr}")
            if isinstance(base, Rng) and e.attr == "uniform":
                return Bound(base, "uniform")
            if isinstance(base, SuperProxy):
                return Bound(base, e.attr)
            raise Untranslatable(f"attribute .{e.attr} of {base!r}")
        if isinstance(e, ast.IfExp):
            t = to_bool(self.eval(e.test, env, path, owner))
            if isinstance(t, bool):
                return self.eval(e.body if t else e.orelse, env, path, owner)
            pa, pb = Path(), Path()
            a = self.eval(e.body, env, pa, owner)
            b = self.eval(e.orelse, env, pb, owner)
            for lbl, c in pa.side:
                path.side.append((lbl, z3.Implies(t, c)))
            for lbl, c in pb.side:
                path.side.append((lbl, z3.Implies(z3.Not(t), c)))
            if not (is_num(a) and is_num(b)):
                raise Untranslatable("symbolic conditional over non-numeric values")
            return z3.If(t, to_real(a), to_real(b))
        if isinstance(e, ast.UnaryOp):
            v = self.eval(e.operand, env, path, owner)
            if isinstance(e.op, ast.Not):
                t = to_bool(v)
                return (not t) if isinstance(t, bool) else z3.Not(t)
            if isinstance(e.op, ast.USub):
                if is_z3(v):
                    return -v
                if is_num(v):
                    return -v
            if isinstance(e.op, ast.UAdd) and is_num(v):
                return v
            raise Untranslatable(f"unary {type(e.op).__name__}")
        if isinstance(e, ast.BoolOp):
            is_and = isinstance(e.op, ast.And)
            acc: List[Any] = []
            for sub in e.values:
                sp = Path()
                t = to_bool(self.eval(sub, env, sp, owner))
                if acc and sp.side:
                    raise Untranslatable("side-conditioned operand after a symbolic short-circuit")
                path.side.extend(sp.side)
                if isinstance(t, bool):
                    if is_and and not t:
                        return z3.BoolVal(False) if acc else False
                    if (not is_and) and t:
                        return z3.BoolVal(True) if acc else True
                    continue
                acc.append(t)
            if not acc:
                return is_and
            # NOTE: value-returning and/or (x or y) is only supported in boolean position
            return z3.And(*acc) if is_and else z3.Or(*acc)
        if isinstance(e, ast.Compare):
            left = self.eval(e.left, env, path, owner)
            conds = []
            for op, rhs_e in zip(e.ops, e.comparators):
                right = self.eval(rhs_e, env, path, owner)
                conds.append(self._compare(op, left, right))
                left = right
            if all(isinstance(c, bool) for c in conds):
                return all(conds)
            return z3.And(*[z3.BoolVal(c) if isinstance(c, bool) else c for c in conds])
        if isinstance(e, ast.BinOp):
            a = self.eval(e.left, env, path, owner)
            b = self.eval(e.right, env, path, owner)
            return self._binop(e.op, a, b, path, getattr(e, "lineno", 0))
        if isinstance(e, ast.Subscript):
            base = self.eval(e.value, env, path, owner)
            idx = self.eval(e.slice, env, path, owner)
            if isinstance(base, tuple) and isinstance(idx, int) and not isinstance(idx, bool):
                if not (-len(base) <= idx < len(base)):
                    raise Untranslatable("IndexError on a concrete index")
                return base[idx]
            raise Untranslatable("subscript with non-concrete index / non-tuple base")
        if isinstance(e, ast.Call):
            return self._call(e, env, path, owner)
        raise Untranslatable(f"expression {type(e).__name__} at line {getattr(e, 'lineno', '?')}")

    def _compare(self, op: ast.cmpop, a: Any, b: Any) -> Any:
        if isinstance(op, (ast.Is, ast.IsNot)):
            if a is None or b is None:
                same = a is None and b is None
                return same if isinstance(op, ast.Is) else not same
            raise Untranslatable("'is' between non-None values")
        if a is POS_INF or b is POS_INF:
            raise Untranslatable("comparison with inf")
        if not (is_num(a) and is_num(b)):
            if isinstance(op, (ast.Eq, ast.NotEq)) and not is_z3(a) and not is_z3(b) and not isinstance(a, (SymObj, Rng)) and not isinstance(b, (SymObj, Rng)):
                return (a == b) if isinstance(op, ast.Eq) else (a != b)
            raise Untranslatable(f"comparison of {a!r} and {b!r}")
        if not is_z3(a) and not is_z3(b):
            fa, fb = Fraction(a), Fraction(b)
            return {ast.Lt: fa < fb, ast.LtE: fa <= fb, ast.Gt: fa > fb, ast.GtE: fa >= fb, ast.Eq: fa == fb, ast.NotEq: fa != fb}[type(op)]
        if is_z3(a) and is_z3(b) and z3.is_int(a) and z3.is_int(b):
            x, y = a, b
        elif is_z3(a) and z3.is_int(a) and isinstance(b, int):
            x, y = a, z3.IntVal(b)
        elif is_z3(b) and z3.is_int(b) and isinstance(a, int):
            x, y = z3.IntVal(a), b
        else:
            x, y = to_real(a), to_real(b)
        if isinstance(op, ast.Lt):
            return x < y
        if isinstance(op, ast.LtE):
            return x <= y
        if isinstance(op, ast.Gt):
            return x > y
        if isinstance(op, ast.GtE):
            return x >= y
        if isinstance(op, ast.Eq):
            return x == y
        if isinstance(op, ast.NotEq):
            return x != y
        raise Untranslatable(f"comparison {type(op).__name__}")

    def _binop(self, op: ast.operator, a: Any, b: Any, path: Path, lineno: int) -> Any:
        if a is POS_INF or b is POS_INF:
            raise Untranslatable("arithmetic on inf")
        if not (is_num(a) and is_num(b)):
            raise Untranslatable(f"arithmetic on {a!r}, {b!r}")
        if isinstance(op, ast.Pow):
            if is_z3(b) and z3.is_int(b) and str(b) in self.int_ranges:
                t = self.power(a, b)  # exact case table over the declared range of the exponent
                path.side.append(("pow", finite(t)))
                return t
            if isinstance(b, bool) or not isinstance(b, int) or b < 0:
                raise Untranslatable("** with a non-concrete or negative exponent")
            if not is_z3(a):
                if isinstance(a, int):
                    return a**b  # int ** int never overflows
                r = Fraction(a) ** b
                t = z3.RealVal(str(r))
                path.side.append(("pow", finite(t)))
                return t
            if z3.is_int(a):
                raise Untranslatable("int-typed symbolic base of ** (Python ints do not overflow)")
            t = z3.RealVal(1)
            for _ in range(b):
                t = t * a
            path.side.append(("pow", finite(t)))
            return t
        if not is_z3(a) and not is_z3(b):
            if isinstance(a, int) and isinstance(b, int) and not isinstance(op, ast.Div):
                return {ast.Add: a + b, ast.Sub: a - b, ast.Mult: a * b}[type(op)]
            fa, fb = Fraction(a), Fraction(b)
            if isinstance(op, ast.Div):
                if fb == 0:
                    raise Untranslatable("division by a concrete zero")
                return fa / fb
            return {ast.Add: fa + fb, ast.Sub: fa - fb, ast.Mult: fa * fb}[type(op)]
        both_int = all((isinstance(v, int) and not isinstance(v, bool)) or (is_z3(v) and z3.is_int(v)) for v in (a, b))
        if both_int and not isinstance(op, ast.Div):
            x = a if is_z3(a) else z3.IntVal(a)
            y = b if is_z3(b) else z3.IntVal(b)
            return {ast.Add: x + y, ast.Sub: x - y, ast.Mult: x * y}[type(op)]
        x, y = to_real(a), to_real(b)
        for v in (a, b):
            if is_z3(v) and not z3.is_const(v):  # a computed operand must itself be finite (else inf/nan in CPython)
                path.side.append(("operand", finite(v)))
        if isinstance(op, ast.Add):
            return x + y
        if isinstance(op, ast.Sub):
            return x - y
        if isinstance(op, ast.Mult):
            return x * y
        if isinstance(op, ast.Div):
            path.side.append(("div", y != 0))
            return x / y
        raise Untranslatable(f"operator {type(op).__name__}")

    def _call(self, e: ast.Call, env: Dict[str, Any], path: Path, owner: str) -> Any:  # noqa: C901
        # generator arguments: sum(... for x in tup) / any / all
        if len(e.args) == 1 and isinstance(e.args[0], ast.GeneratorExp) and isinstance(e.func, ast.Name) and e.func.id in ("sum", "any", "all") and e.func.id not in env:
            gen = e.args[0]
            if len(gen.generators) != 1 or gen.generators[0].ifs or gen.generators[0].is_async or not isinstance(gen.generators[0].target, ast.Name):
                raise Untranslatable("generator shape")
            it = self.eval(gen.generators[0].iter, env, path, owner)
            if not isinstance(it, tuple):
                raise Untranslatable("generator over a non-concrete sequence")
            var = gen.generators[0].target.id
            vals = []
            for item in it:
                e2 = dict(env)
                e2[var] = item
                vals.append(self.eval(gen.elt, e2, path, owner))
            if e.func.id == "sum":
                acc: Any = 0
                for v in vals:
                    acc = self._binop(ast.Add(), acc, v, path, e.lineno)
                return acc
            ts = [to_bool(v) for v in vals]
            if all(isinstance(t, bool) for t in ts):
                return any(ts) if e.func.id == "any" else all(ts)
            zs = [z3.BoolVal(t) if isinstance(t, bool) else t for t in ts]
            return z3.Or(*zs) if e.func.id == "any" else z3.And(*zs)
        if any(isinstance(a, ast.Starred) for a in e.args) or any(k.arg is None for k in e.keywords):
            raise Untranslatable("star arguments")
        if isinstance(e.func, ast.Name) and e.func.id == "super" and not e.args:
            raise Untranslatable("bare super() outside attribute call")
        # super().__init__(...)
        if isinstance(e.func, ast.Attribute) and isinstance(e.func.value, ast.Call) and isinstance(e.func.value.func, ast.Name) and e.func.value.func.id == "super":
            if e.func.value.args or "self" not in env:
                raise Untranslatable("super(...) with arguments")
            args = [self.eval(a, env, path, owner) for a in e.args]
            kwargs = {k.arg: self.eval(k.value, env, path, owner) for k in e.keywords}
            outs = self.call_method(env["self"], e.func.attr, args, kwargs, after=owner)
            return self._merge_or_none(outs, path, f"super().{e.func.attr}")
        fn = self.eval(e.func, env, path, owner)
        args = [self.eval(a, env, path, owner) for a in e.args]
        kwargs = {k.arg: self.eval(k.value, env, path, owner) for k in e.keywords}
        if isinstance(fn, SymObj):
            return self._merge_call(self.call(fn, *args, **kwargs), path, f"{fn.cls}()")
        if isinstance(fn, Bound):
            if isinstance(fn.obj, Rng) and fn.name == "uniform":
                if kwargs or len(args) != 2:
                    raise Untranslatable("uniform signature")
                return self._uniform(fn.obj, args[0], args[1], path)
            if isinstance(fn.obj, SymObj):
                return self._merge_or_none(self.call_method(fn.obj, fn.name, args, kwargs), path, f"{fn.obj.cls}.{fn.name}")
            raise Untranslatable("bound call")
        if isinstance(fn, Ref):
            if fn.kind == "class":
                if path.pc:
                    pass
                return self.construct(fn.name, *args, **kwargs)
            if fn.kind == "func":
                f = self.funcs[fn.name]
                outs = self.run_function(f, self._bind(f, args, kwargs, ""), "")
                return self._merge_or_none(outs, path, fn.name)
            if fn.kind == "builtin":
                return self._builtin(fn.name, args, kwargs, path, e.lineno)
            if fn.kind == "type" and fn.name == "typing.cast" and len(args) == 2:
                return args[1]
        raise Untranslatable(f"call of {fn!r} at line {e.lineno}")

    def _merge_or_none(self, outs: List[Tuple[Path, Any]], path: Path, what: str) -> Any:
        if len(outs) == 1 and not isinstance(outs[0][1], Raised):
            p, v = outs[0]
            path.pc.extend(p.pc)
            path.side.extend(p.side)
            return v
        return self._merge_call(outs, path, what)

    def _uniform(self, rng: Rng, lo: Any, hi: Any, path: Path) -> Any:
        lo_r, hi_r = to_real(lo), to_real(hi)
        if rng.seed is None:
            u = self.fresh("module_random")
            self.module_draws.append(u)
        else:
            u = self.U(rng.seed, z3.IntVal(rng.draws), lo_r, hi_r)
            self.seeded_draws.append(u)
        rng.draws += 1
        # a + (b-a)*random(), random() in [0,1): the value lies between a and b (either order)
        self.axioms.append(z3.And(u >= zmin(lo_r, hi_r), u <= zmax(lo_r, hi_r)))
        return u

    def _builtin(self, name: str, args: List[Any], kwargs: Dict[str, Any], path: Path, lineno: int) -> Any:
        if kwargs:
            raise Untranslatable(f"keyword arguments to {name}")
        if name in ("max", "min"):
            if len(args) < 2:
                raise Untranslatable(f"{name} of an iterable")
            acc = args[0]
            for b in args[1:]:
                acc = self._minmax(name, acc, b)
            return acc
        if name == "float" and len(args) == 1:
            v = args[0]
            if isinstance(v, str):
                if v.strip().lower() in ("inf", "+inf", "infinity"):
                    return POS_INF
                raise Untranslatable(f"float({v!r})")
            if v is POS_INF:
                return v
            if not is_num(v):
                raise Untranslatable(f"float({v!r})")
            if is_z3(v):
                return to_real(v)
            return Fraction(v)
        if name == "len" and len(args) == 1 and isinstance(args[0], tuple):
            return len(args[0])
        if name == "abs" and len(args) == 1 and is_num(args[0]):
            return _abs(to_real(args[0])) if is_z3(args[0]) else abs(args[0])
        if name == "isinstance" and len(args) == 2:
            v, t = args
            if isinstance(t, Ref) and t.kind == "type" and t.name == "datetime.timedelta":
                if is_num(v) or v is POS_INF:
                    return False  # parameters are numbers (assumption: no timedelta arguments)
            raise Untranslatable("isinstance other than (number, timedelta)")
        if name == "random.Random" and len(args) == 1:
            seed = args[0]
            if seed is None:
                raise Untranslatable("Random(None)")
            if isinstance(seed, int):
                seed = z3.IntVal(seed)
            if not (is_z3(seed) and z3.is_int(seed)):
                raise Untranslatable("seed is not an int")
            return Rng(seed)
        if name == "bool" and len(args) == 1:
            return to_bool(args[0])
        raise Untranslatable(f"builtin {name}/{len(args)} at line {lineno}")

    def _minmax(self, name: str, a: Any, b: Any) -> Any:
        if a is POS_INF or b is POS_INF:
            other = b if a is POS_INF else a
            if other is POS_INF:
                return POS_INF
            if not is_num(other):
                raise Untranslatable("min/max of inf and non-number")
            return other if name == "min" else POS_INF
        if not (is_num(a) and is_num(b)):
            raise Untranslatable(f"{name} of non-numbers")
        if not is_z3(a) and not is_z3(b):
            fa, fb = Fraction(a), Fraction(b)
            if name == "min":
                return b if fb < fa else a
            return b if fb > fa else a
        x, y = to_real(a), to_real(b)
        return zmin(x, y) if name == "min" else zmax(x, y)


# ---------------------------------------------------------------------- summarising a call


class CallSummary:
    """value: Real term (``If`` over the returning paths); raises: Bool (some path ends in raise, or a ``**``
    overflows = OverflowError); diverges: Bool (an arithmetic operand is non-finite: the Real model is not faithful)."""

    def __init__(self, outs: List[Tuple[Path, Any]]) -> None:
        value = None
        raises = []
        diverges = []
        for p, v in reversed(outs):
            cond = z3.And(*p.pc) if p.pc else z3.BoolVal(True)
            for lbl, c in p.side:
                if lbl == "pow":
                    raises.append(z3.And(cond, z3.Not(c)))
                else:
                    diverges.append(z3.And(cond, z3.Not(c)))
            if isinstance(v, Raised):
                raises.append(cond)
                continue
            if v is POS_INF:
                raise Untranslatable("result is inf")
            if v is None or not is_num(v):
                raise Untranslatable(f"non-numeric result {v!r}")
            value = to_real(v) if value is None else z3.If(cond, to_real(v), value)
        if value is None:
            raise Untranslatable("no returning path")
        self.value = value
        self.raises = z3.Or(*raises) if raises else z3.BoolVal(False)
        self.diverges = z3.Or(*diverges) if diverges else z3.BoolVal(False)


class OptSummary:
    """For functions returning ``float | None`` (``next``): is_none Bool, value Real, raises/diverges as above."""

    def __init__(self, outs: List[Tuple[Path, Any]]) -> None:
        value: Any = z3.RealVal(0)
        is_none: Any = z3.BoolVal(False)
        raises = []
        diverges = []
        for p, v in reversed(outs):
            cond = z3.And(*p.pc) if p.pc else z3.BoolVal(True)
            for lbl, c in p.side:
                (raises if lbl == "pow" else diverges).append(z3.And(cond, z3.Not(c)))
            if isinstance(v, Raised):
                raises.append(cond)
                continue
            if v is None:
                is_none = z3.If(cond, z3.BoolVal(True), is_none)
            elif is_num(v):
                is_none = z3.If(cond, z3.BoolVal(False), is_none)
                value = z3.If(cond, to_real(v), value)
            else:
                raise Untranslatable(f"result {v!r}")
        self.value, self.is_none = value, is_none
        self.raises = z3.Or(*raises) if raises else z3.BoolVal(False)
        self.diverges = z3.Or(*diverges) if diverges else z3.BoolVal(False)


# ---------------------------------------------------------------------- concrete evaluation (translation validation)


def concretize(term: Any, subst: Dict[Any, Any], tr: Optional[Translator] = None, uniform_values: Optional[Dict[int, float]] = None) -> Any:
    """Evaluate a term under a concrete substitution {z3 const: python number/bool}; returns Fraction/bool."""
    pairs = []
    for k, v in subst.items():
        if z3.is_int(k):
            pairs.append((k, z3.IntVal(int(v))))
        elif z3.is_bool(k):
            pairs.append((k, z3.BoolVal(bool(v))))
        else:
            pairs.append((k, z3.RealVal(str(Fraction(v)))))
    t = z3.simplify(z3.substitute(term, *pairs))
    if z3.is_rational_value(t):
        return Fraction(t.numerator_as_long(), t.denominator_as_long())
    if z3.is_int_value(t):
        return Fraction(t.as_long())
    if z3.is_true(t):
        return True
    if z3.is_false(t):
        return False
    return t  # not ground (contains U(...) applications)


def close_to(a: Any, b: float, rel: float = 1e-9) -> bool:
    if not isinstance(a, Fraction):
        return False
    fa = float(a)
    return abs(fa - b) <= rel * max(1.0, abs(fa), abs(b))


# ---------------------------------------------------------------------- literals of the package's own tests


def package_test_cases() -> List[Dict[str, Any]]:
    """Read tests/test_retry_policy.py of the package by AST: ``w = <strategy ctor with literal args>`` followed by
    ``assert w(<int>) == <number>``.  Returns [{'ctor': ast.expr source, 'attempts': int}] — used only as INPUTS for
    translation validation (encoding vs CPython), not as an oracle."""
    from vlib import paths

    fn = os.path.join(paths.PKG, "llama-index-workflows", "tests", "test_retry_policy.py")
    if not os.path.exists(fn):
        return []
    tree = ast.parse(open(fn).read())
    cases = []
    for node in ast.walk(tree):
        if not isinstance(node, ast.FunctionDef):
            continue
        ctors: Dict[str, ast.expr] = {}
        for st in node.body:
            if isinstance(st, ast.Assign) and len(st.targets) == 1 and isinstance(st.targets[0], ast.Name) and isinstance(st.value, ast.Call):
                ctors[st.targets[0].id] = st.value
            for sub in ast.walk(st):
                if isinstance(sub, ast.Call) and isinstance(sub.func, ast.Name) and sub.func.id in ctors and sub.args and isinstance(sub.args[0], ast.Constant) and isinstance(sub.args[0].value, int):
                    seed = None
                    for k in sub.keywords:
                        if k.arg == "seed" and isinstance(k.value, ast.Constant):
                            seed = k.value.value
                    cases.append({"ctor": ctors[sub.func.id], "attempts": sub.args[0].value, "seed": seed, "test": node.name})
    return cases


_WAIT_NAMES = (
    "wait_fixed", "wait_none", "wait_exponential", "wait_incrementing", "wait_random", "wait_exponential_jitter",
    "wait_random_exponential", "wait_full_jitter", "wait_chain", "wait_combine",
)


def build_from_ast(tr: Translator, node: ast.expr) -> Tuple[Any, Any]:
    """(translated object, real object) from a constructor expression with literal arguments; raises
    Untranslatable/ValueError when the expression is not such a literal constructor tree."""
    import workflows.retry_policy as rp

    def lit(n: ast.expr) -> Any:
        if isinstance(n, ast.Constant) and isinstance(n.value, (int, float)) and not isinstance(n.value, bool):
            return n.value
        if isinstance(n, ast.UnaryOp) and isinstance(n.op, ast.USub) and isinstance(n.operand, ast.Constant):
            return -n.operand.value
        raise ValueError("not a literal")

    def go(n: ast.expr) -> Tuple[Any, Any]:
        if isinstance(n, ast.BinOp) and isinstance(n.op, ast.Add):
            (ta, ra), (tb, rb) = go(n.left), go(n.right)
            return tr.construct("wait_combine", ta, tb), ra + rb
        if not (isinstance(n, ast.Call) and isinstance(n.func, ast.Name) and n.func.id in _WAIT_NAMES):
            raise ValueError("not a wait constructor")
        t_args, r_args, t_kw, r_kw = [], [], {}, {}
        for a in n.args:
            if isinstance(a, ast.Call) or isinstance(a, ast.BinOp):
                t, r = go(a)
            else:
                v = lit(a)
                t, r = v, v
            t_args.append(t)
            r_args.append(r)
        for k in n.keywords:
            if k.arg is None:
                raise ValueError("**kwargs")
            v = lit(k.value)
            t_kw[k.arg], r_kw[k.arg] = v, v
        name = n.func.id
        real = getattr(rp, name)(*r_args, **r_kw)
        if name in tr.funcs:  # wait_full_jitter is a function
            f = tr.funcs[name]
            outs = tr.run_function(f, tr._bind(f, t_args, t_kw, ""), "")
            tobj = tr._only_plain(outs, name)
        else:
            tobj = tr.construct(name, *t_args, **t_kw)
        return tobj, real

    return go(node)


def validate_on_package_tests(tr: Translator, only: Optional[Tuple[str, ...]] = None, skip_module_reads: bool = False) -> Dict[str, int]:
    """Translation validation: for each (ctor, attempts[, seed]) literal of the package tests, the encoding evaluated
    concretely must agree with the real object in CPython (relative 1e-9; seeded draws are matched by feeding the real
    ``random.Random(seed).uniform`` value into U).  Raises RuntimeError on a mismatch."""
    import random as _random

    n_ok = n_skip = 0
    for case in package_test_cases():
        try:
            tobj, real = build_from_ast(tr, case["ctor"])
        except ValueError:
            n_skip += 1
            continue
        if only and tobj.cls not in only:
            n_skip += 1
            continue
        seed = case["seed"]
        k = case["attempts"]
        if seed is None and _reads_random(tobj):
            n_skip += 1  # unseeded jitter: no deterministic native value to compare with
            continue
        mark = len(tr.seeded_draws)
        mark_m = len(tr.module_draws)
        summ = CallSummary(tr.call(tobj, k, seed=(None if seed is None else z3.IntVal(seed))))
        if skip_module_reads and len(tr.module_draws) > mark_m:
            n_skip += 1  # (C07) a seeded call that reads the module-level generator has no value to validate against: the
            continue     # determinism obligations report it; it must not surface as an encoding error
        got = z3.simplify(summ.value)
        # resolve U(seed, i, a, b) applications with the real generator
        for u in tr.seeded_draws[mark:]:
            u_s = z3.simplify(u)
            a = concretize(u.arg(2), {})
            b = concretize(u.arg(3), {})
            idx = u.arg(1).as_long()
            if not (isinstance(a, Fraction) and isinstance(b, Fraction)):
                raise RuntimeError(f"translation validation: non-ground draw bounds in {case['test']}")
            rng = _random.Random(seed)
            val = None
            for _ in range(idx + 1):
                val = rng.uniform(float(a), float(b))
            got = z3.simplify(z3.substitute(got, (u_s, z3.RealVal(str(Fraction(val)))), (u, z3.RealVal(str(Fraction(val))))))
        native = real(k, seed=seed) if seed is not None else real(k)
        gv = concretize(got, {})
        if not close_to(gv, native):
            raise RuntimeError(f"translation validation FAILED on {case['test']}: {ast.unparse(case['ctor'])}({k}, seed={seed}) "
                               f"encoding={gv} cpython={native}")
        n_ok += 1
    return {"validated": n_ok, "skipped": n_skip}


def _reads_random(obj: Any) -> bool:
    if isinstance(obj, SymObj):
        if obj.cls in ("wait_random", "wait_exponential_jitter", "wait_random_exponential"):
            return True
        return any(_reads_random(v) for v in obj.fields.values())
    if isinstance(obj, tuple):
        return any(_reads_random(v) for v in obj)
    return False


def untranslatable(ctx: Any, name: str, err: Exception) -> None:
    """Fail closed: record an inconclusive query."""
    ctx.records.append({"name": name, "result": "untranslatable", "note": f"{type(err).__name__}: {err}"})


def frac(v: Any) -> Fraction:
    """Witness value (int / float / 'p/q' string) -> Fraction."""
    if isinstance(v, str):
        return Fraction(v)
    return Fraction(v)


# ---------------------------------------------------------------------- clocks for Engine S


class FakeTime:
    """Stands for the ``time`` module inside ONE module under test.  A single hidden instant ``t`` (shared cell) is
    observed through two clocks with independent epochs: wall = t + ow, monotonic = t + om."""

    def __init__(self, cell: List[Any], ow: Any, om: Any) -> None:
        self.cell, self.ow, self.om = cell, ow, om
        self.reads: List[str] = []

    def time(self) -> Any:
        self.reads.append("time")
        return self.cell[0] + self.ow

    def monotonic(self) -> Any:
        self.reads.append("monotonic")
        return self.cell[0] + self.om

    def __getattr__(self, name: str) -> Any:  # anything else is outside the stub
        raise AttributeError(f"FakeTime has no {name}")


class _Null:
    def __enter__(self):
        return self

    def __exit__(self, *a):
        return False


def untraced():
    """Context manager: run CONCRETE setup code (class creation, decorators, registries — no symbolic value involved)
    without CrossHair's opcode interception.  Natively a no-op.  Never wrap code that touches a symbolic value."""
    if "crosshair" in sys.modules:
        try:
            from crosshair.tracers import NoTracing, is_tracing

            if is_tracing():
                return NoTracing()
        except Exception:  # noqa: BLE001
            pass
    return _Null()


def fork_int(v: Any, lo: int, hi: int) -> int:
    """Concrete value of a (possibly symbolic) int known to lie in lo..hi, by explicit forks so that the solver
    enumerates it (one path per value)."""
    for k in range(lo, hi):
        if v == k:
            return k
    return hi


# ---------------------------------------------------------------------- strategy specifications (the DOCUMENTED side)
#
# Hand-written from the docstrings of retry_policy.py / the tenacity semantics the module mirrors — this is the
# reference, NOT derived from the code.  Retry index j = 0 is the FIRST retry (the delay after the first failure).


def _pw(b: Any, j: int) -> Any:
    t = z3.RealVal(1)
    for _ in range(j):
        t = t * b
    return t


class _RecordingRandom:
    """Native replay helper: stands for the ``random`` module attribute of retry_policy; records uniform() ranges and
    returns the draw value of the solver's model (``value``, when it lies in the range) — the RNG is environment."""

    def __init__(self, value: Optional[float] = None) -> None:
        self.ranges: List[Tuple[float, float]] = []
        self.value = value
        outer = self

        class _R:
            def __init__(self, seed: Any = None) -> None:
                self.seed = seed

            def uniform(self, a: float, b: float) -> float:
                return outer.uniform(a, b)

        self.Random = _R

    def uniform(self, a: float, b: float) -> float:
        self.ranges.append((a, b))
        if self.value is not None and min(a, b) <= self.value <= max(a, b):
            return self.value
        return a


def jitter_spec(spec: "Spec") -> Optional["Spec"]:
    """The (single) additive-jitter leaf of a spec tree, if any."""
    if isinstance(spec, ExpJitterSpec):
        return spec
    for c in getattr(spec, "children", []):
        j = jitter_spec(c)
        if j is not None:
            return j
    return None


class Spec:
    name = "?"
    params: List[str] = []
    jittered = False

    def __init__(self, prefix: str = "") -> None:
        self.prefix = prefix

    def p(self, P: Dict[str, Any], n: str) -> Any:
        return P[self.prefix + n]

    def all_params(self) -> List[str]:
        return [self.prefix + n for n in self.params]

    def kwargs(self, P: Dict[str, Any]) -> Dict[str, Any]:
        return {n: P[self.prefix + n] for n in self.params}

    def build(self, tr: Translator, P: Dict[str, Any]) -> SymObj:
        return tr.construct(self.name, **self.kwargs(P))

    def real(self, V: Dict[str, Any]) -> Any:
        import workflows.retry_policy as rp

        return getattr(rp, self.name)(**{n: float(V[self.prefix + n]) for n in self.params})

    def valid(self, P: Dict[str, Any]) -> List[Any]:
        return [P[n] >= 0 for n in self.all_params()]

    # documented delay at retry index j (z3 term); `draw` gives the term of this strategy's own uniform draw
    def ref(self, j: int, P: Dict[str, Any], seed: Any, U: Any) -> Any:
        raise NotImplementedError

    def ref_native(self, j: int, V: Dict[str, Any], seed: Optional[int], draw: Optional[float] = None) -> float:
        raise NotImplementedError

    # documented bounds of the delay returned for attempts = k: (lower, upper) z3 terms
    def bounds(self, k: int, P: Dict[str, Any]) -> Tuple[Any, Any]:
        raise NotImplementedError


class FixedSpec(Spec):
    name = "wait_fixed"
    params = ["wait"]

    def ref(self, j, P, seed, U):
        return to_real(self.p(P, "wait"))

    def ref_native(self, j, V, seed, draw=None):
        return float(V[self.prefix + "wait"])

    def bounds(self, k, P):
        return self.p(P, "wait"), self.p(P, "wait")


class ExponentialSpec(Spec):
    """'Wait with exponentially increasing delays, clamped between min and max'; first retry = multiplier."""

    name = "wait_exponential"
    params = ["multiplier", "exp_base", "max", "min"]

    def valid(self, P):
        return super().valid(P) + [self.p(P, "min") <= self.p(P, "max")]

    def _clamped(self, j, P):
        m, b, mx, mn = (self.p(P, n) for n in self.params)
        return zmax(zmax(z3.RealVal(0), mn), zmin(m * _pw(b, j), mx))

    def ref(self, j, P, seed, U):
        return self._clamped(j, P)

    def ref_native(self, j, V, seed, draw=None):
        m, b, mx, mn = (float(V[self.prefix + n]) for n in self.params)
        return max(max(0.0, mn), min(m * b**j, mx))

    def bounds(self, k, P):
        return self.p(P, "min"), self.p(P, "max")


class IncrementingSpec(Spec):
    """'The delay starts at start and increases by increment on each retry, capped by max and never below zero'."""

    name = "wait_incrementing"
    params = ["start", "increment", "max"]

    def ref(self, j, P, seed, U):
        s, inc, mx = (self.p(P, n) for n in self.params)
        return zmax(z3.RealVal(0), zmin(s + inc * j, mx))

    def ref_native(self, j, V, seed, draw=None):
        s, inc, mx = (float(V[self.prefix + n]) for n in self.params)
        return max(0.0, min(s + inc * j, mx))

    def bounds(self, k, P):
        return z3.RealVal(0), self.p(P, "max")


class IncrementingNoMaxSpec(Spec):
    """wait_incrementing with the default max (inf)."""

    name = "wait_incrementing"
    params = ["start", "increment"]

    def ref(self, j, P, seed, U):
        s, inc = (self.p(P, n) for n in self.params)
        return zmax(z3.RealVal(0), s + inc * j)

    def ref_native(self, j, V, seed, draw=None):
        s, inc = (float(V[self.prefix + n]) for n in self.params)
        return max(0.0, s + inc * j)

    def bounds(self, k, P):
        return z3.RealVal(0), None


class RandomSpec(Spec):
    name = "wait_random"
    params = ["min", "max"]
    jittered = True

    def valid(self, P):
        return super().valid(P) + [self.p(P, "min") <= self.p(P, "max")]

    def ref(self, j, P, seed, U):
        return U(seed, z3.IntVal(0), to_real(self.p(P, "min")), to_real(self.p(P, "max")))

    def ref_native(self, j, V, seed, draw=None):
        import random

        return random.Random(seed).uniform(float(V[self.prefix + "min"]), float(V[self.prefix + "max"]))

    def bounds(self, k, P):
        return self.p(P, "min"), self.p(P, "max")


class ExpJitterSpec(Spec):
    """'The deterministic base delay grows exponentially (initial, initial*exp_base, ...) and a random value in
    [0, jitter] is added on top', capped by max."""

    name = "wait_exponential_jitter"
    params = ["initial", "exp_base", "max", "jitter"]
    jittered = True

    def ref(self, j, P, seed, U):
        i, b, mx, jit = (self.p(P, n) for n in self.params)
        base = zmin(i * _pw(b, j), mx)
        return zmin(base + U(seed, z3.IntVal(0), z3.RealVal(0), to_real(jit)), mx)

    def ref_native(self, j, V, seed, draw=None):
        import random

        i, b, mx, jit = (float(V[self.prefix + n]) for n in self.params)
        base = min(i * b**j, mx)
        u = draw if (draw is not None and 0 <= draw <= jit) else random.Random(seed).uniform(0, jit)
        return min(base + u, mx)

    def bounds(self, k, P):
        i, b, mx, jit = (self.p(P, n) for n in self.params)
        return zmin(i * _pw(b, k), mx), mx


class RandomExpSpec(Spec):
    """'A random delay is sampled between min and the exponential upper bound for the current attempt'."""

    name = "wait_random_exponential"
    params = ["multiplier", "exp_base", "max", "min"]
    jittered = True

    def valid(self, P):
        return super().valid(P) + [self.p(P, "min") <= self.p(P, "max")]

    def upper(self, j, P):
        m, b, mx, mn = (self.p(P, n) for n in self.params)
        return zmax(zmax(z3.RealVal(0), mn), zmin(m * _pw(b, j), mx))

    def upper_native(self, j, V):
        m, b, mx, mn = (float(V[self.prefix + n]) for n in self.params)
        return max(max(0.0, mn), min(m * b**j, mx))

    def ref(self, j, P, seed, U):
        return U(seed, z3.IntVal(0), to_real(self.p(P, "min")), self.upper(j, P))

    def ref_native(self, j, V, seed, draw=None):
        import random

        return random.Random(seed).uniform(float(V[self.prefix + "min"]), self.upper_native(j, V))

    def bounds(self, k, P):
        return self.p(P, "min"), self.upper(k, P)


class NoneSpec(Spec):
    """'Wait strategy that does not delay retries' (C07)."""

    name = "wait_none"
    params: List[str] = []

    def ref(self, j, P, seed, U):
        return z3.RealVal(0)

    def ref_native(self, j, V, seed, draw=None):
        return 0.0

    def bounds(self, k, P):
        return z3.RealVal(0), z3.RealVal(0)


class FullJitterSpec(RandomExpSpec):
    """``wait_full_jitter(...)``: a module-level FUNCTION documented as an alias of wait_random_exponential (C07)."""

    name = "wait_full_jitter"

    def build(self, tr, P):
        return tr.call_function(self.name, **self.kwargs(P))


class ChainSpec(Spec):
    """'Use a different wait strategy for each attempt in order; after the strategies are exhausted the last one is
    reused': retry index j uses strategy min(j, n-1) (first retry = first strategy)."""

    name = "wait_chain"

    def __init__(self, children: List[Spec]) -> None:
        super().__init__("")
        self.children = children
        self.jittered = any(c.jittered for c in children)

    def all_params(self):
        return [n for c in self.children for n in c.all_params()]

    def build(self, tr, P):
        return tr.construct("wait_chain", *[c.build(tr, P) for c in self.children])

    def real(self, V):
        import workflows.retry_policy as rp

        return rp.wait_chain(*[c.real(V) for c in self.children])

    def valid(self, P):
        return [a for c in self.children for a in c.valid(P)]

    def ref(self, j, P, seed, U):
        return self.children[min(j, len(self.children) - 1)].ref(j, P, seed, U)

    def ref_native(self, j, V, seed, draw=None):
        return self.children[min(j, len(self.children) - 1)].ref_native(j, V, seed, draw)

    def bounds(self, k, P):
        return z3.RealVal(0), None


class CombineSpec(Spec):
    """'Combine multiple wait strategies by summing their delays'."""

    name = "wait_combine"

    def __init__(self, children: List[Spec]) -> None:
        super().__init__("")
        self.children = children
        self.jittered = any(c.jittered for c in children)

    def all_params(self):
        return [n for c in self.children for n in c.all_params()]

    def build(self, tr, P):
        return tr.construct("wait_combine", *[c.build(tr, P) for c in self.children])

    def real(self, V):
        import workflows.retry_policy as rp

        return rp.wait_combine(*[c.real(V) for c in self.children])

    def valid(self, P):
        return [a for c in self.children for a in c.valid(P)]

    def ref(self, j, P, seed, U):
        t: Any = z3.RealVal(0)
        for c in self.children:
            t = t + c.ref(j, P, seed, U)
        return t

    def ref_native(self, j, V, seed, draw=None):
        return sum(c.ref_native(j, V, seed, draw) for c in self.children)

    def bounds(self, k, P):
        return z3.RealVal(0), None


def spec_label(s: Spec) -> str:
    if isinstance(s, (ChainSpec, CombineSpec)):
        return f"{s.name}(" + ",".join(spec_label(c) for c in s.children) + ")"
    return s.name + ("[max=inf]" if isinstance(s, IncrementingNoMaxSpec) else "")


def declare(spec: Spec) -> Dict[str, Any]:
    return {n: z3.Real(n) for n in spec.all_params()}


def witness_values(spec: Spec, w: Dict[str, Any]) -> Dict[str, Fraction]:
    return {n: frac(w[n]) for n in spec.all_params()}


# ---------------------------------------------------------------------- robust witnesses

TOL = z3.RealVal("1/1000000")
PARAM_MAX = z3.RealVal(1000000)


def domain(P: Dict[str, Any]) -> List[Any]:
    """Parameter domain of the numeric obligations: |p| <= 1e6 (double precision resolves 1e-6 relative there)."""
    return [z3.And(v >= -PARAM_MAX, v <= PARAM_MAX) for v in P.values()]


def _scale(t: Any) -> Any:
    return TOL * zmax(z3.RealVal(1), _abs(t))


def differs(a: Any, b: Any) -> Any:
    """|a-b| clearly above rounding noise."""
    return _abs(a - b) > _scale(b)


def clearly_less(a: Any, b: Any) -> Any:
    return a < b - _scale(b)


def check_robust(ctx: Any, name: str, assumptions: List[Any], neg_exact: Any, neg_margin: Any, variables: Dict[str, Any],
                 replay: Any, note: str = "") -> str:
    """Decide ``assumptions => not neg_exact``.  A model of the exact negation may sit inside rounding noise and then does
    not reproduce in IEEE arithmetic; so a model with a clear margin (``neg_margin`` implies ``neg_exact``) is looked for
    first and reported if it exists; otherwise the exact query is the recorded one (unsat = discharged)."""
    ns = {k: getattr(z3, k) for k in ("And", "Or", "Not", "Implies", "If")}
    ns.update(variables)
    excl = [z3.Not(eval(e, dict(ns))) for e in ctx.excludes]  # noqa: S307 - committed known_findings.json only
    s = z3.Solver()
    s.set("timeout", ctx.timeout_s * 1000)
    s.add(*assumptions)
    s.add(*excl)
    s.add(neg_margin)
    if str(s.check()) == "sat":
        return ctx.check(name, assumptions=assumptions, negated_property=neg_margin, variables=variables, replay=replay,
                         note=(note + " [witness with margin > 1e-6 relative]").strip())
    return ctx.check(name, assumptions=assumptions, negated_property=neg_exact, variables=variables, replay=replay, note=note)
