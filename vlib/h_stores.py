"""Shared helpers for the store / server-runtime harnesses (C15, C16, C21, C24, C28).

Nothing here models the code under test: these are input builders (pools of envelopes / handlers selected by
symbolic index), a tmp-directory context manager for per-path SQLite files, and observation functions that turn
real store results into plain tuples for comparison."""
from __future__ import annotations

import vlib.boot  # noqa: F401

import os
import shutil
import tempfile
from typing import Any, List, Optional, Sequence

from llama_agents.client.protocol.serializable_events import EventEnvelopeWithMetadata
from llama_agents.server._store.abstract_workflow_store import HandlerQuery, PersistentHandler
from workflows.events import Event, StopEvent, WorkflowCancelledEvent


class EvP(Event):
    """plain (non-terminal) stream event"""

    i: int


class SubStop(StopEvent):
    """user subclass of StopEvent: terminal through ``types``"""


class TmpDir:
    """``with TmpDir() as d:`` fresh directory, removed on exit (every path / every native replay gets its own)."""

    # deterministic names: tempfile.mkdtemp draws from `random`, which CrossHair makes symbolic (NotDeterministic)
    _n = 0

    def __enter__(self) -> str:
        base = "/dev/shm" if os.access("/dev/shm", os.W_OK) else tempfile.gettempdir()  # tmpfs: 5 ms vs 70 ms per DB
        while True:
            TmpDir._n += 1
            d = os.path.join(base, "verif-st-%d-%d" % (os.getpid(), TmpDir._n))
            try:
                os.mkdir(d, 0o700)
                break
            except FileExistsError:
                continue
        self.d = d
        return d

    def __exit__(self, *a: Any) -> None:
        shutil.rmtree(self.d, ignore_errors=True)


def pick_int(i: int, lo: int, hi: int) -> int:
    """Concrete int in [lo, hi] equal to the (possibly symbolic) ``i``: explicit forks, the solver enumerates."""
    for v in range(lo, hi):
        if i == v:
            return v
    return hi


def pick_bisect(i: int, lo: int, hi: int) -> int:
    """Same as pick_int with ~log2(hi-lo) solver decisions per call instead of hi-lo (wide ranges: op codes)."""
    while lo < hi:
        mid = (lo + hi) // 2
        if i <= mid:
            hi = mid
        else:
            lo = mid + 1
    return lo


def untraced() -> Any:
    """Context manager suspending CrossHair's opcode tracing (a no-op natively).  Only for real code that receives
    nothing but CONCRETE values (every symbolic parameter was forked to a concrete int / bool by pick_int / pick_bisect
    first): the solver still chooses the path, the code then runs exactly as in CPython, without the ~30x tracing overhead
    on pydantic / importlib / sqlite glue.  A symbolic value leaking in would be rejected loudly by sqlite3 / pydantic-core."""
    import contextlib

    if not vlib.boot.under_crosshair():
        return contextlib.nullcontext()
    try:
        from crosshair.tracers import NoTracing, is_tracing
    except Exception:  # pragma: no cover
        return contextlib.nullcontext()
    return NoTracing() if is_tracing() else contextlib.nullcontext()


def pick(pool: Sequence[Any], i: int) -> Any:
    n = len(pool)
    for k in range(n - 1):
        if i == k:
            return pool[k]
    return pool[n - 1]


# ------------------------------------------------------------------------------------------------ envelopes
# built once from REAL events through the REAL from_event (concrete pydantic); immutable use only
_ENV_PLAIN = [EventEnvelopeWithMetadata.from_event(EvP(i=i)) for i in range(8)]
_ENV_TERM = [
    EventEnvelopeWithMetadata.from_event(StopEvent(result="done")),
    EventEnvelopeWithMetadata.from_event(SubStop(result=1)),
    EventEnvelopeWithMetadata.from_event(WorkflowCancelledEvent()),
]


def env_plain(i: int) -> EventEnvelopeWithMetadata:
    return _ENV_PLAIN[i % len(_ENV_PLAIN)]


def env_term(kind: int) -> EventEnvelopeWithMetadata:
    return pick(_ENV_TERM, kind)


def freeze(v: Any) -> Any:
    """JSON-ish value -> hashable/comparable tuple tree.  (No repr(): CrossHair may short-circuit its repr patch into an
    uninterpreted symbolic str.)"""
    if isinstance(v, dict):
        return ("d",) + tuple((k, freeze(v[k])) for k in sorted(v))
    if isinstance(v, (list, tuple)):
        return ("l",) + tuple(freeze(x) for x in v)
    return v


def ev_key(e: Any) -> tuple:
    """Observation of a StoredEvent that is backend independent (timestamps differ by construction)."""
    return (e.run_id, e.sequence, e.event.type, tuple(e.event.types or ()), e.event.qualified_name, freeze(e.event.value))


# ------------------------------------------------------------------------------------------------ handlers
HIDS = ["h0", "h1", "h2"]
RIDS = ["r0", "r1", None]
WFS = ["w0", "w1"]
STATUSES = ["running", "completed", "failed", "cancelled"]


def handler_key(h: PersistentHandler) -> tuple:
    return (h.handler_id, h.workflow_name, h.status, h.run_id, h.error, h.idle_since is not None,
            None if h.result is None else (type(h.result).__name__, freeze(h.result.result)))


def hq(hid: Optional[List[str]] = None, rid: Optional[List[str]] = None, wf: Optional[List[str]] = None,
       st: Optional[List[str]] = None, idle: Optional[bool] = None) -> HandlerQuery:
    return HandlerQuery(handler_id_in=hid, run_id_in=rid, workflow_name_in=wf, status_in=st, is_idle=idle)  # type: ignore[arg-type]


def sel_list(pool: Sequence[Any], mode: int, i: int, j: int) -> Optional[List[Any]]:
    """mode 0: filter absent (None); 1: empty list; 2: [pool[i]]; 3: [pool[i], pool[j]]. Explicit forks."""
    if mode == 0:
        return None
    if mode == 1:
        return []
    if mode == 2:
        return [pick(pool, i)]
    return [pick(pool, i), pick(pool, j)]


def warm_sqlite() -> None:
    """Called at harness import time (outside symbolic execution): first use of the SQLite store imports the
    migrations package, importlib.resources readers, sqlite3 adapters ... lazily; doing that inside the first explored
    path makes the path tree differ from later iterations (CrossHair: NotDeterministic)."""
    from llama_agents.server._store.sqlite.sqlite_workflow_store import SqliteWorkflowStore

    with TmpDir() as d:
        st = SqliteWorkflowStore(os.path.join(d, "warm.db"))
        vlib.boot.drive(st.append_event("w", env_plain(0)))
        vlib.boot.drive(st.query_events("w", after_sequence=-1))
        vlib.boot.drive(st.append_tick("w", {"a": 1}))
        vlib.boot.drive(st.get_ticks("w"))
        vlib.boot.drive(st.update(PersistentHandler(handler_id="w", workflow_name="w", status="running", run_id="w")))
        vlib.boot.drive(st.query(HandlerQuery(handler_id_in=["w"])))
        ss = st.create_state_store("w")
        vlib.boot.drive(ss.set("a", 1))
        vlib.boot.drive(ss.get("a", None))
