"""A second module that defines an event class with the SAME short name as vlib.h_handlers.Resp (two packages of one application each having
their own ``Reply`` is ordinary): used to check that restored waiters keep the class they were waiting for, by qualified name."""
from __future__ import annotations

from typing import Optional

from workflows.events import Event


class Resp(Event):
    k: Optional[int] = 0
    other: str = "twin"
