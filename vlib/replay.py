"""Native replay (plain CPython, no CrossHair, no proxies) of one obligation on concrete arguments.

usage: python -m vlib.replay <harness_file> <fn> <json {"args": [...], "kwargs": {...}}>
prints one JSON line: {"holds": bool, "returned": repr, "exception": str|None}
The obligation convention: the function returns truthy iff the property held for these inputs; an exception
escaping the harness body counts as "does not hold" (unless the harness lists it in NATIVE_OK_EXCEPTIONS)."""
from __future__ import annotations

import importlib.util
import json
import os
import sys
import traceback


def load_harness(path: str):
    import vlib.boot  # noqa: F401

    name = os.path.splitext(os.path.basename(path))[0]
    d = os.path.dirname(os.path.abspath(path))
    if d not in sys.path:
        sys.path.insert(0, d)
    spec = importlib.util.spec_from_file_location(name, path)
    mod = importlib.util.module_from_spec(spec)  # type: ignore[arg-type]
    sys.modules[name] = mod
    spec.loader.exec_module(mod)  # type: ignore[union-attr]
    return mod


def run_native(path: str, fn_name: str, args, kwargs) -> dict:
    mod = load_harness(path)
    fn = getattr(mod, fn_name)
    try:
        r = fn(*args, **kwargs)
        return {"holds": bool(r), "returned": repr(r)[:500], "exception": None}
    except Exception as e:  # noqa: BLE001
        return {"holds": False, "returned": None, "exception": f"{type(e).__name__}: {e}", "traceback": traceback.format_exc()[-3000:]}


def main(argv) -> int:
    path, fn_name, payload = argv[0], argv[1], json.loads(argv[2])
    out = run_native(path, fn_name, payload.get("args", []), payload.get("kwargs", {}))
    print("REPLAY-RESULT " + json.dumps(out))
    return 0


if __name__ == "__main__":
    sys.exit(main(sys.argv[1:]))
