"""C26 — idle release and on-demand resume never lose an event or double-run a workflow.

In-process half: the REAL server stack exactly as WorkflowServer assembles it — ServerRuntimeDecorator(
IdleReleaseDecorator(PersistenceDecorator(BasicRuntime))) over a MemoryWorkflowStore, fronted by the real
_WorkflowService (start_workflow / send_event) — runs a tiny workflow on MiniLoop (virtual time).  The run goes idle
waiting for external events; the idle timeout and the instants of the external send_event calls are symbolic.

DBOS half: the REAL SqliteRunLifecycleLock on a temporary sqlite file, driven by symbolic operation scripts from a
symbolic row state with a symbolic clock and crash_timeout.
"""
from __future__ import annotations

import vlib.boot  # noqa: F401
from vlib.boot import B
from vlib.ob import obligation

from typing import Any, Dict, List

from vlib import h_idle
from vlib.h_idle import abort_state_is_quiescent, concrete, run_inproc

from workflows import Context, Workflow, step
from workflows.events import HumanResponseEvent, StartEvent, StopEvent

ENCODED = [
    "llama_agents.server._runtime.idle_release_runtime:IdleReleaseDecorator",
    "llama_agents.server._runtime.idle_release_runtime:IdleReleaseExternalRunAdapter",
    "llama_agents.server._runtime.idle_release_runtime:_IdleReleaseInternalRunAdapter",
    "llama_agents.server._runtime.persistence_runtime:TickPersistenceDecorator.context_from_ticks",
    "llama_agents.server._runtime.persistence_runtime:_PersistenceInternalRunAdapter",
    "llama_agents.server._runtime.server_runtime:_ServerInternalRunAdapter.write_to_event_stream",
    "llama_agents.server._service:_WorkflowService.send_event",
    "llama_agents.server._service:_WorkflowService.start_workflow",
    "llama_agents.server._keyed_lock:KeyedLock",
    "workflows.plugins.basic:BasicRuntime.run_workflow",
    "workflows.plugins.basic:ExternalAsyncioAdapter.abort",
    "workflows.runtime.control_loop:_ControlLoopRunner.run",
    "workflows.runtime.control_loop:_check_idle_state",
]
ASSUMES = [
    "asyncio scheduling = vlib.miniloop.MiniLoop (FIFO ready queue, virtual clock); every clock read on the path "
    "(time.monotonic/time.time/datetime.now in basic.py, control_loop.py, idle_release_runtime.py, server_runtime.py, "
    "the stores) is patched to that virtual clock; run/span ids are fixed strings",
    "BasicRuntime is the observing subclass of vlib.h_idle (records control-loop tasks per run id and a snapshot at "
    "abort(): mailbox size, rebuilt broker state, worker tasks in flight, whether the runner's timer heap was "
    "non-empty); it forwards every call unchanged",
    "instants are integers (virtual seconds); senders are started in list order, so two sends at the same instant are "
    "issued in that order",
    "workflow timeout=None (the per-run TickTimeout is re-armed on reload by design and is not 'work')",
]
OUTSIDE = [
    "the DBOS decorator's check-then-send window (DBOSIdleReleaseExternalRunAdapter.send_event vs release on another "
    "replica): needs DBOSRuntime / dbos, neither importable nor modelled here", "PostgresRunLifecycleLock (asyncpg)",
    "server restart while idle", "more than two external events / instants beyond the stated ranges",
]

TMAXI = B(2, 3)   # idle_timeout range 1..TMAXI
SMAX = B(4, 6)    # send instants 0..SMAX


class ExtEv(HumanResponseEvent):
    n: int


def _counter_workflow(need: int) -> Any:
    def make() -> Workflow:
        class W(Workflow):
            @step
            async def begin(self, ctx: Context, ev: StartEvent) -> None:
                return None

            @step(num_workers=1)
            async def on_ext(self, ctx: Context, ev: ExtEv) -> StopEvent | None:
                acc = await ctx.store.get("acc", default=0)
                cnt = await ctx.store.get("cnt", default=0)
                await ctx.store.set("acc", acc + ev.n)
                await ctx.store.set("cnt", cnt + 1)
                if cnt + 1 >= need:
                    return StopEvent(result=acc + ev.n)
                return None

        return W(timeout=None)

    return make


def _ext_payloads_in_ticks(ticks: List[Dict[str, Any]]) -> List[int]:
    out = []
    for t in ticks:
        if t.get("type") == "add_event":
            ev = t.get("event") or {}
            val = ev.get("value", ev) if isinstance(ev, dict) else {}
            n = val.get("n") if isinstance(val, dict) else None
            if n is None and isinstance(val, dict):
                n = (val.get("value") or {}).get("n") if isinstance(val.get("value"), dict) else None
            if n is not None:
                out.append(n)
    return out


def _safe(o: Dict[str, Any], payloads: List[int]) -> bool:
    # every sent event was processed by some control loop of the run: it is in the persisted tick log exactly once
    # and it reached the result (the run completes with the sum of all payloads)
    seen = sorted(_ext_payloads_in_ticks(o["ticks"]))
    if seen != sorted(payloads):
        return False
    if o["status"] != "completed" or o["result"] != sum(payloads):
        return False
    # never two live control loops of the run
    if o["overlap"] or o["live_at_end"] != 0:
        return False
    for p in o["pre_send"]:
        if p["live"] > 1:
            return False
    # a release (abort of the control loop) happened only in a quiescent state
    for ab in o["aborts"]:
        if not abort_state_is_quiescent(ab):
            return False
    return not o["errors"]


@obligation(quick=300, thorough=900,
            partitions_quick=[f"s1 == {a}" for a in range(0, 5)],
            partitions_thorough=[f"T == {t} and s1 == {a}" for t in range(1, 4) for a in range(0, 7)],
            what="in-process stack: two external events at symbolic instants around the idle timeout: both are processed "
                 "(tick log + result), never two live control loops, every release happened in a quiescent state",
            bounds={"idle_timeout T": "1..TMAXI", "send instants": "0..SMAX", "events": 2})
def ob_inproc_two_sends(T: int, s1: int, s2: int) -> bool:
    """
    pre: 1 <= T <= TMAXI and 0 <= s1 <= SMAX and 0 <= s2 <= SMAX
    post: _
    """
    T = concrete(T, 1, TMAXI)
    s1 = concrete(s1, 0, SMAX)
    s2 = concrete(s2, 0, SMAX)
    o = run_inproc(T, [(s1, 10), (s2, 7)], _counter_workflow(2), lambda n: ExtEv(n=n))
    return _safe(o, [10, 7])
