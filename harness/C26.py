"""C26 — idle release and on-demand resume never lose an event or double-run a workflow.

In-process half: the REAL server stack exactly as WorkflowServer assembles it — ServerRuntimeDecorator(
IdleReleaseDecorator(PersistenceDecorator(BasicRuntime))) over a MemoryWorkflowStore, fronted by the real
_WorkflowService (start_workflow / send_event) — runs small workflows on MiniLoop (virtual time).  The idle timeout, the
instants of two concurrent external senders, the time a step takes and the tie order of equal instants are symbolic.

DBOS half: the REAL SqliteRunLifecycleLock on a temporary sqlite file (tables from the package's migration SQL):
one operation from every row state against a reference automaton written from the docstrings (inductive step),
symbolic operation scripts judged by trace properties, and releaser / two resumers as real tasks at symbolic instants
with an optional releaser crash.  On top of it the REAL DBOSIdleReleaseDecorator stack of two "replicas" sharing the
lifecycle table and the workflow store (only DBOSRuntime is an environment stub): release on A, optional crash of A,
two senders on B.
"""
from __future__ import annotations

import vlib.boot  # noqa: F401
from vlib.boot import B
from vlib.ob import obligation

import asyncio
import os
from typing import Any, Dict, List, Optional

from vlib import h_idle
from vlib.h_idle import abort_state_is_quiescent, concrete, run_stack

from workflows import Context, Workflow, step
from workflows.events import HumanResponseEvent, StartEvent, StopEvent

h_idle.install_speedups()
h_idle.ensure_dbos_importable()

import llama_agents.dbos.idle_release as dbos_ir  # noqa: E402
import llama_agents.dbos.journal.lifecycle as lc  # noqa: E402

ENCODED = [
    "llama_agents.server._runtime.idle_release_runtime:IdleReleaseDecorator",
    "llama_agents.server._runtime.idle_release_runtime:IdleReleaseExternalRunAdapter",
    "llama_agents.server._runtime.idle_release_runtime:_IdleReleaseInternalRunAdapter",
    "llama_agents.server._runtime.persistence_runtime:TickPersistenceDecorator.context_from_ticks",
    "llama_agents.server._runtime.persistence_runtime:_PersistenceInternalRunAdapter",
    "llama_agents.server._runtime.server_runtime:_ServerInternalRunAdapter.write_to_event_stream",
    "llama_agents.server._service:_WorkflowService.send_event",
    "llama_agents.server._service:_WorkflowService.start_workflow",
    "llama_agents.server._keyed_lock:KeyedLock",
    "llama_agents.dbos.journal.lifecycle:SqliteRunLifecycleLock",
    "llama_agents.dbos.idle_release:DBOSIdleReleaseDecorator",
    "llama_agents.dbos.idle_release:DBOSIdleReleaseExternalRunAdapter",
    "llama_agents.dbos.idle_release:_DBOSIdleReleaseInternalRunAdapter",
    "workflows.plugins.basic:BasicRuntime.run_workflow",
    "workflows.plugins.basic:ExternalAsyncioAdapter.abort",
    "workflows.runtime.control_loop:_ControlLoopRunner.run",
    "workflows.runtime.control_loop:_ControlLoopRunner._process_tick",
    "workflows.runtime.control_loop:_check_idle_state",
]
ASSUMES = [
    "asyncio scheduling = vlib.miniloop.MiniLoop (FIFO ready queue, virtual clock, equal deadlines fire in registration "
    "order); every clock read on the path (time.* / datetime.now in basic.py, control_loop.py, step_function.py, "
    "idle_release_runtime.py, server_runtime.py, _service.py, the stores, dbos/idle_release.py, dbos/journal/lifecycle.py) "
    "is patched to that virtual clock; run / span ids are fixed strings",
    "instants are integers (virtual seconds); the symbolic small ints are enumerated by the solver "
    "(vlib.h_idle.concrete forks on every value of the stated range), so every order of {release timers, senders, step "
    "completion, resumers} including both tie orders (flag `early`) is explored",
    "BasicRuntime is the observing subclass of vlib.h_idle (records the control-loop task of every (re)start per run id "
    "and, at abort(), a snapshot: mailbox size, worker tasks in flight, whether the runner's last wait carried a wake-up "
    "deadline = its timer heap was non-empty, the broker state rebuilt from the ticks); it forwards every call unchanged",
    "workflow timeout=None (the per-run TickTimeout is re-armed on reload by design and is not 'work')",
    "ob_inproc_slow_store_write: the store is vlib.h_idle.make_slow_store, an ENVIRONMENT STUB for a store with I/O latency "
    "(Postgres / agent-data): MemoryWorkflowStore in which ONE update_handler_status call, chosen by the solver, takes 1..LATMAX "
    "virtual seconds and takes effect either before or after that wait; all other store calls return at once",
    "'processed' = the step that consumes the event ran with it exactly once and its effect is in the final result",
    "tooling: logging disabled; under CrossHair repr() of concrete scalars is native, "
    "workflows.utils.get_steps_from_instance/_class run untraced, CrossHair's contract enforcement and gc-on-weakref are "
    "off (vlib.h_idle.install_speedups) — no effect on results",
    "lifecycle lock: single process (the sqlite lock's KeyedLock is process-local by design); a releaser crash = the "
    "releaser never calls complete_release; the reference automaton is written from the RunLifecycleLock docstrings",
    "two-replica obligation: DBOSRuntime is replaced by an ENVIRONMENT STUB per replica (BasicRuntime; a finished run's id "
    "is reusable on restart = DBOS.delete_workflow_async); the name DBOS inside dbos/idle_release.py raises RuntimeError "
    "(handled by _do_resume's existing try/except); both replicas share one MemoryWorkflowStore (stands for the shared "
    "database) and one sqlite lifecycle file; the lifecycle row is created through the real lock.create() after start "
    "(KF-C36-1: production never does); a crash of replica A = its control loop and background tasks are cancelled "
    "after begin_release",
]
OUTSIDE = [
    "the DBOS decorator's check-then-send window against the real DBOS engine (DBOS.send to a run that another replica is "
    "purging / restarting): needs DBOSRuntime / dbos, neither importable nor modelled here",
    "PostgresRunLifecycleLock (asyncpg); several OS processes on one sqlite file",
    "a releaser that is merely slower than CRASH_TIMEOUT_SECONDS (not crashed): the crash timeout is a timeout",
    "server restart while idle; more than two external events; instants beyond the stated ranges",
]

DBOS_RUNTIME_TOUCHES_LIFECYCLE = h_idle.dbos_runtime_touches_lifecycle()

TMAXI = B(2, 3)    # idle_timeout range 1..TMAXI
SMAX = B(3, 6)     # send instants 0..SMAX
WMAX = B(1, 2)     # step duration 0..WMAX


class ExtEv(HumanResponseEvent):
    n: int


class WorkWF(Workflow):
    """begin returns at once; on_ext (one worker) takes `w` virtual seconds per event and folds the payload into the
    stored accumulator; the second event completes the run.  Result = order-sensitive fold of both payloads."""

    def __init__(self, w: int = 0, **kw: Any) -> None:
        super().__init__(**kw)
        self.w = w
        self.calls: List[Any] = []

    @step
    async def begin(self, ctx: Context, ev: StartEvent) -> None:
        self.calls.append("begin")
        return None

    @step(num_workers=1)
    async def on_ext(self, ctx: Context, ev: ExtEv) -> Optional[StopEvent]:
        self.calls.append(("on_ext", ev.n))
        acc = await ctx.store.get("acc", default=0)
        cnt = await ctx.store.get("cnt", default=0)
        if self.w:
            await asyncio.sleep(self.w)
        await ctx.store.set("acc", acc * 100 + ev.n)
        await ctx.store.set("cnt", cnt + 1)
        if cnt + 1 >= 2:
            return StopEvent(result=acc * 100 + ev.n)
        return None


class _DelayPolicy:
    """user retry policy (environment): first failure -> retry after `delay` seconds, second failure -> give up"""

    delay: float = 0.0

    def next(self, elapsed_time: float, attempts: int, error: Exception) -> Optional[float]:
        return float(self.delay) if attempts <= 1 else None


_POLICY = _DelayPolicy()


class TimerWF(Workflow):
    """work that lives only in the control loop's timer heap: kind 0 = a wait_for_event with a timeout of `x` seconds
    (when it expires the step goes on working for `z` more seconds), kind 1 = a step that fails once and is retried
    after `x` seconds (then waits for the external event)."""

    def __init__(self, kind: int = 0, x: int = 0, z: int = 0, **kw: Any) -> None:
        super().__init__(**kw)
        self.kind = kind
        self.x = x
        self.z = z
        self.calls: List[Any] = []

    @step(retry_policy=_POLICY)
    async def begin(self, ctx: Context, ev: StartEvent) -> StopEvent:
        self.calls.append("begin")
        if self.kind == 1 and self.calls.count("begin") == 1:
            raise RuntimeError("first attempt fails")
        try:
            a = await ctx.wait_for_event(ExtEv, waiter_id="q", timeout=(self.x if self.kind == 0 else None))
        except asyncio.TimeoutError:
            self.calls.append("timeout")
            if self.z:
                await asyncio.sleep(self.z)
            self.calls.append("fallback done")
            return StopEvent(result=-1)
        return StopEvent(result=a.n)


def _mk_event(n: int) -> ExtEv:
    return ExtEv(n=n)


P1, P2 = 11, 7


def _why_inproc(o: Dict[str, Any], sends: List[Any]) -> List[str]:
    bad: List[str] = []
    if o["errors"] or o["loop_exceptions"]:
        bad.append(f"errors {o['errors']} {o['loop_exceptions']}")
    # every event sent to the run is eventually processed by it: consumed by the step exactly once, result has both
    calls = [c for c in o["workflow"].calls if isinstance(c, tuple)]
    want = [("on_ext", p) for _a, p in sends]
    if sorted(calls) != sorted(want):
        bad.append(f"events consumed {calls}, sent {want}")
    first, second = (sends[0][1], sends[1][1]) if sends[0][0] <= sends[1][0] else (sends[1][1], sends[0][1])
    ok_results = {first * 100 + second} | ({second * 100 + first} if sends[0][0] == sends[1][0] else set())
    if o["status"] != "completed" or o["result"] not in ok_results:
        bad.append(f"final {o['status']}/{o['result']} not completed/{sorted(ok_results)}")
    # at no time two live control loops of the run
    if o["overlap"] or o["live_at_end"] != 0:
        bad.append(f"two live control loops (overlap={o['overlap']}, live at end={o['live_at_end']})")
    for s in o["samples"] + o["pre_send"] + o["post_send"]:
        if s["live"] > 1:
            bad.append(f"t={s['at']}: {s['live']} live control loops")
    # released only while it has no queued, running or scheduled work
    for ab in o["aborts"]:
        if ab["was_running"] and not abort_state_is_quiescent(ab):
            bad.append(f"t={ab['at']}: released with mailbox={ab['mailbox']} workers={ab['workers_running']} "
                       f"timer={ab['wakeup_pending']} state not idle")
    return bad


def _debug(tag: str, bad: List[str]) -> None:
    if bad and os.environ.get("VERIF_DEBUG"):
        import sys

        sys.stderr.write(f"[{tag}] " + "\n    ".join(bad) + "\n")


@obligation(quick=240, thorough=880,
            partitions_quick=[f"w == {w} and early == {e}" for w in (0, 1) for e in (True, False)],
            partitions_thorough=[f"w == {w} and early == {e} and T == {t}" for w in (0, 1, 2) for e in (True, False)
                                 for t in (1, 2, 3)],
            what="in-process stack: two external senders at independent symbolic instants around the idle timeout, step "
                 "duration w: both events are consumed exactly once and reach the result, never two live control loops, "
                 "every release (abort of a live loop) happened with empty mailbox, no worker, empty timer heap, idle "
                 "broker state",
            bounds={"idle_timeout T": "1..TMAXI", "send instants a1,a2": "0..SMAX", "step duration w": "0..WMAX",
                    "events": 2, "tie order": "both"})
def ob_inproc_two_sends(T: int, a1: int, a2: int, w: int, early: bool) -> bool:
    """
    pre: 1 <= T <= TMAXI and 0 <= a1 <= SMAX and 0 <= a2 <= SMAX and 0 <= w <= WMAX
    post: _
    """
    T = concrete(T, 1, TMAXI)
    a1 = concrete(a1, 0, SMAX)
    a2 = concrete(a2, 0, SMAX)
    w = concrete(w, 0, WMAX)
    early = bool(early)
    sends = [(a1, P1), (a2, P2)]
    o = run_stack("inproc", T, sends, lambda: WorkWF(w=w, timeout=None), _mk_event, early=early,
                  probe_to=max(a1, a2) + w + 1, settle=T + 1)
    bad = _why_inproc(o, sends)
    _debug(f"two_sends T={T} a1={a1} a2={a2} w={w} early={early}", bad)
    return not bad


KSLOW = 8          # status writes of one scenario are numbered 0..; at most 7 happen within these bounds (k = 7: none is slow)
LATMAX = B(2, 3)   # a slow store write takes 1..LATMAX virtual seconds
TSLOW = 2          # idle_timeout range of the slow-write obligation
ASLOW = 3          # send instants 0..ASLOW


@obligation(quick=400, thorough=880,
            partitions_quick=[f"k == {k} and land_first == {lf}" for k in range(KSLOW) for lf in (True, False)],
            partitions_thorough=[f"k == {k} and land_first == {lf} and T == {t}" for k in range(KSLOW) for lf in (True, False)
                                 for t in (1, 2)],
            what="in-process stack over a store with I/O latency (environment stub: the k-th update_handler_status call of the "
                 "scenario — the sender's idle-stamp clear, the control loop's idle mark or un-mark, a status change — takes lat "
                 "virtual seconds and lands before or after the wait), two senders at symbolic instants: both events are consumed "
                 "exactly once and reach the result, never two live control loops, every release happened with empty mailbox, "
                 "no worker, empty timer heap, idle broker state",
            bounds={"idle_timeout T": "1..TSLOW", "send instants a1,a2": "0..ASLOW", "slow write index k": "0..KSLOW-1",
                    "latency": "1..LATMAX", "lands": "before / after the wait", "tie order": "both"})
def ob_inproc_slow_store_write(T: int, a1: int, a2: int, k: int, lat: int, land_first: bool, early: bool) -> bool:
    """
    pre: 1 <= T <= TSLOW and 0 <= a1 <= ASLOW and 0 <= a2 <= ASLOW and 0 <= k < KSLOW and 1 <= lat <= LATMAX
    post: _
    """
    T = concrete(T, 1, TSLOW)
    a1 = concrete(a1, 0, ASLOW)
    a2 = concrete(a2, 0, ASLOW)
    k = concrete(k, 0, KSLOW - 1)
    lat = concrete(lat, 1, LATMAX)
    land_first = bool(land_first)
    early = bool(early)
    sends = [(a1, P1), (a2, P2)]
    o = run_stack("inproc", T, sends, lambda: WorkWF(w=0, timeout=None), _mk_event, early=early,
                  probe_to=max(a1, a2) + 1, settle=T + lat + 1, slow_write=(k, lat, land_first))
    bad = _why_inproc(o, sends)
    _debug(f"slow_write T={T} a1={a1} a2={a2} k={k} lat={lat} land_first={land_first} early={early} hit={o['slow_hit']}", bad)
    return not bad


XMAX = B(3, 4)
ZMAX = 2


@obligation(quick=240, thorough=600,
            partitions_quick=["kind == 0", "kind == 1"],
            partitions_thorough=[f"kind == {k} and T == {t} and z == {z}" for k in (0, 1) for t in (1, 2, 3)
                                 for z in (0, 1, 2) if not (k == 1 and z)],
            what="in-process stack, work that exists only in the control loop's timer heap (kind 0: a wait_for_event "
                 "timeout of x s after which the step works z s more; kind 1: a retry waiting out a delay of x s): no "
                 "release (abort of the live loop) happens while a timer is pending or a worker is running, never two "
                 "live control loops",
            bounds={"idle_timeout T": "1..TMAXI", "timer x": "1..XMAX", "post-timeout work z": "0..ZMAX",
                    "send instant a": "0..SMAX"})
def ob_inproc_scheduled_work(kind: int, T: int, x: int, z: int, a: int) -> bool:
    """
    pre: 0 <= kind <= 1 and 1 <= T <= TMAXI and 1 <= x <= XMAX and 0 <= z <= ZMAX and 0 <= a <= SMAX
    pre: kind == 0 or z == 0
    post: _
    """
    kind = concrete(kind, 0, 1)
    T = concrete(T, 1, TMAXI)
    x = concrete(x, 1, XMAX)
    z = concrete(z, 0, ZMAX)
    a = concrete(a, 0, SMAX)
    _POLICY.delay = x
    o = run_stack("inproc", T, [(a, P1)], lambda: TimerWF(kind=kind, x=x, z=z, timeout=None), _mk_event, early=True,
                  probe_to=0, settle=0, horizon=XMAX + ZMAX + 2)
    bad: List[str] = []
    for ab in o["aborts"]:
        if ab["was_running"] and not abort_state_is_quiescent(ab):
            bad.append(f"t={ab['at']}: released with mailbox={ab['mailbox']} workers={ab['workers_running']} "
                       f"timer pending={ab['wakeup_pending']}")
    if o["overlap"]:
        bad.append("two live control loops")
    _debug(f"scheduled kind={kind} T={T} x={x} z={z} a={a}", bad)
    return not bad


# ------------------------------------------------------------------------------------------------ lifecycle lock
ST = [None, "active", "releasing", "released"]  # row states; None = no row
OPS = ["create", "begin_release", "complete_release", "try_begin_resume(None)", "try_begin_resume(ct)"]
CT = 1  # crash_timeout_seconds used by op 4: a 'releasing' row older than 1 s is a crashed releaser
# script alphabet: 0 create, 1 begin_release, 2 complete_release, 3 try_begin_resume(crash_timeout=CT), 4 "2 s pass"
SCRIPT_TO_OP = [0, 1, 2, 4, None]


class _Clock:
    def __init__(self) -> None:
        self.t = 0

    def time(self) -> float:
        return self.t


def _with_lock(body: Any) -> Any:
    """Run ``body(lock, db_path, clock)`` with a fresh lifecycle DB and the lock module's clock patched."""
    from vlib.h_stores import TmpDir

    clock = _Clock()
    saved = lc.datetime
    lc.datetime = h_idle.make_fake_datetime(clock)
    try:
        with TmpDir() as d:
            db = os.path.join(d, "lc.sqlite")
            h_idle.make_lifecycle_db(db)
            return body(lc.SqliteRunLifecycleLock(db_path=db), db, clock)
    finally:
        lc.datetime = saved


def _seed_row(db: str, state: Optional[str], updated_at: int) -> None:
    import sqlite3

    if state is None:
        return
    conn = sqlite3.connect(db)
    try:
        conn.execute("INSERT INTO run_lifecycle (run_id, state, updated_at) VALUES (?, ?, ?)",
                     ("r", state, h_idle._real_datetime_at(updated_at).isoformat()))
        conn.commit()
    finally:
        conn.close()


def _row(db: str) -> Any:
    import datetime as _dt
    import sqlite3

    conn = sqlite3.connect(db)
    try:
        r = conn.execute("SELECT state, updated_at FROM run_lifecycle WHERE run_id = 'r'").fetchone()
    finally:
        conn.close()
    if r is None:
        return (None, None)
    return (str(r[0]), (_dt.datetime.fromisoformat(r[1]) - h_idle.EPOCH).total_seconds())


def _apply(lock: Any, op: int) -> Any:
    """one REAL lock operation (the lock methods never suspend: sqlite is synchronous, the KeyedLock is free)"""
    if op == 0:
        return vlib.boot.drive(lock.create("r"))
    if op == 1:
        return vlib.boot.drive(lock.begin_release("r"))
    if op == 2:
        return vlib.boot.drive(lock.complete_release("r"))
    if op == 3:
        r = vlib.boot.drive(lock.try_begin_resume("r"))
    else:
        r = vlib.boot.drive(lock.try_begin_resume("r", crash_timeout_seconds=CT))
    return None if r is None else r.value


def _ref(state: Optional[str], upd: Any, now: int, op: int) -> Any:
    """reference automaton from the RunLifecycleLock docstrings: (returned, state', updated_at')"""
    if op == 0:
        return (None, "active", now)
    if op == 1:
        return (True, "releasing", now) if state == "active" else (False, state, upd)
    if op == 2:
        return (None, "released", now) if state == "releasing" else (None, state, upd)
    if state is None or state == "active":
        return (None, state, upd)
    if state == "released" or (op == 4 and state == "releasing" and now - upd > CT):
        return ("released", "active", now)
    return ("releasing", state, upd)


@obligation(quick=120, thorough=300,
            what="lifecycle lock, inductive step: from EVERY row state (absent / active / releasing / released, any age) "
                 "each operation returns what the documented automaton returns and leaves the row in its state "
                 "(active->releasing->released->active; releasing->active only by a crash timeout that has expired; "
                 "begin_release is a compare-and-set on 'active'; an absent row is never created except by create)",
            bounds={"row state": 4, "row age": "0..3 s", "operation": 5, "crash_timeout": "None / 1 s"})
def ob_lock_step(s0: int, age: int, op: int) -> bool:
    """
    pre: 0 <= s0 <= 3 and 0 <= age <= 3 and 0 <= op <= 4
    post: _
    """
    s0 = concrete(s0, 0, 3)
    age = concrete(age, 0, 3)
    op = concrete(op, 0, 4)

    def body(lock: Any, db: str, clock: _Clock) -> bool:
        now = 5
        clock.t = now
        _seed_row(db, ST[s0], now - age)
        upd0 = None if ST[s0] is None else now - age
        got = _apply(lock, op)
        want, st1, upd1 = _ref(ST[s0], upd0, now, op)
        return got == want and _row(db) == (st1, upd1)

    return _with_lock(body)


NOPS = B(3, 5)


def _script_ok(s0: int, age: int, script: List[int]) -> bool:
    def body(lock: Any, db: str, clock: _Clock) -> bool:
        clock.t = 5
        _seed_row(db, ST[s0], 5 - age)
        state, upd = _row(db)
        released_since_owner = 0   # successful begin_release calls since the row last became active
        for sop in script:
            op = SCRIPT_TO_OP[sop]
            if op is None:
                clock.t += 2
                continue
            before = state
            got = _apply(lock, op)
            state, upd1 = _row(db)
            # transitions follow active -> releasing -> released -> active (+ create; + expired crash timeout)
            legal = (state == before) or (op == 0 and state == "active") \
                or (before, state) in (("active", "releasing"), ("releasing", "released"), ("released", "active")) \
                or (before == "releasing" and state == "active" and op == 4 and clock.t - upd > CT)
            if not legal:
                return False
            upd = upd1
            if op == 1:
                # begin_release succeeds only on an active row, hence at most once per activation
                if got is not (before == "active"):
                    return False
                if got:
                    released_since_owner += 1
                    if released_since_owner > 1:
                        return False
            if state == "active" and before != "active":
                released_since_owner = 0
            if op == 4:
                # ownership ("released") is handed out exactly when the row leaves released / expired releasing, so
                # the very next resume attempt cannot get it again; "send normally" only for an absent / active row
                if (got == "released") != (before in ("released", "releasing") and state == "active"):
                    return False
                if got is None and before not in (None, "active"):
                    return False
                if got == "releasing" and not (before == "releasing" and state == "releasing"):
                    return False
        return True

    return _with_lock(body)


@obligation(quick=240, thorough=880,
            partitions_quick=[f"s0 == {s}" for s in range(4)],
            partitions_thorough=[f"s0 == {s} and o1 == {o}" for s in range(4) for o in range(5)],
            what="lifecycle lock, symbolic operation scripts (create / begin_release / complete_release / "
                 "try_begin_resume with a 1 s crash timeout / 2 s pass) from a symbolic row state: every observed "
                 "transition is legal, begin_release succeeds iff the row is active and at most once per activation, "
                 "ownership is handed to exactly one of consecutive resumers",
            bounds={"script length": "NOPS", "row state": 4, "row age": "0 s (releasing rows also 2 s)",
                    "operations": 5})
def ob_lock_script(s0: int, old: bool, o1: int, o2: int, o3: int, o4: int, o5: int) -> bool:
    """
    pre: 0 <= s0 <= 3 and 0 <= o1 <= 4 and 0 <= o2 <= 4 and 0 <= o3 <= 4 and 0 <= o4 <= 4 and 0 <= o5 <= 4
    pre: (not old or s0 == 2) and (NOPS == 5 or (o4 == 4 and o5 == 4))
    post: _
    """
    s0 = concrete(s0, 0, 3)
    script = [concrete(o, 0, 4) for o in (o1, o2, o3, o4, o5)]
    return _script_ok(s0, 2 if old else 0, script[:NOPS])


RMAX = B(3, 4)


@obligation(quick=240, thorough=880,
            partitions_quick=["crash", "not crash"],
            partitions_thorough=[f"crash == {c} and r == {r} and u1 == {u}" for c in (True, False) for r in range(0, 3)
                                 for u in range(0, 5)],
            what="lifecycle lock under concurrency (real tasks on MiniLoop): a releaser (begin_release at r, "
                 "complete_release c seconds later unless it crashes) and two resumers that start at u1,u2 and poll every "
                 "0.5 s like the DBOS sender: at most ONE resumer takes ownership, a resumer is told 'send normally' "
                 "only while the row is active, and (crash or not) every resumer finishes once the release completed or "
                 "the crash timeout (1 s) expired",
            bounds={"release instant r": "0..2", "completion delay c": "0..2", "resumer instants": "0..RMAX",
                    "crash": "both"})
def ob_lock_concurrent(r: int, c: int, u1: int, u2: int, crash: bool) -> bool:
    """
    pre: 0 <= r <= 2 and 0 <= c <= 2 and 0 <= u1 <= RMAX and 0 <= u2 <= RMAX
    post: _
    """
    from vlib.miniloop import MiniLoop

    r = concrete(r, 0, 2)
    c = concrete(c, 0, 2)
    u1 = concrete(u1, 0, RMAX)
    u2 = concrete(u2, 0, RMAX)
    crash = bool(crash)
    loop = MiniLoop()

    def body(lock: Any, db: str, clock: _Clock) -> bool:
        clock.time = loop.time  # type: ignore[method-assign]
        out: Dict[str, Any] = {"owners": 0, "normal_bad": 0, "done": 0, "began": None}

        async def releaser() -> None:
            await asyncio.sleep(r)
            out["began"] = await lock.begin_release("r")
            if out["began"] and not crash:
                await asyncio.sleep(c)
                await lock.complete_release("r")

        async def resumer(u: int) -> None:
            await asyncio.sleep(u)
            for _ in range(12):
                res = await lock.try_begin_resume("r", crash_timeout_seconds=CT)
                if res is None:
                    if _row(db)[0] != "active":
                        out["normal_bad"] += 1
                    out["done"] += 1
                    return
                if res == lc.RunLifecycleState.released:
                    out["owners"] += 1
                    out["done"] += 1
                    return
                await asyncio.sleep(0.5)

        async def main() -> None:
            await lock.create("r")
            ts = [asyncio.ensure_future(x) for x in (releaser(), resumer(u1), resumer(u2))]
            for t in ts:
                await t

        loop.run_until_complete(main())
        if out["began"] is not True:
            return False
        return out["owners"] <= 1 and out["normal_bad"] == 0 and out["done"] == 2 and \
            (out["owners"] == 1) == (max(u1, u2) >= r)

    return _with_lock(body)


# ------------------------------------------------------------------------------------------------ two DBOS "replicas"
class CollectTwo(Workflow):
    def __init__(self, **kw: Any) -> None:
        super().__init__(**kw)
        self.calls: List[Any] = []

    @step
    async def begin(self, ctx: Context, ev: StartEvent) -> None:
        self.calls.append("begin")
        return None

    @step(num_workers=1)
    async def on_ext(self, ctx: Context, ev: ExtEv) -> Optional[StopEvent]:
        self.calls.append(("on_ext", ev.n))
        got = ctx.collect_events(ev, [ExtEv, ExtEv])
        if got is None:
            return None
        return StopEvent(result=sorted(e.n for e in got))


CRASH_TIMEOUT = float(dbos_ir.CRASH_TIMEOUT_SECONDS)


def _two_replicas(T: int, crash: bool, u1: int, u2: int) -> List[str]:
    """Replica A starts the run and releases it after T s idle (crash=True: the process of A dies right after its
    begin_release succeeded: its control loop and every background task stop, complete_release is never written).
    Two senders reach replica B at T+u1 and T+u2 (after A's timer of the same instant).  Returns the violations."""
    import llama_agents.server._service as svc
    import workflows.runtime.types.step_function as sf
    from llama_agents.server._store.abstract_workflow_store import HandlerQuery
    from llama_agents.server._store.memory_workflow_store import MemoryWorkflowStore
    from vlib.h_stores import TmpDir
    from vlib.miniloop import MiniLoop

    loop = MiniLoop()
    bad: List[str] = []
    obs: Dict[str, Any] = {"max_live": 0, "errors": []}

    with TmpDir() as d:
        db = os.path.join(d, "dbos.sqlite")
        h_idle.make_lifecycle_db(db)

        async def main() -> None:
            store = MemoryWorkflowStore()
            holder: Dict[str, Any] = {}

            class DyingLock:
                """fault injection only: forwards to the real lock; if `crash`, process A dies right after its
                begin_release returned True"""

                def __init__(self, real: Any) -> None:
                    self._real = real

                async def create(self, run_id: str) -> None:
                    await self._real.create(run_id)

                async def begin_release(self, run_id: str) -> bool:
                    ok = await self._real.begin_release(run_id)
                    if ok and crash:
                        a = holder["A"]
                        for t in a.basic.loops.get(run_id, []):
                            t.cancel()
                        for t in list(a.idle._background_tasks):
                            if t is not asyncio.current_task():
                                t.cancel()
                        raise asyncio.CancelledError()
                    return ok

                async def complete_release(self, run_id: str) -> None:
                    await self._real.complete_release(run_id)

                async def try_begin_resume(self, run_id: str, crash_timeout_seconds: Any = None) -> Any:
                    return await self._real.try_begin_resume(run_id, crash_timeout_seconds=crash_timeout_seconds)

            A = h_idle.DbosStack(T, db, store=store, wrap_lock=DyingLock)
            Bst = h_idle.DbosStack(10 ** 6, db, store=store)
            holder["A"] = A
            wfa, wfb = CollectTwo(timeout=None), CollectTwo(timeout=None)
            A.add_workflow("w", wfa)
            Bst.add_workflow("w", wfb)
            await A.service.start()
            await Bst.service.start()
            await A.service.start_workflow(wfa, "h1", None)
            await A.real_lock.create("run1")

            def live() -> int:
                return A.basic.live_loops("run1") + Bst.basic.live_loops("run1")

            async def watch() -> None:
                # both replicas' control loops, every quarter second until everything is over
                for _ in range(int((T + RMAX2 + 3 + (CRASH_TIMEOUT if crash else 0)) * 4)):
                    obs["max_live"] = max(obs["max_live"], live())
                    await asyncio.sleep(0.25)

            async def sender(i: int, at: float, payload: int) -> None:
                await asyncio.sleep(at - 0.5)
                await asyncio.sleep(0.5)           # registered late: A's release timer of the same instant goes first
                try:
                    await Bst.service.send_event("h1", _mk_event(payload))
                except Exception as e:  # noqa: BLE001
                    obs["errors"].append(f"send {i}: {type(e).__name__}: {e}")

            ts = [asyncio.ensure_future(watch()), asyncio.ensure_future(sender(0, T + u1, P1)),
                  asyncio.ensure_future(sender(1, T + u2, P2))]
            for t in ts:
                await t
            h = (await store.query(HandlerQuery(handler_id_in=["h1"])))[0]
            obs["status"], obs["result"] = h.status, (h.result.result if h.result is not None else None)
            obs["row"] = h_idle.lifecycle_row(db, "run1")
            obs["calls"] = [c for c in wfa.calls + wfb.calls if isinstance(c, tuple)]
            obs["resumes_on_B"] = len(Bst.basic.loops.get("run1", []))
            obs["loops_on_A"] = len(A.basic.loops.get("run1", []))
            obs["overlap"] = A.basic.overlap or Bst.basic.overlap
            obs["loop_exceptions"] = [str(c.get("exception") or c.get("message")) for c in loop._exc]

        clocks = h_idle.dbos_clock_modules()
        saved = (svc.nanoid, sf.uuid, dbos_ir.DBOS)
        svc.nanoid, sf.uuid, dbos_ir.DBOS = h_idle._FixedIds("run"), h_idle._FixedIds("span"), h_idle.DBOSUnavailable
        try:
            with h_idle.VirtualClocks(loop, time_mods=clocks["time"], datetime_mods=clocks["datetime"]):
                loop.run_until_complete(main())
        finally:
            svc.nanoid, sf.uuid, dbos_ir.DBOS = saved

    if obs["errors"] or obs["loop_exceptions"]:
        bad.append(f"errors {obs['errors']} {obs['loop_exceptions']}")
    if sorted(obs["calls"]) != [("on_ext", P2), ("on_ext", P1)]:
        bad.append(f"events consumed {obs['calls']}")
    if obs["status"] != "completed" or obs["result"] != sorted([P1, P2]):
        bad.append(f"final {obs['status']}/{obs['result']}")
    if obs["max_live"] > 1 or obs["overlap"]:
        bad.append(f"{obs['max_live']} live control loops at one time")
    if obs["resumes_on_B"] != 1 or obs["loops_on_A"] != 1:
        bad.append(f"{obs['resumes_on_B']} resumes on B, {obs['loops_on_A']} starts on A (one resumer must own the run)")
    if obs["row"] != "active":
        bad.append(f"lifecycle row ends {obs['row']!r}")
    return bad


RMAX2 = B(1, 2)


@obligation(quick=240, thorough=880,
            partitions_quick=["crash", "not crash"],
            partitions_thorough=[f"crash == {c} and T == {t}" for c in (True, False) for t in (1, 2, 3)],
            what="DBOS stack, two replicas sharing the lifecycle table and the store (real decorators + real sqlite lock, "
                 "stub inner runtimes): A releases the idle run after T s (optionally A dies right after begin_release); "
                 "two senders reach B u1,u2 s later: exactly one of them takes ownership and resumes the run on B (after "
                 "the release completed, or after the 120 s crash timeout), both events are consumed exactly once, the "
                 "run completes, never two live control loops across A and B",
            bounds={"idle_timeout T": "1..TMAXI", "sender delays u1,u2 after the release instant": "0..RMAX2",
                    "releaser crash": "both"})
def ob_dbos_two_replicas(T: int, u1: int, u2: int, crash: bool) -> bool:
    """
    pre: not DBOS_RUNTIME_TOUCHES_LIFECYCLE
    pre: 1 <= T <= TMAXI and 0 <= u1 <= RMAX2 and 0 <= u2 <= RMAX2
    post: _
    """
    T = concrete(T, 1, TMAXI)
    u1 = concrete(u1, 0, RMAX2)
    u2 = concrete(u2, 0, RMAX2)
    crash = bool(crash)
    bad = _two_replicas(T, crash, u1, u2)
    _debug(f"two_replicas T={T} u1={u1} u2={u2} crash={crash}", bad)
    return not bad



# ------------------------------------------------------------------------------------------------ DBOS stack: work after an internal wake-up
class _TwoWaitWork(Workflow):
    """waits (timeout x, nobody answers: the run wakes up BY ITSELF and goes idle a second time), waits again without timeout, is answered by a
    client at instant a, then works z seconds: release timers of both idle periods are around while the step works"""

    @step
    async def s0(self, ctx: Context, ev: StartEvent) -> StopEvent:
        try:
            await ctx.wait_for_event(ExtEv, waiter_id="q1", timeout=self.x)
        except asyncio.TimeoutError:
            pass
        b = await ctx.wait_for_event(ExtEv, waiter_id="q2", timeout=None)
        if self.z:
            await asyncio.sleep(self.z)
        return StopEvent(result=b.n)


def _two_wait_work(x: int, z: int):
    w = _TwoWaitWork(timeout=None)
    w.x, w.z = x, z
    return w


@obligation(quick=240, thorough=600,
            partitions_quick=[f"precreate == {p} and T == {t}" for p in (False, True) for t in (2, 3)],
            partitions_thorough=[f"precreate == {p} and T == {t} and z == {z}" for p in (False, True) for t in (2, 3, 4) for z in (0, 1, 2, 3)],
            what="DBOS stack (real DBOSIdleReleaseDecorator + real sqlite lifecycle lock over a stub inner runtime): a run that woke up by itself "
                 "(a wait_for_event timeout x < idle_timeout) and went idle a second time is answered by a client at instant a and then "
                 "works z seconds — it is not released while that step runs (no release timer of either idle period survives the event): "
                 "the run completes with the event's payload, no errors",
            bounds={"idle_timeout T": "2..3 (thorough 4)", "internal timeout x": "1..T-1", "answer instant a": "x+1..x+T+1", "work z": "0..3"})
def ob_dbos_work_after_internal_wake(T: int, x: int, a: int, z: int, precreate: bool) -> bool:
    """
    pre: not DBOS_RUNTIME_TOUCHES_LIFECYCLE
    pre: 2 <= T <= TW and 1 <= x < T and x < a <= x + T + 1 and 0 <= z <= 3
    post: _
    """
    T, x, a, z = concrete(T, 2, 4), concrete(x, 1, 3), concrete(a, 2, 9), concrete(z, 0, 3)
    precreate = bool(precreate)
    o = run_stack("dbos", T, [(a, P1)], lambda: _two_wait_work(x, z), _mk_event, early=True, probe_to=0, settle=T + 2, horizon=12,
                  precreate=precreate)
    bad = []
    if o["errors"] or o["loop_exceptions"]:
        bad.append(f"errors {o['errors']} {o['loop_exceptions']}")
    if o["status"] != "completed" or o["result"] != P1:
        bad.append(f"final {o['status']}/{o['result']} (lifecycle row {o['final']['lifecycle']}), wanted completed/{P1}")
    _debug(f"dbos internal wake T={T} x={x} a={a} z={z} precreate={precreate}", bad)
    return not bad


TW = B(3, 4)



@obligation(quick=240, thorough=600, partitions_quick=[f"lat == {l} and T == {t}" for l in (1, 2) for t in (1, 2)],
            what="in-process stack over a store whose handler look-ups by run id answer LATE (environment stub: the answer is read at once and "
                 "delivered lat seconds later, so the release timer decides on a stale answer unless it looks at the run again): a run that "
                 "wakes up by itself (a wait_for_event timeout x) while the release timer's look-up is in flight, and then works z seconds, "
                 "is not aborted in mid-step — it completes with its fallback result",
            bounds={"idle_timeout T": "1..2", "look-up latency": "1..2", "internal timeout x": "1..T+2*lat-1 (beyond that the timer is lost with the "
                    "released loop: KF-C26-2 / KF-C14-1)", "work after the wake-up z": "1..2"})
def ob_inproc_internal_wake_during_slow_lookup(T: int, lat: int, x: int, z: int) -> bool:
    """
    pre: 1 <= T <= 2 and 1 <= lat <= 2 and 1 <= z <= 2 and 1 <= x < T + 2 * lat
    post: _
    """
    T, lat, x, z = concrete(T, 1, 2), concrete(lat, 1, 2), concrete(x, 1, 5), concrete(z, 1, 2)
    o = run_stack("inproc", T, [], lambda: TimerWF(kind=0, x=x, z=z, timeout=None), _mk_event, early=True, probe_to=0, settle=0,
                  horizon=x + z + 4 * lat + T + 4, slow_write=(-1, lat, True))
    bad: List[str] = []
    if o["errors"] or o["loop_exceptions"]:
        bad.append(f"errors {o['errors']} {o['loop_exceptions']}")
    if o["status"] != "completed" or o["result"] != -1:
        bad.append(f"final {o['status']}/{o['result']}, wanted completed/-1")
    for ab in o["aborts"]:
        if ab["was_running"] and not abort_state_is_quiescent(ab):
            bad.append(f"t={ab['at']}: released with workers={ab['workers_running']} timer pending={ab['wakeup_pending']}")
    _debug(f"slow lookup T={T} lat={lat} x={x} z={z}", bad)
    return not bad



@obligation(quick=240, thorough=600, partitions_quick=[f"lat == {l} and land_first == {f}" for l in (1, 2) for f in (True, False)],
            partitions_thorough=[f"lat == {l} and land_first == {f} and T == {t}" for l in (1, 2) for f in (True, False) for t in (2, 3)],
            what="in-process stack over a store whose TICK-LOG appends take lat seconds (environment stub; the row lands before or after the "
                 "wait): a run that wakes up by itself (a wait_for_event timeout x < idle_timeout) and then works z seconds — the release "
                 "timer of the idle period it has just left falls due while the wake-up tick is still being persisted — is not aborted: it "
                 "completes with its fallback result, and no release happens with a worker running or a timer pending",
            bounds={"idle_timeout T": "2..3", "tick append latency": "1..2", "internal timeout x": "1..T-1", "work after the wake-up z": "1..2"})
def ob_inproc_internal_wake_during_slow_tick_write(T: int, lat: int, x: int, z: int, land_first: bool) -> bool:
    """
    pre: 2 <= T <= 3 and 1 <= lat <= 2 and 1 <= z <= 2 and 1 <= x < T
    post: _
    """
    T, lat, x, z = concrete(T, 2, 3), concrete(lat, 1, 2), concrete(x, 1, 2), concrete(z, 1, 2)
    land_first = bool(land_first)
    o = run_stack("inproc", T, [], lambda: TimerWF(kind=0, x=x, z=z, timeout=None), _mk_event, early=True, probe_to=0, settle=0,
                  horizon=x + z + 12 * lat + T + 4, slow_write=(-2, lat, land_first))
    bad: List[str] = []
    if o["errors"] or o["loop_exceptions"]:
        bad.append(f"errors {o['errors']} {o['loop_exceptions']}")
    if o["status"] != "completed" or o["result"] != -1:
        bad.append(f"final {o['status']}/{o['result']}, wanted completed/-1")
    for ab in o["aborts"]:
        if ab["was_running"] and not abort_state_is_quiescent(ab):
            bad.append(f"t={ab['at']}: released with workers={ab['workers_running']} timer pending={ab['wakeup_pending']}")
    _debug(f"slow tick write T={T} lat={lat} x={x} z={z} land_first={land_first}", bad)
    return not bad


# ----------------------------------------------------------------------------------------------- two retries waiting out different delays
from workflows.events import Event as _Event26  # noqa: E402


class EvBr(_Event26):
    k: int


class EvBrDone(_Event26):
    k: int


class _PerBranchDelay:
    """retry policy: branch k is retried once, after delays[k] seconds"""

    def __init__(self) -> None:
        self.delays = [1, 1]
        self.branch_of: Dict[int, int] = {}

    def next(self, elapsed_time: float, attempts: int, error: Exception) -> Any:
        if attempts > 1:
            return None
        return float(self.delays[int(str(error))])


_BR_POLICY = _PerBranchDelay()


class TwoRetriesWF(Workflow):
    """start fans out two branches; each branch's first attempt fails and is retried after its own delay (x0 < x1 in the scenarios); a join
    collects both.  While the later retry waits out its delay the earlier one has already been processed and the run is quiescent."""

    def __init__(self, **kw: Any) -> None:
        super().__init__(**kw)
        self.calls: List[Any] = []

    @step
    async def begin(self, ctx: Context, ev: StartEvent) -> EvBr | None:
        ctx.send_event(EvBr(k=0))
        ctx.send_event(EvBr(k=1))
        return None

    @step(num_workers=2, retry_policy=_BR_POLICY)
    async def branch(self, ctx: Context, ev: EvBr) -> EvBrDone:
        self.calls.append(("branch", ev.k))
        if self.calls.count(("branch", ev.k)) == 1:
            raise RuntimeError(str(ev.k))
        return EvBrDone(k=ev.k)

    @step
    async def join(self, ctx: Context, ev: EvBrDone) -> StopEvent | None:
        got = ctx.collect_events(ev, [EvBrDone, EvBrDone])
        if got is None:
            return None
        return StopEvent(result=sorted(e.k for e in got))


@obligation(quick=240, thorough=600, partitions_quick=[f"T == {t}" for t in (1, 2, 3)], partitions_thorough=[f"T == {t} and x0 == {x}" for t in (1, 2, 3) for x in (1, 2, 3)],
            what="in-process stack, TWO retries waiting out different delays (x0 < x1): after the earlier one has been retried the run is quiescent "
                 "while the later one is still in the timer heap — it is not announced idle / released (abort of the live loop) before that "
                 "retry has run, and the run completes with both branches",
            bounds={"idle_timeout T": "1..3", "earlier delay x0": "1..3", "later delay": "x0 + 1..3"})
def ob_inproc_two_pending_retries(T: int, x0: int, dx: int) -> bool:
    """
    pre: 1 <= T <= 3 and 1 <= x0 <= 3 and 1 <= dx <= 3
    post: _
    """
    T, x0, dx = concrete(T, 1, 3), concrete(x0, 1, 3), concrete(dx, 1, 3)
    _BR_POLICY.delays = [x0, x0 + dx]
    o = run_stack("inproc", T, [], lambda: TwoRetriesWF(timeout=None), _mk_event, early=True, probe_to=0, settle=0, horizon=x0 + dx + T + 4)
    bad: List[str] = []
    if o["errors"] or o["loop_exceptions"]:
        bad.append(f"errors {o['errors']} {o['loop_exceptions']}")
    for ab in o["aborts"]:
        if ab["was_running"] and not abort_state_is_quiescent(ab):
            bad.append(f"t={ab['at']}: released with mailbox={ab['mailbox']} workers={ab['workers_running']} timer pending={ab['wakeup_pending']}")
    if o["status"] != "completed" or o["result"] != [0, 1]:
        bad.append(f"final {o['status']}/{o['result']}, wanted completed/[0, 1]")
    _debug(f"two retries T={T} x0={x0} dx={dx}", bad)
    return not bad
