"""C03 — queued work never stalls (a step with waiting events runs at its full worker limit while the run is live) and
idleness (WorkflowIdleEvent / UnhandledEvent(idle=True)) is announced only when nothing is queued, running, waiting
for a scheduled retry, or delivered-but-unprocessed.

(1) R2 ("queue non-empty => in_progress == num_workers while running") preserved by every tick from every REP state;
(2) reducer: every idle flag / idle-check request is justified by a quiescent post-state (independent definition);
(3) runner: _process_tick(TickIdleCheck) on a symbolic state + symbolic timer heap publishes idle only if no retry is
    scheduled;  (4) bounded reach: the real runner driven through <= 7 macro-steps of a retrying workflow with a
symbolic clock, failure count and an injected unhandled event;  (5, thorough) whole runs on MiniLoop."""
from __future__ import annotations

import vlib.boot  # noqa: F401
from vlib.boot import B, drive
from vlib.ob import obligation
from vlib.h_handlers import conc  # noqa: E402
from vlib.h_idle import install_speedups  # noqa: E402
from workflows import Context, Workflow, step  # noqa: F401,E402  (module scope for step annotations)
from workflows.events import Event as _Event  # noqa: E402
from vlib.world import (
    EVA, EVB, EVC, EvA, EvB, EvC, StartEvent, StubPolicy, rep_R1, rep_R2, world_ab, world_ab_valid,
)

from workflows.events import StopEvent, UnhandledEvent, WorkflowIdleEvent
from workflows.runtime.control_loop import _ControlLoopRunner, _reduce_tick
from workflows.runtime.types.commands import CommandPublishEvent, CommandRunWorker, CommandScheduleIdleCheck
from workflows.runtime.types.internal_state import BrokerState
from workflows.runtime.types.plugin import InternalRunAdapter
from workflows.runtime.types.results import AddCollectedEvent, AddWaiter, StepWorkerFailed, StepWorkerResult
from workflows.runtime.types.ticks import (
    TickAddEvent, TickIdleCheck, TickStepResult, TickTimeout, TickWaiterTimeout,
)

install_speedups()  # tooling only (whole-run obligation); every solver decision is taken before the scenario starts

ENCODED = [
    "workflows.runtime.control_loop:_reduce_tick",
    "workflows.runtime.control_loop:_check_idle_state",
    "workflows.runtime.control_loop:_process_step_result_tick",
    "workflows.runtime.control_loop:_process_add_event_tick",
    "workflows.runtime.control_loop:_add_or_enqueue_event",
    "workflows.runtime.control_loop:_ControlLoopRunner._process_tick",
    "workflows.runtime.control_loop:_ControlLoopRunner._has_scheduled_event",
    "workflows.runtime.control_loop:_ControlLoopRunner.process_command",
    "workflows.runtime.control_loop:_ControlLoopRunner.pop_due_ticks",
    "workflows.runtime.control_loop:_ControlLoopRunner.run",
]
ASSUMES = [
    "pre-state satisfies REP (C01)", "adapter = recording stub with a scripted non-decreasing integer clock (environment)",
    "ob_runner_reach re-implements the drain/timeout order of _ControlLoopRunner.run() around the REAL _process_tick / "
    "pop_due_ticks / process_command (the real run() itself is exercised by the thorough whole-run obligation)",
    "pending wait_for_event time-outs are not 'work' in the statement's list and are not asserted",
]
OUTSIDE = ["num_workers > 3, more than 2 heap entries, more than 7 macro-steps", "adapters other than the asyncio one (DBOS)"]


def _quiescent(st: BrokerState) -> bool:
    for ws in st.workers.values():
        if len(ws.queue) > 0 or len(ws.in_progress) > 0:
            return False
    return True


def _idle_publications(cmds) -> int:
    n = 0
    for c in cmds:
        if isinstance(c, CommandPublishEvent):
            if isinstance(c.event, WorkflowIdleEvent):
                n += 1
            elif isinstance(c.event, UnhandledEvent) and c.event.idle:
                n += 1
    return n


def _mk_tick(tk: int, wid: int, kind: int):
    if tk == 0:
        return TickAddEvent.model_construct(event=EVA, step_name=None, attempts=None, first_attempt_at=None,
                                            last_exception=None, last_failed_at=None, recovery_counts={})
    if tk == 1:
        return TickAddEvent.model_construct(event=EVC, step_name=None, attempts=None, first_attempt_at=None,
                                            last_exception=None, last_failed_at=None, recovery_counts={})
    if tk == 2:
        return TickWaiterTimeout(step_name="a", waiter_id="w1")
    if tk == 3:
        return TickIdleCheck()
    if kind == 0:
        res = [StepWorkerResult.model_construct(result=None)]
    elif kind == 1:
        res = [StepWorkerResult.model_construct(result=EVB)]
    elif kind == 2:
        res = [StepWorkerFailed.model_construct(exception=ValueError("x"), failed_at=1.0)]
    elif kind == 3:
        res = [AddCollectedEvent.model_construct(event_id="buf", event=EVA)]
    elif kind == 4:
        res = [AddWaiter(waiter_id="w1", event_type=EvC, timeout=None)]
    elif kind == 5:
        # a collecting step (snapshot possibly stale) whose body then raised
        res = [AddCollectedEvent.model_construct(event_id="buf", event=EVA), StepWorkerFailed.model_construct(exception=ValueError("x"), failed_at=1.0)]
    else:
        # a collecting step (snapshot possibly stale) that then returned an event
        res = [AddCollectedEvent.model_construct(event_id="buf", event=EVA), StepWorkerResult.model_construct(result=EVB)]
    return TickStepResult.model_construct(step_name="a", worker_id=wid, event=EVA, result=res)


@obligation(quick=120, thorough=400,
            partitions_quick=[f"tk == {t}" for t in range(4)] + [f"tk == 4 and kind == {k}" for k in (0, 1, 3, 4, 6)] + [f"tk == 4 and kind == {k} and nw == {n}" for k in (2, 5) for n in (1, 2, 3)],
            partitions_thorough=[f"tk == {t} and nw == {n}" for t in range(4) for n in (1, 2, 3)] + [f"tk == 4 and kind == {k} and nw == {n}" for k in range(7) for n in (1, 2, 3)],
            what="every tick from every REP state: R2 (no stall) preserved; a slot whose worker just reported stays occupied only if that worker is "
                 "re-run by the same tick or parked on a waiter (no slot is held by nothing); idle-check request / idle flag only with a "
                 "quiescent live post-state",
            bounds={"num_workers": "1..3", "queue": "0..2", "tick kinds": "add(accepted)/add(waited-or-unhandled)/waiter-timeout/idle-check/step-result x7 (incl. collect + failure, collect + result)", "policy": "None/0/delay"})
def ob_no_stall_and_idle_flags(nw: int, b0: bool, b1: bool, b2: bool, q: int, wk: int, tk: int, wid: int, kind: int, pol: int,
                               live: int, snap: int, running: bool) -> bool:
    """
    pre: world_ab_valid(nw, b0, b1, b2, q) and q <= 2
    pre: 0 <= wk <= 3 and 0 <= tk <= 4 and 0 <= kind <= 6 and 0 <= pol <= 2 and 0 <= snap <= live <= 1
    pre: 0 <= wid <= 2 and (tk != 4 or (b0 if wid == 0 else (b1 if wid == 1 else b2)))
    pre: running or (q == 0 and not b0 and not b1 and not b2)
    post: _
    """
    st = world_ab(nw, b0, b1, b2, q, wait_kind=wk, policy=StubPolicy(pol), buf_live=live, buf_snap=snap, is_running=running)
    st2, cmds = _reduce_tick(_mk_tick(tk, wid, kind), st, 1, "r")
    if not (rep_R1(st2) and rep_R2(st2)):
        return False
    if tk == 4 and kind != 4:
        # the worker of slot (a, wid) has just reported and is not parking on a waiter: the slot is free again, or taken over by a
        # queued event / re-run of the same invocation - in both cases THIS tick starts a worker on it
        still = any(x.worker_id == wid for x in st2.workers["a"].in_progress)
        rerun = any(isinstance(c, CommandRunWorker) and c.step_name == "a" and c.id == wid for c in cmds)
        if still and not rerun:
            return False
    wants_check = any(isinstance(c, CommandScheduleIdleCheck) for c in cmds)
    n_idle = _idle_publications(cmds)
    if (wants_check or n_idle) and not (_quiescent(st2) and st2.is_running):
        return False
    return n_idle <= 1


@obligation(quick=90, thorough=300, partitions_quick=[f"nw == {n}" for n in (1, 2, 3)], partitions_thorough=[f"nw == {n} and q == {k}" for n in (1, 2, 3) for k in (0, 1, 2, 3)],
            what="a resumed / continued run (rewind_in_progress from ANY deserialized shape: any busy slots, any queue length, also on the second "
                 "step): afterwards no step has queued events while it is below its worker limit, every interrupted and queued event is still "
                 "there exactly once, and one worker is started per admitted event",
            bounds={"num_workers": "1..3", "queue of step a": "0..3", "interrupted invocations": "0..3", "step b": "idle / busy, queue 0..2"})
def ob_rewind_no_stall(nw: int, b0: bool, b1: bool, b2: bool, q: int, bb: bool, bq: int) -> bool:
    """
    pre: 1 <= nw <= 3 and 0 <= q <= 3 and 0 <= bq <= 2
    post: _
    """
    from workflows.runtime.control_loop import rewind_in_progress
    from workflows.runtime.types.commands import CommandRunWorker

    st = world_ab(nw, b0, b1, b2, q, b_busy=bb, b_q=bq)      # deliberately NOT REP
    before = {n: len(ws.in_progress) + len(ws.queue) for n, ws in st.workers.items()}
    st2, cmds = rewind_in_progress(st, 1)
    if not (rep_R1(st2) and rep_R2(st2)):
        return False
    for n, ws in st2.workers.items():
        if len(ws.in_progress) + len(ws.queue) != before[n]:
            return False
        started = [c for c in cmds if isinstance(c, CommandRunWorker) and c.step_name == n]
        if len(started) != len(ws.in_progress):
            return False
        if ws.queue and len(ws.in_progress) < ws.config.num_workers:
            return False
    return True


class CJob(_Event):
    n: int


class _CancelInside(Workflow):
    """`work` (one worker) lets the CancelledError of something it awaited escape for job 1 (an inner task that was cancelled, a cancelled
    future handed in from elsewhere); job 2 is queued behind it"""

    @step
    async def begin(self, ctx: Context, ev: StartEvent) -> CJob | None:
        ctx.send_event(CJob(n=1))
        ctx.send_event(CJob(n=2))
        return None

    @step(num_workers=1)
    async def work(self, ctx: Context, ev: CJob) -> StopEvent | None:
        import asyncio

        self.started.append(ev.n)
        if ev.n == 1 and self.how >= 0:
            fut = asyncio.get_running_loop().create_future()
            if self.how == 0:
                fut.cancel()                       # already cancelled when awaited
            else:
                asyncio.get_running_loop().call_later(self.how, fut.cancel)   # cancelled by somebody else while the step waits on it
            await fut
        return StopEvent(result=ev.n)


@obligation(quick=120, thorough=300,
            what="whole run, real BasicRuntime: a step invocation that lets a CancelledError of something it awaited escape (nobody cancelled the "
                 "run or the worker) does not hold its slot for ever: the run goes on — the queued event runs or the run ends with a failure — "
                 "instead of sitting with queued work next to a worker that no longer exists",
            bounds={"when the awaited future is cancelled": "before the await / 1..2 s into it / never (control)", "queue behind it": 1})
def ob_escaped_cancellation_frees_the_slot(how: int) -> bool:
    """
    pre: -1 <= how <= 2
    post: _
    """
    import asyncio

    import workflows.plugins.basic as basic_mod
    from vlib.miniloop import MiniLoop

    how = conc(how + 1, 0, 3) - 1
    out: dict = {}

    async def main():
        wf = _CancelInside(timeout=None, runtime=basic_mod.BasicRuntime())
        wf.how, wf.started = how, []
        h = wf.run(run_id="r1")
        try:
            out["end"] = ("result", await asyncio.wait_for(h, timeout=30))
        except asyncio.TimeoutError:
            out["end"] = ("HUNG", list(wf.started))
        except Exception as e:  # noqa: BLE001
            out["end"] = ("failed", type(e).__name__)

    MiniLoop().run_until_complete(main())
    kind = out.get("end", ("none",))[0]
    if how < 0:
        return out.get("end") == ("result", 1)
    return kind in ("result", "failed")       # anything but a run that sits there for ever


class _Adapter(InternalRunAdapter):
    def __init__(self, now: int = 0) -> None:
        self.now = now
        self.published: list = []
        self.ticks: list = []

    @property
    def run_id(self) -> str:
        return "r"

    async def write_to_event_stream(self, event) -> None:
        self.published.append(event)

    async def get_now(self) -> float:
        return self.now

    async def send_event(self, tick) -> None:
        raise vlib.boot.HarnessError("unexpected")

    async def wait_receive(self, timeout_seconds=None):
        raise vlib.boot.HarnessError("unexpected")

    async def on_tick(self, tick) -> None:
        self.ticks.append(tick)

    def get_state_store(self):
        return None


def _bare_runner(state, adapter) -> _ControlLoopRunner:
    r = _ControlLoopRunner.__new__(_ControlLoopRunner)
    r.workflow = None
    r.adapter = adapter
    r.context = None
    r.step_workers = {}
    r.state = state
    r.worker_tasks = set()
    r.tick_buffer = []
    r.scheduled_wakeups = []
    r._wakeup_sequence = 0
    r._pull_sequence = 0
    r._task_keys = {}
    r._idle_check_pending = False
    r._pending_workers = []
    return r


def _heap_tick(kind: int):
    if kind == 0:
        return TickAddEvent(event=EVA, step_name="a", attempts=1, first_attempt_at=0.0)
    if kind == 1:
        return TickWaiterTimeout(step_name="a", waiter_id="w1")
    return TickTimeout(timeout=10.0)


@obligation(quick=90, thorough=300, what="runner: processing TickIdleCheck on a symbolic state + symbolic timer heap announces idle only "
            "if the state is quiescent and no retry (TickAddEvent) is scheduled",
            bounds={"heap entries": "0..2 of {delayed retry, waiter timeout, run timeout}", "num_workers": "1..2", "queue": "0..1"})
def ob_runner_idle_check(nw: int, b0: bool, b1: bool, q: int, wk: int, running: bool, h: int, hk0: int, hk1: int, t0: int, t1: int) -> bool:
    """
    pre: 1 <= nw <= 2 and world_ab_valid(nw, b0, b1, False, q) and q <= 1 and 0 <= wk <= 3
    pre: running or (q == 0 and not b0 and not b1)
    pre: 0 <= h <= 2 and 0 <= hk0 <= 2 and 0 <= hk1 <= 2 and 0 <= t0 <= 3 and 0 <= t1 <= 3
    post: _
    """
    st = world_ab(nw, b0, b1, False, q, wait_kind=wk, is_running=running)
    ad = _Adapter(1)
    r = _bare_runner(st, ad)
    if h >= 1:
        r.schedule_tick(_heap_tick(hk0), at_time=t0)
    if h >= 2:
        r.schedule_tick(_heap_tick(hk1), at_time=t1)
    retry_pending = (h >= 1 and hk0 == 0) or (h >= 2 and hk1 == 0)
    res = drive(r._process_tick(TickIdleCheck()))
    idle = [e for e in ad.published if isinstance(e, WorkflowIdleEvent)]
    if idle and (retry_pending or not _quiescent(st) or not running):
        return False
    return res is None and len(idle) <= 1 and len(r.scheduled_wakeups) == h


@obligation(quick=150, thorough=600,
            partitions_quick=[f"nfail == {f} and inject {i}" for f in range(3) for i in ("== -1", "== 0", "== 1", "== 2", ">= 3")],
            partitions_thorough=[f"nfail == {f} and inject == {i} and delay == {d}" for f in range(3) for i in (-1, 0, 1, 2, 3, 4, 5) for d in range(3)],
            what="bounded reach: real runner macro-steps of a retrying one-step run (symbolic delay, attempts, failure count, "
                 "clock increments, one injected unhandled external event): at every idle announcement nothing is queued, running, "
                 "scheduled for retry, buffered or pending start",
            bounds={"macro-steps": 7, "delay": "0..2", "stop_after_attempt": "1..3", "failures": "0..2", "clock increments": "0..2"})
def ob_runner_reach(delay: int, n: int, nfail: int, inject: int, d0: int, d1: int, chk_unhandled: bool) -> bool:
    """
    pre: 0 <= delay <= 2 and 1 <= n <= 3 and 0 <= nfail <= 2 and -1 <= inject <= 5
    pre: 0 <= d0 <= 2 and 0 <= d1 <= 2
    post: _
    """
    from vlib.world import broker, pick, step_config, worker_state
    from workflows.retry_policy import retry_policy, stop_after_attempt, wait_fixed

    # fork on the small integers up front: the float arithmetic of the policy and the clock then runs on concrete values
    delay, n, d0, d1 = pick([0, 1, 2], delay), pick([1, 2, 3], n - 1), pick([0, 1, 2], d0), pick([0, 1, 2], d1)
    pol = retry_policy(wait=wait_fixed(delay), stop=stop_after_attempt(n))
    st0 = broker({"s1": worker_state(step_config([StartEvent], 1, pol))}, is_running=False)
    ad = _Adapter(0)
    runner = _bare_runner(st0, ad)
    start = StartEvent()
    runner.tick_buffer.append(TickAddEvent(event=start))
    incs = [d0, d1]
    failures = 0
    ok = True
    macro = 0
    try:
        while macro < 7:
            macro += 1
            # --- drain (mirrors run(): pop(0), reset the pending flag for idle checks, _process_tick)
            while runner.tick_buffer:
                tick = runner.tick_buffer.pop(0)
                if isinstance(tick, TickIdleCheck):
                    runner._idle_check_pending = False
                before = len(ad.published)
                res = drive(runner._process_tick(tick))
                for e in ad.published[before:]:
                    is_idle = isinstance(e, WorkflowIdleEvent) or (chk_unhandled and isinstance(e, UnhandledEvent) and e.idle)
                    if is_idle:
                        if any(isinstance(t, TickAddEvent) for (_, _, t) in runner.scheduled_wakeups):
                            ok = False
                        if any(isinstance(t, (TickAddEvent, TickStepResult)) for t in runner.tick_buffer):
                            ok = False
                        if runner._pending_workers or not _quiescent(runner.state):
                            ok = False
                if res is not None:
                    return ok
            # --- environment: exactly one thing completes per loop iteration, as wait_for_next_task guarantees:
            #     the pull delivers the external event, or a started worker finishes, or time passes to a wake-up
            if inject == macro:
                runner.tick_buffer.append(TickAddEvent(event=EVC))  # external event nobody accepts
            elif runner._pending_workers:
                p = runner._pending_workers.pop(0)
                p.coro.close()
                if failures < nfail:
                    failures += 1
                    result = [StepWorkerFailed(exception=ValueError("x"), failed_at=ad.now)]
                else:
                    result = [StepWorkerResult(result=None)]
                runner.tick_buffer.append(TickStepResult(step_name=p.step_name, worker_id=p.worker_id, event=start, result=result))
            else:
                timeout = runner.next_wakeup_timeout(ad.now)
                if timeout is None:
                    break
                ad.now = ad.now + timeout + incs[macro % 2]
                for t in runner.pop_due_ticks(ad.now):
                    runner.tick_buffer.append(t)
    except ValueError:
        pass  # the run failed for good (retries exhausted): CommandFailWorkflow re-raises the step's error
    return ok


# ------------------------------------------------------------------ thorough: the real run() loop

class Wb(_Event):
    """module level: step annotations are resolved against the module scope"""


class Fin(_Event):
    pass


@obligation(quick=None, thorough=900,
            # split on c1, not c0: (sends == 1 and c0 == 0) is the class of KF-C03-2 and must not empty a partition
            partitions_thorough=[f"sends == {s} and nfail == {f} and c1 == {a}" for s in (0, 1) for f in (0, 1) for a in range(3)],
            what="whole run on MiniLoop (real run() loop, BasicRuntime adapter with symbolic completion order): at every "
                 "WorkflowIdleEvent no step invocation is outstanding, no sent event is unconsumed, no retry is pending",
            bounds={"schedule decisions": 5, "ctx.send_event per start": "0..1", "failures": "0..1", "retry delay": "0..1"})
def ob_whole_run_idle(sends: int, nfail: int, delay: int, c0: int, c1: int, c2: int, c3: int, c4: int) -> bool:
    """
    pre: 0 <= sends <= 1 and 0 <= nfail <= 1 and 0 <= delay <= 1
    pre: 0 <= c0 <= 2 and 0 <= c1 <= 2 and 0 <= c2 <= 2 and 0 <= c3 <= 2 and 0 <= c4 <= 2
    post: _
    """
    import asyncio

    from vlib.sched import Env, SymAdapter, SymRuntime, run_loop
    from workflows import Context, Workflow, step
    from workflows.events import Event
    from workflows.retry_policy import retry_policy, stop_after_attempt, wait_fixed

    sends, nfail, delay, c0, c1, c2, c3, c4 = (conc(sends, 0, 1), conc(nfail, 0, 1), conc(delay, 0, 1), conc(c0, 0, 2), conc(c1, 0, 2),
                                               conc(c2, 0, 2), conc(c3, 0, 2), conc(c4, 0, 2))
    env = Env([c0, c1, c2, c3, c4])
    book = {"emitted": 0, "finished": 0, "fails": 0, "bad": False, "idles": 0}

    class RecAdapter(SymAdapter):
        async def write_to_event_stream(self, event) -> None:
            if isinstance(event, WorkflowIdleEvent):
                book["idles"] += 1
                if book["emitted"] != book["finished"]:
                    book["bad"] = True
            await super().write_to_event_stream(event)

    class Rt(SymRuntime):
        def get_internal_adapter(self, workflow):
            base = super().get_internal_adapter(workflow)
            return RecAdapter(base, self.env)

    class W(Workflow):
        @step
        async def start(self, ctx: Context, ev: StartEvent) -> Wb | None:
            if sends == 1:
                book["emitted"] += 1
                ctx.send_event(Wb())
                return None
            book["emitted"] += 1
            return Wb()

        @step(retry_policy=retry_policy(wait=wait_fixed(delay), stop=stop_after_attempt(3)))
        async def work(self, ev: Wb) -> None:
            if book["fails"] < nfail:
                book["fails"] += 1
                raise ValueError("x")
            book["finished"] += 1
            return None

        @step
        async def fin(self, ev: Fin) -> StopEvent:
            return StopEvent(result="done")

    res: list = []

    async def main():
        # Fin comes from outside (ctx.send_event by the caller): the graph check "consumed but never produced" does not apply
        h = W(timeout=None, runtime=Rt(env), disable_validation=True).run(run_id="r")
        # external caller: once the run has announced idle legitimately, finish it
        for _ in range(400):
            await asyncio.sleep(0)
            if book["idles"] > 0 and book["emitted"] == book["finished"]:
                break
        h.ctx.send_event(Fin())
        res.append(await h)

    run_loop(main)
    return res == ["done"] and not book["bad"]


# ------------------------------------------------------------------------------------------------ the real run() loop, retry coming due at any moment
# ob_runner_reach drives the runner's helpers from a MIRROR of run()'s drain loop; this one runs the real loop.  Time passes at every clock read
# of the runner (symbolic jumps), so the retry's delay may have elapsed at any point between the failing tick and the idle check.


class _JumpClock03:
    def __init__(self, loop, jumps) -> None:
        self.loop, self.jumps, self.k, self.extra = loop, list(jumps), 0, 0

    def now(self) -> float:
        return self.loop.time() + self.extra

    def read(self) -> float:
        self.extra += self.jumps[self.k % len(self.jumps)]     # the pattern repeats: the runner reads the clock once per tick and more
        self.k += 1
        return self.now()


class _JumpView03:
    def __init__(self, clock, jumping: bool) -> None:
        self._c, self._j = clock, jumping

    def time(self) -> float:
        return self._c.read() if self._j else self._c.now()

    monotonic = time
    perf_counter = time


from workflows.retry_policy import retry_policy as _rp03, stop_after_attempt as _saa03, wait_fixed as _wf03  # noqa: E402


class _RetryOnce(Workflow):
    @step
    async def begin(self, ctx: Context, ev: StartEvent) -> CJob:
        return CJob(n=1)

    @step(retry_policy=_rp03(wait=_wf03(1), stop=_saa03(4)))
    async def work(self, ctx: Context, ev: CJob) -> StopEvent:
        self.runs.append(ctx.retry_info().retry_number)
        if len(self.runs) <= self.nfail:
            raise ValueError("transient")
        return StopEvent(result=len(self.runs))


NJ03 = 6


@obligation(quick=200, thorough=500, partitions_quick=[f"j0 == {a} and j1 == {b}" for a in (0, 1, 2) for b in (0, 1, 2)],
            what="whole run, real BasicRuntime and run() loop, a step that fails once and is retried after 1 s, the clock jumping by symbolic amounts at "
                 "the runner's clock reads (so the retry may already be due when the failing tick has been processed, or while an idle check is "
                 "pending): the run is never announced idle while the retry is outstanding (no WorkflowIdleEvent before the StopEvent) and "
                 "completes with the retried result",
            bounds={"failures": "1..2", "retry delay": "1 s", "jumps": "a repeating pattern of 6 reads x 0..2 s"})
def ob_whole_run_retry_due_any_time(nfail: int, j0: int, j1: int, j2: int, j3: int, j4: int, j5: int) -> bool:
    """
    pre: 1 <= nfail <= 2
    pre: 0 <= j0 <= 2 and 0 <= j1 <= 2 and 0 <= j2 <= 2 and 0 <= j3 <= 2 and 0 <= j4 <= 2 and 0 <= j5 <= 2
    post: _
    """
    import asyncio

    import workflows.plugins.basic as basic_mod
    import workflows.runtime.types.step_function as sf_mod
    from vlib.miniloop import MiniLoop

    nfail = conc(nfail, 1, 2)
    jumps = [conc(j, 0, 2) for j in (j0, j1, j2, j3, j4, j5)]
    loop = MiniLoop()
    clock = _JumpClock03(loop, jumps)
    out: dict = {}

    async def main():
        wf = _RetryOnce(timeout=None, runtime=basic_mod.BasicRuntime())
        wf.runs, wf.nfail = [], nfail
        h = wf.run(run_id="r1")
        seen = []

        async def watch():
            async for e in h.stream_events(expose_internal=True):
                seen.append(e)

        wt = asyncio.ensure_future(watch())
        try:
            out["end"] = ("result", await asyncio.wait_for(h, timeout=60))
        except asyncio.TimeoutError:
            out["end"] = ("HUNG", None)
            wt.cancel()
            return
        except Exception as e:  # noqa: BLE001
            out["end"] = ("failed", type(e).__name__)
        await wt
        out["idle_before_stop"] = any(isinstance(e, WorkflowIdleEvent) for e in seen)

    saved = (basic_mod.time, sf_mod.time)
    basic_mod.time, sf_mod.time = _JumpView03(clock, True), _JumpView03(clock, False)
    try:
        loop.run_until_complete(main())
    finally:
        basic_mod.time, sf_mod.time = saved
    return out.get("end") == ("result", nfail + 1) and not out.get("idle_before_stop")
