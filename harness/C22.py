"""C22 - resource injection: caching, per-invocation freshness, cycle detection, under overlapping step invocations.

The REAL ``ResourceManager`` / ``Resource`` descriptors and the REAL ``partial()`` (the function that injects
resources into a step call) run on ``vlib.h_async.SymLoop``.  A dependency graph over three factories is built from
symbolic bits (edge i->j = factory i declares ``Annotated[object, Resource(factory_j, cache=c_j)]``; sync/async and
cached/non-cached are bits too; back edges give genuine cycles).  Async factories ``await asyncio.sleep(g)`` with a
symbolic ``g``; two step invocations start at symbolic instants, so z3 decides every overlap of the two resolutions.

Every produced value records which invocation's task created it and which dependency values it was given, so the
postcondition is stated on the object graph that was actually injected."""
from __future__ import annotations

import vlib.boot  # noqa: F401
from vlib.boot import B
from vlib.ob import obligation

import asyncio
import contextvars
import types
from typing import Annotated

from vlib.h_async import SymLoop, install_isinstance_compat, reraise_foreign

from workflows.decorators import StepConfig
from workflows.resource import Resource, ResourceDefinition, ResourceManager
from workflows.runtime.types.step_function import partial

ENCODED = [
    "workflows.resource:ResourceManager.get",
    "workflows.resource:ResourceManager._get",
    "workflows.resource:ResourceManager.resolution_scope",
    "workflows.resource:ResourceManager.set",
    "workflows.resource:_Resource.call",
    "workflows.resource:_Resource._resolve_dependencies",
    "workflows.resource:_Resource.get_dependencies",
    "workflows.resource:_Resource.resolve",
    "workflows.runtime.types.step_function:partial",
]
ASSUMES = [
    "event loop = vlib.h_async.SymLoop; nondeterminism = symbolic start instants of the two step invocations and "
    "symbolic completion delays of async factories (sleep(g); g = 0 still yields to the loop once)",
    "partial() is called with a duck-typed workflow (only `_resource_manager` is read by it) and a StepConfig built "
    "from the real dataclass / ResourceDefinition (model_construct); one ResourceManager per scenario = one workflow instance",
    "factories are distinct functions with distinct __qualname__ (the manager's cache key), side-effect free except for "
    "the harness's call log; they never fail",
    "CrossHair compat: isinstance(x, <Protocol with data members>) falls back to the genuine builtin (vlib.h_async.install_isinstance_compat)",
    "freshness of a non-cached resource is judged on objects created by the same invocation (a cached parent created "
    "by another invocation legitimately keeps that invocation's non-cached dependency)",
]
OUTSIDE = ["ResourceConfig (file-backed) descriptors", "more than 3 factories / 2 overlapping invocations",
           "factories that raise in OVERLAPPING resolutions (sequential ones: ob_failed_resolution)", "ResourceManager.set() called by user code during a run"]

if vlib.boot.under_crosshair():
    install_isinstance_compat()

_inv = contextvars.ContextVar("c22_inv", default=-1)


class _Val:
    __slots__ = ("res", "creator", "deps", "empty")

    def __init__(self, res, creator, deps):
        self.res = res
        self.creator = creator
        self.deps = deps
        self.empty = bool(_EMPTY[res]) if res < len(_EMPTY) else False

    def __len__(self):
        # a resource value may well be FALSY (an empty list / dict used as a shared buffer, 0, '' ...): ob_falsy_values sets _EMPTY
        return 0 if self.empty else 1


_EMPTY = [False, False, False]   # which factories produce a falsy value (see _Val.__len__)


def _scenario(n, edges, is_async, cached, gates, roots, starts) -> bool:
    """edges[i][j]: factory i depends on factory j.  roots[k]/starts[k]: invocation k injects the factories listed in roots[k]."""
    loop = SymLoop()
    calls = [[] for _ in range(n)]  # creator invocation of every factory call
    made = []  # every _Val produced

    def make_factory(i):
        if is_async[i]:
            async def fac(d0=None, d1=None, d2=None):
                me = _inv.get()
                calls[i].append(me)
                await asyncio.sleep(gates[i])
                v = _Val(i, me, [d0, d1, d2][:n])
                made.append(v)
                return v
        else:
            def fac(d0=None, d1=None, d2=None):
                me = _inv.get()
                calls[i].append(me)
                v = _Val(i, me, [d0, d1, d2][:n])
                made.append(v)
                return v
        fac.__qualname__ = fac.__name__ = "factory%d" % i
        return fac

    facs = [make_factory(i) for i in range(n)]
    descs = [Resource(facs[i], cache=bool(cached[i])) for i in range(n)]
    adj = [[False] * n for _ in range(n)]
    for i in range(n):
        ann = {}
        for j in range(n):
            if edges[i][j]:
                adj[i][j] = True
                ann["d%d" % j] = Annotated[object, descs[j]]
        facs[i].__annotations__ = ann

    # reference facts about the (now concrete) graph
    reach = [[adj[i][j] for j in range(n)] for i in range(n)]
    for k in range(n):
        for i in range(n):
            for j in range(n):
                if reach[i][k] and reach[k][j]:
                    reach[i][j] = True

    def cyclic_from(r):  # a genuine cycle is reachable from root r
        for x in range(n):
            if (x == r or reach[r][x]) and reach[x][x]:
                return True
        return False

    wf = types.SimpleNamespace(_resource_manager=ResourceManager())

    def cfg_for(rs):
        return StepConfig(accepted_events=[], event_name="ev", return_types=[], context_parameter=None, num_workers=1, retry_policy=None,
                          resources=[ResourceDefinition.model_construct(name="res%d" % i, resource=descs[i], type_annotation=object) for i in rs])

    cfgs = [cfg_for(rs) for rs in roots]
    got = [[None] * len(rs) for rs in roots]  # injected values per invocation, in parameter order
    errs = [None] * len(roots)

    def step_fn(ev=None, **res):
        return res

    async def invoke(k):
        _inv.set(k)
        await asyncio.sleep(starts[k])
        try:
            p = await partial(func=step_fn, step_config=cfgs[k], event=None, context=None, workflow=wf)
            got[k] = [p.keywords["res%d" % i] for i in roots[k]]
        except ValueError as e:
            errs[k] = e

    async def main():
        res = await asyncio.gather(*[asyncio.ensure_future(invoke(k)) for k in range(len(roots))], return_exceptions=True)
        reraise_foreign(res)
        for r in res:
            if isinstance(r, BaseException):
                raise r

    loop.run_until_complete(main())

    for k in range(len(roots)):
        cyc = False
        for r in roots[k]:
            if cyclic_from(r):
                cyc = True
        if cyc:
            if errs[k] is None or "ircular" not in str(errs[k]):
                return False  # genuine cycle not reported
        else:
            if errs[k] is not None:
                return False  # false cycle error
            for idx in range(len(roots[k])):
                v = got[k][idx]
                if v is None or v.res != roots[k][idx]:
                    return False
                if not cached[v.res] and v.creator != k:
                    return False  # non-cached resource not created fresh for this invocation
    for i in range(n):
        if cached[i]:
            if len(calls[i]) > 1:
                return False  # cached factory called twice for one manager
        else:
            for k in range(len(roots)):
                c = 0
                for who in calls[i]:
                    if who == k:
                        c += 1
                if c > 1:
                    return False  # not shared inside one resolution
    firsts = [None] * n
    vals = list(made)
    for v in vals:
        for j in range(n):
            w = v.deps[j]
            if adj[v.res][j]:
                if w is None or w.res != j:
                    return False  # dependency not injected
                if cached[j]:
                    if firsts[j] is None:
                        firsts[j] = w
                    elif firsts[j] is not w:
                        return False  # two different instances of a cached resource
                elif w.creator != v.creator:
                    return False  # non-cached instance shared across invocations
            elif w is not None:
                return False
    for k in range(len(roots)):
        for v in got[k]:
            if v is not None and cached[v.res]:
                if firsts[v.res] is None:
                    firsts[v.res] = v
                elif firsts[v.res] is not v:
                    return False
    # inside one invocation every consumer (objects it created, and the step itself) sees ONE instance of non-cached j
    for k in range(len(roots)):
        for j in range(n):
            if cached[j]:
                continue
            seen = None
            for v in vals:
                if v.creator != k or not adj[v.res][j]:
                    continue
                w = v.deps[j]
                if seen is None:
                    seen = w
                elif seen is not w:
                    return False
            for v in got[k]:
                if v is not None and v.res == j:
                    if seen is None:
                        seen = v
                    elif seen is not v:
                        return False
    return True


def _overlap(n, adj, asy, g, root_b, sa, sb, two=False) -> bool:
    ra = _closure(n, adj, 0)
    if two:
        r1 = _closure(n, adj, 1)
        ra = [ra[i] or r1[i] for i in range(n)]
    rb = _closure(n, adj, root_b)
    shared = False
    span = False
    da = 0
    db = 0
    for i in range(n):
        if ra[i] and rb[i]:
            shared = True
        if ra[i] and asy[i]:
            da += g[i]
            span = True
        if rb[i] and asy[i]:
            db += g[i]
            span = True
    return shared and span and sa <= sb + db and sb <= sa + da


def _closure(n, adj, r):
    inset = [False] * n
    inset[r] = True
    for _ in range(n):
        for i in range(n):
            if inset[i]:
                for j in range(n):
                    if adj[i][j]:
                        inset[j] = True
    return inset


def overlap_on_shared2(e01, e10, a0, a1, g0, g1, rb, sa, sb, two) -> bool:
    """Known-finding class (2 factories).  The two resolutions (invocation A on factory 0 [and 1 if two] from instant sa, invocation B
    on factory rb from sb) can be in flight at the same time - at least one of them reaches an async factory and the
    intervals [start, start + sum of the reachable async gates] touch - AND they reach a common factory.  That is
    exactly when ResourceManager's per-manager bookkeeping (`_resolving`, `_resolution_cache`, `_resolution_depth`)
    is shared by two live resolutions."""
    return _overlap(2, [[False, e01], [e10, False]], [a0, a1], [g0, g1], 1 if rb == 1 else 0, sa, sb, two)


def overlap_on_shared3(e01, e12, e02, e20, a0, a1, a2, g0, g1, g2, rb, sa, sb) -> bool:
    """Known-finding class (3 factories); see overlap_on_shared2."""
    adj = [[False, e01, e02], [False, False, e12], [e20, False, False]]
    return _overlap(3, adj, [a0, a1, a2], [g0, g1, g2], 1 if rb == 1 else (2 if rb == 2 else 0), sa, sb)


GQ = B(1, 2)
SQ = B(4, 5)
TWO_RB1 = B(False, True)  # quick: A injects two resources only when B injects factory 0
_P2 = [f"rb == {r} and a0 == {a} and a1 == {b} and two == {t}" for r in (0, 1) for a in (False, True) for b in (False, True) for t in (False, True)
       if TWO_RB1 or not (t and r == 1)]


@obligation(quick=150, thorough=500, partitions_quick=_P2, partitions_thorough=_P2,
            what="2 factories, edges 0->1 and 1->0 (genuine 2-cycle) symbolic, sync/async + cached/non-cached symbolic; two "
                 "invocations (A injects factory 0, or 0 and 1; B injects factory rb) at symbolic instants",
            bounds={"factories": 2, "edges": "e01,e10", "gate": "0..GQ", "start A": "0..2", "start B": "0..SQ"})
def ob_graph2(e01: bool, e10: bool, a0: bool, a1: bool, c0: bool, c1: bool, g0: int, g1: int, rb: int, sa: int, sb: int, two: bool) -> bool:
    """
    pre: 0 <= g0 <= GQ and 0 <= g1 <= GQ and 0 <= rb <= 1 and 0 <= sa <= 2 and 0 <= sb <= SQ
    pre: (a0 or g0 == 0) and (a1 or g1 == 0) and (TWO_RB1 or not (two and rb == 1))
    post: _
    """
    r = 1 if rb == 1 else 0
    return _scenario(2, [[False, e01], [e10, False]], [a0, a1], [c0, c1], [g0, g1], [[0, 1] if two else [0], [r]], [sa, sb])


@obligation(quick=150, thorough=300, partitions_quick=[f"f0 == {a} and f1 == {b}" for a in (False, True) for b in (False, True)],
            what="as ob_graph2 with resource VALUES that are falsy (len() == 0: an empty buffer, 0, ''): two invocations one after the other "
                 "(no overlap), every sync/async, cached/non-cached combination and edge set",
            bounds={"factories": 2, "falsy": "per factory", "invocations": "A injects 0 (or 0 and 1), B injects rb, B after A has finished"})
def ob_falsy_values(e01: bool, e10: bool, a0: bool, a1: bool, c0: bool, c1: bool, f0: bool, f1: bool, rb: int, two: bool) -> bool:
    """
    pre: 0 <= rb <= 1
    post: _
    """
    r = 1 if rb == 1 else 0
    _EMPTY[0], _EMPTY[1] = (True if f0 else False), (True if f1 else False)
    try:
        return _scenario(2, [[False, e01], [e10, False]], [a0, a1], [c0, c1], [1 if a0 else 0, 1 if a1 else 0], [[0, 1] if two else [0], [r]], [0, 4])
    finally:
        _EMPTY[0] = _EMPTY[1] = False


_P3 = [f"e01 == {a} and e12 == {b} and e02 == {c} and e20 == {d} and rb == {r}"
       for a in (False, True) for b in (False, True) for c in (False, True) for d in (False, True) for r in (0, 1, 2)]


@obligation(quick=None, thorough=600, partitions_thorough=_P3,
            what="3 factories: chain/diamond 0->1->2, 0->2 with optional back edge 2->0 (genuine cycle); two invocations, "
                 "second on a symbolic root",
            bounds={"factories": 3, "edges": "e01,e12,e02,e20", "async/cached": "symbolic per factory", "gate": "0..1", "start A": "0..1", "start B": "0..4"})
def ob_graph3(e01: bool, e12: bool, e02: bool, e20: bool, a0: bool, a1: bool, a2: bool, c0: bool, c1: bool, c2: bool,
              g0: int, g1: int, g2: int, rb: int, sa: int, sb: int) -> bool:
    """
    pre: 0 <= g0 <= 1 and 0 <= g1 <= 1 and 0 <= g2 <= 1 and 0 <= rb <= 2 and 0 <= sa <= 1 and 0 <= sb <= 4
    pre: (a0 or g0 == 0) and (a1 or g1 == 0) and (a2 or g2 == 0)
    post: _
    """
    edges = [[False, e01, e02], [False, False, e12], [e20, False, False]]
    r = 0
    if rb == 1:
        r = 1
    elif rb == 2:
        r = 2
    return _scenario(3, edges, [a0, a1, a2], [c0, c1, c2], [g0, g1, g2], [[0], [r]], [sa, sb])


# --------------------------------------------------------------------------------------------------------------
# a resolution that FAILS must leave nothing behind for the next (sequential) one
# --------------------------------------------------------------------------------------------------------------


class _Boom(Exception):
    pass


@obligation(quick=120, thorough=300, partitions_quick=[f"shape == {k}" for k in range(3)], partitions_thorough=[f"shape == {k} and c0 == {c}" for k in range(3) for c in (False, True)],
            what="sequential invocations, the first one FAILS inside its resolution (a factory raises after another resource of the same invocation "
                 "was already built): the error propagates, and the next invocation still gets a fresh non-cached object / the one cached object, "
                 "no false cycle, and the manager's per-resolution bookkeeping is empty again",
            bounds={"factories": "f0 (cached or not, sync or async) + failing f1 (independent / depends on f0 / f0 depends on it)", "invocations": "failing one, then 1..2 good ones"})
def ob_failed_resolution(shape: int, c0: bool, a0: bool, a1: bool, twice: bool) -> bool:
    """
    pre: 0 <= shape <= 2
    post: _
    """
    shape = 0 if shape == 0 else (1 if shape == 1 else 2)
    c0, a0, a1, twice = (True if c0 else False), (True if a0 else False), (True if a1 else False), (True if twice else False)
    calls = {"f0": 0, "f1": 0}
    fail = {"on": True}

    class Obj:
        pass

    def _mk(name, is_async, body):
        if is_async:
            async def fa(*a, **k):
                await asyncio.sleep(0)
                return body(*a, **k)
            fa.__qualname__ = fa.__name__ = name
            return fa

        def fs(*a, **k):
            return body(*a, **k)
        fs.__qualname__ = fs.__name__ = name
        return fs

    def body0(*a, **k):
        calls["f0"] += 1
        return Obj()

    def body1(*a, **k):
        calls["f1"] += 1
        if fail["on"]:
            raise _Boom("factory failed")
        return Obj()

    m = ResourceManager()
    if shape == 0:      # independent resources of one invocation: f0 resolved first, then f1 raises
        r0 = Resource(_mk("f0", a0, body0), cache=c0)
        r1 = Resource(_mk("f1", a1, body1), cache=False)
        first = [r0, r1]
    elif shape == 1:    # f1 depends on f0 (f0 is built inside f1's resolution), then f1's own body raises
        r0 = Resource(_mk("f0", a0, body0), cache=c0)

        if a1:
            async def f1(dep):
                await asyncio.sleep(0)
                return body1()
        else:
            def f1(dep):
                return body1()
        f1.__annotations__ = {"dep": Annotated[object, r0]}
        r1 = Resource(f1, cache=False)
        first = [r1]
    else:               # the step injects f0 and f1; f1 raises first, f0 never built in the failing invocation
        r0 = Resource(_mk("f0", a0, body0), cache=c0)
        r1 = Resource(_mk("f1", a1, body1), cache=False)
        first = [r1, r0]

    out = {"err": None, "vals": []}

    async def invocation(rs):
        with m.resolution_scope():   # what step_function.partial() does around the injection of one step invocation
            return [await m.get(r) for r in rs]

    async def main():
        try:
            await invocation(first)
        except _Boom as e:
            out["err"] = e
        built_in_failed = calls["f0"]
        fail["on"] = False
        v1 = (await invocation([r0]))[0]
        out["vals"].append(v1)
        if twice:
            out["vals"].append((await invocation([r0]))[0])
        out["built_in_failed"] = built_in_failed

    SymLoop().run_until_complete(main())
    if out["err"] is None:
        return False
    if m._resolving or m._resolution_depth != 0 or m._resolution_cache:
        return False
    n_good = 2 if twice else 1
    if c0:
        # cached: created once per manager (in the failing invocation if it got that far, else in the first good one)
        return calls["f0"] == 1 and all(v is out["vals"][0] for v in out["vals"])
    # non-cached: one fresh object per invocation that needed it
    if calls["f0"] != out["built_in_failed"] + n_good:
        return False
    return len({id(v) for v in out["vals"]}) == n_good


# ------------------------------------------------------------------------------------------------ factories with string annotations
import vlib.h_res_strings as _RS  # noqa: E402


@obligation(quick=60, thorough=120,
            what="factories annotated under `from __future__ import annotations` (dependency descriptors are rebuilt on every look-up): a "
                 "genuine two-factory cycle is reported as a circular dependency (a ValueError naming it — not a RecursionError, not a "
                 "result), cached or not; an acyclic chain written the same way resolves, the cached leaf once",
            bounds={"graphs": "a <-> b (cached / non-cached), top -> leaf", "start": "either factory"})
def ob_string_annotated_factories(which: int, cached: bool) -> bool:
    """
    pre: 0 <= which <= 2
    post: _
    """
    which = 0 if which == 0 else (1 if which == 1 else 2)
    cached = True if cached else False
    m = ResourceManager()
    del _RS.CALLS[:]
    if which == 2:
        async def ok():
            r1 = await m.get(Resource(_RS.chain_top))
            r2 = await m.get(Resource(_RS.chain_top))
            return r1, r2
        loop = SymLoop()
        r1, r2 = loop.run_until_complete(ok())
        return r1 is r2 and r1[1] == ("leaf",) and _RS.CALLS.count("leaf") == 1 and _RS.CALLS.count("top") == 1
    fac = (_RS.cyc_a if which == 0 else _RS.cyc_b) if cached else (_RS.cyc_a_nc if which == 0 else _RS.cyc_b_nc)

    async def cyc():
        try:
            await m.get(Resource(fac, cache=cached))
        except ValueError as e:
            return "Circular" in str(e)
        except RecursionError:
            return False
        return False

    return bool(SymLoop().run_until_complete(cyc()))


# ----------------------------------------------------------------------------------------------- config-backed resources (ResourceConfig)
import json as _json22  # noqa: E402
import os as _os22  # noqa: E402

from pydantic import BaseModel as _BM22  # noqa: E402

from vlib.h_stores import TmpDir as _TmpDir22, pick_int as _pick22, untraced as _untraced22  # noqa: E402
from workflows.resource import ResourceConfig as _ResourceConfig22  # noqa: E402


class _Limits22(_BM22):
    retries: int = 0
    hosts: list = []


@obligation(quick=90, thorough=200,
            what="a config-backed resource (ResourceConfig: always cached) whose descriptor sits in the CLASS-level annotation and is therefore "
                 "shared by every instance of the workflow class: each workflow instance (= each ResourceManager) gets ONE object of its own — "
                 "the same object on every injection within the instance, a different object from the other instance's, with the file's "
                 "values even after the other instance changed its copy",
            bounds={"instances": 2, "injections per instance": "1..2", "path selector": "none / a key of the JSON map", "who resolves first": "both orders"})
def ob_config_resource_per_instance(sel: bool, n1: int, n2: int, second_first: bool) -> bool:
    """
    pre: 1 <= n1 <= 2 and 1 <= n2 <= 2
    post: _
    """
    n1, n2 = _pick22(n1, 1, 2), _pick22(n2, 1, 2)
    sel, second_first = (True if sel else False), (True if second_first else False)
    with _untraced22():
        with _TmpDir22() as d:
            path = _os22.path.join(d, "conf.json")
            with open(path, "w") as f:
                _json22.dump({"limits": {"retries": 3, "hosts": ["a"]}} if sel else {"retries": 3, "hosts": ["a"]}, f)
            desc = _ResourceConfig22(path, "limits" if sel else None)
            desc.set_type_annotation(_Limits22)
            managers = [ResourceManager(), ResourceManager()]
            order = [1, 0] if second_first else [0, 1]
            got = {0: [], 1: []}

            async def main() -> None:
                for k in order:
                    for _ in range(n1 if k == 0 else n2):
                        got[k].append(await managers[k].get(desc))
                    if k == order[0]:
                        got[k][0].retries += 10           # the first instance works with ITS configuration object
                        got[k][0].hosts.append("b")

            SymLoop().run_until_complete(main())
            first, second = got[order[0]], got[order[1]]
            if any(x is not first[0] for x in first) or any(x is not second[0] for x in second):
                return False                               # not one object per instance
            if second[0] is first[0]:
                return False                               # the instances share an object
            return second[0].retries == 3 and second[0].hosts == ["a"] and first[0].retries == 13
