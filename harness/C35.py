"""C35 — step lifecycle telemetry is balanced and ordered: RUNNING (or PREPARING then RUNNING) before NOT_RUNNING on the
same worker, each RUNNING matched by exactly one NOT_RUNNING unless the run ends first, and a returned
InputRequiredEvent is published exactly once.

Trace property by induction: let open = {(step, worker) : RUNNING seen, NOT_RUNNING not yet}.  Invariant: open == keys
of in_progress.  Per tick (from any REP state) the StepStateChanged publications are exactly: one RUNNING per key that
enters in_progress, one NOT_RUNNING per key that leaves, NOT_RUNNING before RUNNING when a slot is reused in the same
tick, one PREPARING per event that had to be queued, nothing for a stale-collect re-run.  That gives balance and
order for histories of any length; 'unless the run ends first' = nothing is required of the tick carrying the exit."""
from __future__ import annotations

import vlib.boot  # noqa: F401
from vlib.boot import B
from vlib.ob import obligation
from vlib.world import (
    ASK, EVA, EVB, EVC, EvA, EvB, EvC, StartEvent, StubPolicy, world_ab, world_ab_valid,
)

from workflows.events import InputRequiredEvent, StepState, StepStateChanged
from workflows.runtime.control_loop import _reduce_tick, rewind_in_progress
from workflows.runtime.types.commands import CommandPublishEvent, CommandRunWorker, indicates_exit
from workflows.runtime.types.results import AddCollectedEvent, AddWaiter, StepWorkerFailed, StepWorkerResult
from workflows.runtime.types.ticks import TickAddEvent, TickStepResult, TickWaiterTimeout

ENCODED = [
    "workflows.runtime.control_loop:_process_step_result_tick",
    "workflows.runtime.control_loop:_process_add_event_tick",
    "workflows.runtime.control_loop:_process_waiter_timeout_tick",
    "workflows.runtime.control_loop:_add_or_enqueue_event",
    "workflows.runtime.control_loop:rewind_in_progress",
]
ASSUMES = ["pre-state satisfies REP (C01)", "user retry policy = StubPolicy (None / 0 / delay)",
           "publications reach the stream in command order (C04.ob_runner_outcome / _process_tick executes commands in order)"]
OUTSIDE = ["num_workers > 3, queue > 2", "telemetry of runs that were serialized mid-flight and resumed (a resumed run starts a new stream)"]


def _changes(cmds):
    """[(position, state, step, worker_id_str)] of StepStateChanged publications in command order."""
    out = []
    for i, c in enumerate(cmds):
        if isinstance(c, CommandPublishEvent) and isinstance(c.event, StepStateChanged):
            out.append((i, c.event.step_state, c.event.name, c.event.worker_id))
    return out


def _telemetry_ok(before, after, cmds, ticking=None, rerun=False) -> bool:
    ch = _changes(cmds)
    if any(indicates_exit(c) for c in cmds):
        return True  # the run ends with this tick
    for step in ("a", "b"):
        old = [x.worker_id for x in before.workers[step].in_progress]
        new = [x.worker_id for x in after.workers[step].in_progress]
        left = [k for k in old if k not in new]
        entered = [k for k in new if k not in old]
        if ticking is not None and ticking[0] == step and not rerun and ticking[1] in new:
            # the ticking worker's slot was freed and re-used within the same tick
            left = left + [ticking[1]]
            entered = entered + [ticking[1]]
        for k in range(3):
            n_run = len([1 for (_, s, n, w) in ch if s == StepState.RUNNING and n == step and w == str(k)])
            n_not = len([1 for (_, s, n, w) in ch if s == StepState.NOT_RUNNING and n == step and w == str(k)])
            if n_run != (1 if k in entered else 0) or n_not != (1 if k in left else 0):
                return False
            if k in entered and k in left:
                p_not = [p for (p, s, n, w) in ch if s == StepState.NOT_RUNNING and n == step and w == str(k)][0]
                p_run = [p for (p, s, n, w) in ch if s == StepState.RUNNING and n == step and w == str(k)][0]
                if p_not > p_run:
                    return False
        n_prep = len([1 for (_, s, n, w) in ch if s == StepState.PREPARING and n == step])
        grew = len(after.workers[step].queue) - len(before.workers[step].queue)
        if ticking is not None and ticking[0] == step:
            # on a step-result tick nothing is newly queued in that step: its queue only drains
            if n_prep != 0 or grew > 0:
                return False
        elif n_prep != max(grew, 0):
            return False
    # every RUNNING publication is accompanied by the RunWorker command of the same slot
    for (_, s, n, w) in ch:
        if s == StepState.RUNNING:
            if len([1 for c in cmds if isinstance(c, CommandRunWorker) and c.step_name == n and str(c.id) == w]) != 1:
                return False
    return True


@obligation(quick=120, thorough=400,
            partitions_quick=[f"evk == {e} and nw == {n}" for e in range(3) for n in (1, 2, 3)],
            partitions_thorough=[f"evk == {e} and nw == {n} and wk == {w}" for e in range(3) for n in (1, 2, 3) for w in range(4)],
            what="TickAddEvent / waiter resolution: one RUNNING per slot entered, one PREPARING per event queued for capacity, nothing else")
def ob_add_event(nw: int, b0: bool, b1: bool, b2: bool, q: int, wk: int, evk: int, bb: bool, bq: int) -> bool:
    """
    pre: world_ab_valid(nw, b0, b1, b2, q, bb, bq) and q <= 2 and bq <= 1
    pre: 0 <= wk <= 3 and 0 <= evk <= 2
    post: _
    """
    st = world_ab(nw, b0, b1, b2, q, wait_kind=wk, b_busy=bb, b_q=bq)
    ev = EVA if evk == 0 else (EVB if evk == 1 else EVC)
    tick = TickAddEvent.model_construct(event=ev, step_name=None, attempts=None, first_attempt_at=None,
                                        last_exception=None, last_failed_at=None, recovery_counts={})
    st2, cmds = _reduce_tick(tick, st, 1)
    return _telemetry_ok(st, st2, cmds)


@obligation(quick=120, thorough=400,
            partitions_quick=[f"kind == {k}" for k in range(7)],
            partitions_thorough=[f"kind == {k} and nw == {n}" for k in range(7) for n in (1, 2, 3)],
            what="TickStepResult: exactly one NOT_RUNNING for the finished worker (none for a stale-collect re-run), placed before the "
                 "RUNNING of a successor on the same slot; an InputRequiredEvent result is published exactly once (whether or not some "
                 "step of the workflow accepts that event type)")
def ob_step_result(nw: int, b0: bool, b1: bool, b2: bool, q: int, wid: int, kind: int, pol: int, live: int, snap: int, b_takes_ask: bool = False) -> bool:
    """
    pre: world_ab_valid(nw, b0, b1, b2, q) and q <= 2
    pre: 0 <= wid <= 2 and (b0 if wid == 0 else (b1 if wid == 1 else b2))
    pre: 0 <= kind <= 6 and 0 <= pol <= 2 and 0 <= snap <= live <= 2
    pre: kind == 5 or not b_takes_ask
    post: _
    """
    # b_takes_ask: another step of the workflow (an audit / reminder step) also consumes the InputRequiredEvent type that is returned
    st = world_ab(nw, b0, b1, b2, q, policy=StubPolicy(pol), buf_live=live, buf_snap=snap,
                  b_accepts=([EvB, StartEvent, type(ASK)] if b_takes_ask else None))
    if kind == 0:
        res = [StepWorkerResult.model_construct(result=None)]
    elif kind == 1:
        res = [StepWorkerResult.model_construct(result=EVB)]
    elif kind == 2:
        res = [StepWorkerFailed.model_construct(exception=ValueError("x"), failed_at=1.0)]
    elif kind == 3:
        res = [AddCollectedEvent.model_construct(event_id="buf", event=EVA)]
    elif kind == 4:
        res = [AddWaiter(waiter_id="w1", event_type=EvC, timeout=None)]
    elif kind == 5:
        res = [StepWorkerResult.model_construct(result=ASK)]
    else:
        res = [AddCollectedEvent.model_construct(event_id="buf", event=EVA), StepWorkerResult.model_construct(result=None)]
    tick = TickStepResult.model_construct(step_name="a", worker_id=wid, event=EVA, result=res)
    st2, cmds = _reduce_tick(tick, st, 1, "r")
    rerun = kind in (3, 6) and live > snap
    if not _telemetry_ok(st, st2, cmds, ("a", wid), rerun=rerun):
        return False
    n_ask = len([1 for c in cmds if isinstance(c, CommandPublishEvent) and isinstance(c.event, InputRequiredEvent)])
    return n_ask == (1 if kind == 5 else 0)


@obligation(quick=60, thorough=200, what="TickWaiterTimeout replay: RUNNING / PREPARING exactly as for a new invocation")
def ob_waiter_timeout(nw: int, b0: bool, b1: bool, b2: bool, q: int, wk: int) -> bool:
    """
    pre: world_ab_valid(nw, b0, b1, b2, q) and q <= 2 and 0 <= wk <= 3
    post: _
    """
    st = world_ab(nw, b0, b1, b2, q, wait_kind=wk)
    st2, cmds = _reduce_tick(TickWaiterTimeout(step_name="a", waiter_id="w1"), st, 1)
    return _telemetry_ok(st, st2, cmds)


@obligation(quick=90, thorough=300, partitions_quick=[f"nw == {n}" for n in (1, 2, 3)], partitions_thorough=[f"nw == {n}" for n in (1, 2, 3)],
            what="resume (rewind_in_progress): exactly one RUNNING for every restarted invocation, no NOT_RUNNING")
def ob_rewind(nw: int, b0: bool, b1: bool, b2: bool, q: int) -> bool:
    """
    pre: 1 <= nw <= 3 and 0 <= q <= 2
    post: _
    """
    st = world_ab(nw, b0, b1, b2, q)
    st2, cmds = rewind_in_progress(st, 1)
    ch = _changes(cmds)
    new = [x.worker_id for x in st2.workers["a"].in_progress]
    for k in range(3):
        n_run = len([1 for (_, s, n, w) in ch if s == StepState.RUNNING and n == "a" and w == str(k)])
        if n_run != (1 if k in new else 0):
            return False
    return not [1 for (_, s, n, w) in ch if s == StepState.NOT_RUNNING]


# ----------------------------------------------------------------------------------------------- whole run


from workflows import Context, Workflow, step  # noqa: E402
from workflows.events import Event, InputRequiredEvent as _IRE, StartEvent, StopEvent  # noqa: E402
from workflows.retry_policy import retry_policy, stop_after_attempt, wait_fixed  # noqa: E402
from vlib.h_handlers import conc  # noqa: E402
from vlib.h_idle import install_speedups  # noqa: E402

install_speedups()  # tooling only; every solver decision is taken before the scenario starts


class TJob(Event):
    i: int


class TDone(Event):
    i: int


class TAsk(_IRE):
    i: int


@obligation(quick=240, thorough=900,
            partitions_quick=[f"c0 == {a} and c1 == {b}" for a in range(3) for b in range(3)],
            partitions_thorough=[f"c0 == {a} and c1 == {b} and c2 == {c}" for a in range(3) for b in range(3) for c in range(3)],
            what="whole run of the real run() loop under a symbolic schedule (3 jobs fan out to a 2-worker step — so one has to wait for capacity —, "
                 "job 0 may fail once and be retried, one job returns an InputRequiredEvent, collect join): on the PUBLISHED stream every "
                 "(step, worker) alternates RUNNING / NOT_RUNNING starting with RUNNING (a RUNNING stays open only when the run ends first), nothing "
                 "follows the terminal event, the InputRequiredEvent is published exactly once per invocation that returned one",
            bounds={"schedule decisions": "4 (quick) / 6 (thorough), 3 options each", "workers": 2, "jobs": 3, "failures": "0..1"})
def ob_whole_run_stream(nfail: int, c0: int, c1: int, c2: int, c3: int, c4: int, c5: int) -> bool:
    """
    pre: 0 <= nfail <= 1 and 0 <= c0 <= 2 and 0 <= c1 <= 2 and 0 <= c2 <= 2 and 0 <= c3 <= 2 and 0 <= c4 <= 2 and 0 <= c5 <= 2
    pre: WR_DEEP or (c4 == 0 and c5 == 0)
    post: _
    """
    from vlib.sched import Env, SymAdapter, SymRuntime, run_loop

    nfail, c0, c1, c2, c3, c4, c5 = conc(nfail, 0, 1), conc(c0, 0, 2), conc(c1, 0, 2), conc(c2, 0, 2), conc(c3, 0, 2), conc(c4, 0, 2), conc(c5, 0, 2)
    env = Env([c0, c1, c2, c3, c4, c5])
    published: list = []
    book = {"fails": 0}

    class RecAdapter(SymAdapter):
        async def write_to_event_stream(self, event) -> None:
            published.append(event)
            await super().write_to_event_stream(event)

    class Rt(SymRuntime):
        def get_internal_adapter(self, workflow):
            return RecAdapter(super().get_internal_adapter(workflow), self.env)

    class W(Workflow):
        @step
        async def start(self, ctx: Context, ev: StartEvent) -> TJob | None:
            ctx.send_event(TJob(i=0))
            ctx.send_event(TJob(i=1))
            return TJob(i=2)

        @step(num_workers=2, retry_policy=retry_policy(wait=wait_fixed(0), stop=stop_after_attempt(3)))
        async def work(self, ctx: Context, ev: TJob) -> TDone | TAsk:
            await env.gate(ev.i)
            if ev.i == 0 and book["fails"] < nfail:
                book["fails"] += 1
                raise ValueError("transient")
            if ev.i == 2:
                return TAsk(i=2)
            return TDone(i=ev.i)

        @step
        async def join(self, ctx: Context, ev: TDone) -> StopEvent | None:
            got = ctx.collect_events(ev, [TDone, TDone])
            if got is None:
                return None
            return StopEvent(result=sorted(e.i for e in got))

    res: list = []

    async def main():
        res.append(await W(timeout=None, runtime=Rt(env)).run(run_id="r"))

    run_loop(main)
    if res != [[0, 1]]:
        return False
    open_: dict = {}
    prep = 0
    asks = 0
    ask_results = 0
    ended = False
    for e in published:
        if ended:
            return False                      # nothing after the terminal event
        if isinstance(e, StopEvent):
            ended = True
            continue
        if isinstance(e, TAsk):
            asks += 1
            continue
        if not isinstance(e, StepStateChanged):
            continue
        key = (e.name, e.worker_id)
        if e.step_state == StepState.PREPARING:
            prep += 1
        elif e.step_state == StepState.RUNNING:
            if open_.get(key):
                return False                  # RUNNING on a worker that is already RUNNING
            open_[key] = True
        elif e.step_state == StepState.NOT_RUNNING:
            if not open_.get(key):
                return False                  # NOT_RUNNING without a RUNNING
            open_[key] = False
            if "TAsk" in str(e.output_event_name):
                ask_results += 1              # the invocation that returned the InputRequiredEvent was closed on the stream
    # a RUNNING may stay open only because the run ended first (the statement's exception); an InputRequiredEvent is published
    # exactly once per invocation that returned one (and whose completion reached the stream)
    return ended and asks == ask_results and asks <= 1


WR_DEEP = B(False, True)


# ----------------------------------------------------------------------------------------------- a run RESUMED with work in it
class _ResumeW(Workflow):
    """3 jobs fan out to a 2-worker step (one waits for capacity); life 1: job i takes dur[i] (1000 = hangs until the cancellation);
    life 2 (resumed): every job takes 1 s"""

    @step
    async def start(self, ctx: Context, ev: StartEvent) -> TJob | None:
        for i in range(3):
            ctx.send_event(TJob(i=i))
        return None

    @step(num_workers=2)
    async def work(self, ctx: Context, ev: TJob) -> TDone:
        import asyncio

        await asyncio.sleep(self.dur[ev.i] if self.life[0] == 1 else 1)
        return TDone(i=ev.i)

    @step
    async def join(self, ctx: Context, ev: TDone) -> StopEvent | None:
        got = ctx.collect_events(ev, [TDone] * 3)
        if got is None:
            return None
        return StopEvent(result=sorted(e.i for e in got))


@obligation(quick=200, thorough=400, partitions_quick=[f"c == {c}" for c in (1, 2, 3)], partitions_thorough=[f"c == {c} and d0 == {d}" for c in (1, 2, 3) for d in (0, 1, 2, 3)],
            what="a run cancelled mid-way (invocations in flight and queued), context through to_dict -> JSON -> Context.from_dict, RESUMED through the "
                 "real run() start-up (rewind_in_progress + process_command): on the resumed run's published stream every (step, worker) "
                 "alternates RUNNING / NOT_RUNNING starting with RUNNING — the invocations restarted by the resume are announced RUNNING like "
                 "new ones — and the run completes with all results",
            bounds={"jobs": 3, "workers": 2, "first-life durations": "0..2 or hanging, per job", "cancel at": "1..3"})
def ob_resumed_run_stream(c: int, d0: int, d1: int, d2: int) -> bool:
    """
    pre: 1 <= c <= 3 and 0 <= d0 <= 3 and 0 <= d1 <= 3 and 0 <= d2 <= 3
    post: _
    """
    import asyncio
    import json

    import workflows.plugins.basic as basic_mod
    import workflows.runtime.types.step_function as sf_mod
    from vlib.h_idle import FakeTime
    from vlib.miniloop import MiniLoop
    from workflows.errors import WorkflowCancelledByUser

    c, d0, d1, d2 = conc(c, 1, 3), conc(d0, 0, 3), conc(d1, 0, 3), conc(d2, 0, 3)
    life = [1]
    loop = MiniLoop()
    out: dict = {}
    seen: list = []

    def mk():
        w = _ResumeW(timeout=None, runtime=basic_mod.BasicRuntime())
        w.life, w.dur = life, [1000 if d == 3 else d for d in (d0, d1, d2)]
        return w

    async def main():
        h1 = mk().run(run_id="r1")
        await asyncio.sleep(c)
        await h1.cancel_run()
        try:
            out["first"] = ("finished", await h1)
            return
        except WorkflowCancelledByUser:
            out["first"] = ("cancelled", None)
        snap = json.loads(json.dumps(h1.ctx.to_dict()))
        life[0] = 2
        w2 = mk()
        h2 = w2.run(ctx=Context.from_dict(w2, snap), run_id="r2")

        async def watch():
            async for e in h2.stream_events(expose_internal=True):
                seen.append(e)

        wt = asyncio.ensure_future(watch())
        try:
            out["second"] = ("result", await asyncio.wait_for(h2, timeout=30))
        except asyncio.TimeoutError:
            out["second"] = ("HUNG", None)
            wt.cancel()
            return
        await wt

    saved = (basic_mod.time, sf_mod.time)
    basic_mod.time = sf_mod.time = FakeTime(loop)
    try:
        loop.run_until_complete(main())
    finally:
        basic_mod.time, sf_mod.time = saved
    if out.get("first", ("", None))[0] == "finished":
        return out["first"][1] == [0, 1, 2]            # everything was done before the cancellation: nothing to resume
    if out.get("second") != ("result", [0, 1, 2]):
        return False
    open_: dict = {}
    for e in seen:
        if not isinstance(e, StepStateChanged):
            continue
        key = (e.name, e.worker_id)
        if e.step_state == StepState.RUNNING:
            if open_.get(key):
                return False
            open_[key] = True
        elif e.step_state == StepState.NOT_RUNNING:
            if not open_.get(key):
                return False                          # NOT_RUNNING for an invocation that was never announced RUNNING
            open_[key] = False
    return True


# ----------------------------------------------------------------------------------------------- the stream does not depend on a logging switch
@obligation(quick=150, thorough=300, partitions_quick=[f"d0 == {d}" for d in (1, 2)], partitions_thorough=[f"d0 == {d} and d1 == {e}" for d in (1, 2) for e in (1, 2, 3)],
            what="Workflow(verbose=True) only PRINTS: the published StepStateChanged sequence of a run (3 jobs into a 2-worker step, so one "
                 "invocation has to wait for capacity: PREPARING, later RUNNING) is the same as without it — in particular the PREPARING "
                 "announcement of the waiting invocation is on the stream, before that invocation's RUNNING",
            bounds={"jobs": 3, "workers": 2, "job durations": "1..2 (thorough 3) each: all three are in the run at the same time"})
def ob_verbose_does_not_change_the_stream(d0: int, d1: int, d2: int) -> bool:
    """
    pre: 1 <= d0 <= 2 and 1 <= d1 <= DV35 and 1 <= d2 <= DV35
    post: _
    """
    import asyncio
    import contextlib
    import io

    import workflows.plugins.basic as basic_mod
    import workflows.runtime.types.step_function as sf_mod
    from vlib.h_idle import FakeTime
    from vlib.miniloop import MiniLoop

    d0, d1, d2 = conc(d0, 1, 2), conc(d1, 1, 3), conc(d2, 1, 3)

    def one(verbose: bool):
        loop = MiniLoop()
        seen: list = []
        res: list = []

        async def main():
            w = _ResumeW(timeout=None, runtime=basic_mod.BasicRuntime(), verbose=verbose)
            w.life, w.dur = [1], [d0, d1, d2]
            h = w.run(run_id="r")

            async def watch():
                async for e in h.stream_events(expose_internal=True):
                    seen.append(e)

            wt = asyncio.ensure_future(watch())
            res.append(await asyncio.wait_for(h, timeout=30))
            await wt

        saved = (basic_mod.time, sf_mod.time)
        basic_mod.time = sf_mod.time = FakeTime(loop)
        try:
            with contextlib.redirect_stdout(io.StringIO()):
                loop.run_until_complete(main())
        finally:
            basic_mod.time, sf_mod.time = saved
        return res, [(e.name, str(e.step_state), e.worker_id, e.input_event_name) for e in seen if isinstance(e, StepStateChanged)]

    res_q, quiet = one(False)
    res_v, loud = one(True)
    if res_q != [[0, 1, 2]] or res_v != [[0, 1, 2]]:
        return False
    prep = [x for x in quiet if x[0] == "work" and "PREPARING" in x[1].upper()]
    import os
    import sys

    if os.environ.get("VERIF_DEBUG"):
        sys.stderr.write(f"res {res_q} {res_v}\nquiet {quiet}\nloud {loud}\n")
    return quiet == loud and len(prep) == 1


DV35 = B(2, 3)
