"""C37 — llamactl never activates a profile the user did not pick in that environment.

Engine S over the REAL ``ConfigManager`` (SQLite file in a private config dir selected through the documented
``LLAMACTL_CONFIG_DIR`` override; sqlite3 executes concretely), the REAL ``EnvService`` and the profile-selection
methods of the REAL ``AuthService`` obtained through ``EnvService.current_auth_service()`` exactly like the CLI
commands do.  Operations (what the ``llamactl auth ...`` / ``llamactl auth env ...`` commands call):

  0 env add u        EnvService.create_or_update_environment(Environment(U[u]))
  1 env switch u     EnvService.switch_environment(U[u])            (ValueError when unknown = rejected, no effect)
  2 env delete u     EnvService.delete_environment(U[u])
  3 token login n    AuthService.create_profile_from_token("proj", KEY[n])   (creates + selects; ValueError when taken)
  4 auth switch n    AuthService.get_profile(NAME[n]) and then set_current_profile(NAME[n])   (CLI _select_profile)
  5 set project n    AuthService.set_project(NAME[n], "proj2")      (profile update)
  6 logout n         AuthService.delete_profile(NAME[n])            (async, no api_key_id => no network)
  7 auto select      AuthService.select_any_profile()               (what `env switch` does after switching)
  8 oidc login n     AuthService.create_or_update_profile_from_oidc("proj", DeviceOIDC(email=NAME[n], user_id=UID[n]))

A ghost monitor, written from the statement and fed only by what the public API reports (current environment before
the operation, what the operation returned), records which profile names were selected or created while which
environment was current.  Two readings of "selected or created while that environment was current" are monitored:

* EVER  (weakest; implied by every reading): the active profile's name is in the set of names selected/created at
  some time while the now-current environment was current (entries die with the profile / the environment);
* STINT (strict; the reading under which "clear profile on environment switch" is the mechanism): the active profile
  is the one selected/created since the current environment last became current.
"""
from __future__ import annotations

import vlib.boot  # noqa: F401
from vlib.boot import B, THOROUGH, drive  # noqa: F401

import os
import shutil
import sqlite3
import tempfile
from dataclasses import replace

from vlib.h_tools import cbool, cint, untraced
from vlib.ob import obligation

from llama_agents.cli.config._config import ConfigManager
from llama_agents.cli.config.auth_service import AuthService, _auto_profile_name_from_token  # noqa: F401
from llama_agents.cli.config.env_service import EnvService
from llama_agents.cli.config.schema import DEFAULT_ENVIRONMENT, DeviceOIDC, Environment

ENCODED = [
    "llama_agents.cli.config._config:ConfigManager.delete_environment",
    "llama_agents.cli.config._config:ConfigManager.delete_profile",
    "llama_agents.cli.config._config:ConfigManager.create_profile",
    "llama_agents.cli.config._config:ConfigManager.get_current_profile",
    "llama_agents.cli.config._config:ConfigManager.get_current_environment",
    "llama_agents.cli.config._config:ConfigManager.set_settings_current_profile",
    "llama_agents.cli.config._config:ConfigManager.set_settings_current_environment",
    "llama_agents.cli.config._config:ConfigManager.create_or_update_environment",
    "llama_agents.cli.config._config:ConfigManager.list_environments",
    "llama_agents.cli.config._config:ConfigManager.update_profile",
    "llama_agents.cli.config._config:ConfigManager.set_project",
    "llama_agents.cli.config.env_service:EnvService.switch_environment",
    "llama_agents.cli.config.env_service:EnvService.create_or_update_environment",
    "llama_agents.cli.config.env_service:EnvService.delete_environment",
    "llama_agents.cli.config.env_service:EnvService.current_auth_service",
    "llama_agents.cli.config.auth_service:AuthService.create_profile_from_token",
    "llama_agents.cli.config.auth_service:AuthService.create_or_update_profile_from_oidc",
    "llama_agents.cli.config.auth_service:AuthService.set_current_profile",
    "llama_agents.cli.config.auth_service:AuthService.select_any_profile",
    "llama_agents.cli.config.auth_service:AuthService.get_current_profile",
    "llama_agents.cli.config.auth_service:AuthService.delete_profile",
]
ASSUMES = [
    "one llamactl process at a time on the config dir (no concurrent writers); sqlite3 and the packaged SQL migrations execute concretely",
    "operations are the service calls the CLI commands make, always through EnvService.current_auth_service() (the CLI never "
    "builds an AuthService for a non-current environment to create or select profiles); 'auth switch' only selects an existing "
    "profile (commands/auth.py:_select_profile)",
    "environment URLs from a pool of 3 (built-in default + 2), profile names from a pool of 2 ('default' and the redacted "
    "token name) — which (environment, name) pairs coincide is what the solver explores",
    "every symbolic op code / argument is decided while the script is decoded; the real services then run on realised "
    "values with CrossHair's opcode tracing off (sqlite3 is a C extension either way)",
    "ob_step_strict: the pre-state is ANY configuration of the bounded shape written through the real ConfigManager API that "
    "satisfies REP (the selection setting is empty, or equals the ghost, or dangles = names no profile of the current environment)",
    "name-only shims jwt / cryptography / truststore let auth_service.py import; nothing in them is ever called",
]
OUTSIDE = [
    "network-facing AuthService methods (fetch_server_version, profile_client, auth_middleware, token refresh), "
    "EnvService.auto_update_env / probe_environment, interactive prompts",
    "ops 9/10 (profile rename through update_profile, ConfigManager.create_profile for any environment) are in the one-step "
    "obligation ob_step_ever only, not in the scripts; an IN-environment rename from a pre-state whose selection setting dangles "
    "is outside (with raw ConfigManager calls, 3 names and a profile provisioned while another environment was current, "
    "'rename active away, rename the provisioned one onto the old name' activates it: by reading; no llamactl command renames)",
    "moving a profile to another environment by update_profile(api_url=...)",
    "unspecified: whether 'selected or created while that environment was current' means ever (EVER monitor: holds) or since "
    "the environment last became current (STINT monitor: violated by deleting the current environment, see ob_step_strict)",
    "scripts longer than the bound; more than 3 environments / 2 profile names",
]

U = [DEFAULT_ENVIRONMENT.api_url, "https://a.example", "https://b.example"]
KEY = [None, "llx-0123456789abcdef"]
NAME = ["default", _auto_profile_name_from_token(KEY[1])]
UID = ["user-0", "user-1"]
NOPS = 9
LQ = B(3, 4)   # script length of ob_script
NENV = B(2, 3)  # environments in the one-step obligation (quick: default + A)

_BASE = os.path.join("/dev/shm" if os.path.isdir("/dev/shm") else tempfile.gettempdir(), f"verif-c37-{os.getpid()}")


class World:
    """Real services over a fresh config dir + the ghost monitor."""

    def __init__(self) -> None:
        shutil.rmtree(_BASE, ignore_errors=True)
        os.makedirs(_BASE)
        self._old = os.environ.get("LLAMACTL_CONFIG_DIR")
        os.environ["LLAMACTL_CONFIG_DIR"] = _BASE
        self.cm = ConfigManager()
        self.env = EnvService(lambda: self.cm)
        self.ever = {}        # env url -> set of names selected/created while it was current
        self.ghost = None     # STINT: name selected/created since ghost_env became current
        self.ghost_env = self.env.get_current_environment().api_url

    def close(self) -> None:
        if self._old is None:
            os.environ.pop("LLAMACTL_CONFIG_DIR", None)
        else:
            os.environ["LLAMACTL_CONFIG_DIR"] = self._old
        shutil.rmtree(_BASE, ignore_errors=True)

    # ---- monitor ---------------------------------------------------------------------------------------------
    def _picked(self, env_url: str, name: str) -> None:
        self.ever.setdefault(env_url, set()).add(name)
        self.ghost, self.ghost_env = name, env_url

    def _profile_gone(self, env_url: str, name: str) -> None:
        self.ever.get(env_url, set()).discard(name)
        if self.ghost_env == env_url and self.ghost == name:
            self.ghost = None

    # ---- one operation through the real services ----------------------------------------------------------------
    def apply(self, op: int, arg: int) -> None:
        before = self.env.get_current_environment().api_url
        if op == 0:
            self.env.create_or_update_environment(Environment(api_url=U[arg], requires_auth=False))
        elif op == 1:
            try:
                self.env.switch_environment(U[arg])
            except ValueError:
                pass
        elif op == 2:
            if self.env.delete_environment(U[arg]):
                self.ever.pop(U[arg], None)
                if self.ghost_env == U[arg]:
                    self.ghost = None
        else:
            svc = self.env.current_auth_service()
            n = arg % 2
            if op == 3:
                try:
                    created = svc.create_profile_from_token("proj", KEY[n])
                except ValueError:
                    created = None
                if created is not None:
                    self._picked(before, created.name)
            elif op == 4:
                if svc.get_profile(NAME[n]) is not None:
                    svc.set_current_profile(NAME[n])
                    self._picked(before, NAME[n])
            elif op == 5:
                svc.set_project(NAME[n], "proj2")
            elif op == 6:
                drive(svc.delete_profile(NAME[n]))
                self._profile_gone(before, NAME[n])
            elif op == 7:
                profiles = svc.list_profiles()
                svc.select_any_profile()
                if profiles:
                    chosen = self.cm.get_settings_current_profile_name()
                    self._picked(before, chosen)
            elif op == 8:
                oidc = DeviceOIDC(device_name="dev", user_id=UID[n], email=NAME[n], client_id="c", discovery_url="d",
                                  device_access_token="t")
                try:
                    got = svc.create_or_update_profile_from_oidc("proj", oidc)
                except ValueError:
                    got = None
                if got is not None:
                    self._picked(before, got.name)
            elif op == 9:
                e, n = arg // 2, arg % 2
                old = self.cm.get_profile(NAME[n], U[e])
                if old is not None:
                    try:
                        svc.update_profile(replace(old, name=NAME[1 - n]))
                    except sqlite3.IntegrityError:
                        pass                                   # name taken in that environment: rejected
                    else:                                      # the monitor follows the profile, not the name
                        names = self.ever.get(U[e], set())
                        if NAME[n] in names:
                            names.discard(NAME[n])
                            names.add(NAME[1 - n])
                        if self.ghost_env == U[e] and self.ghost == NAME[n]:
                            self.ghost = NAME[1 - n]
            elif op == 10:
                e, n = arg // 2, arg % 2
                try:
                    self.cm.create_profile(NAME[n], U[e], "proj", KEY[n])
                except ValueError:
                    pass
                else:
                    if U[e] == before:                         # created while that environment was current
                        self.ever.setdefault(before, set()).add(NAME[n])
        after = self.env.get_current_environment().api_url
        if after != self.ghost_env:  # the current environment changed: a new stint starts with nothing picked
            self.ghost, self.ghost_env = None, after

    # ---- what the statement says -----------------------------------------------------------------------------------
    def env_ok(self) -> bool:
        cur = self.env.get_current_environment().api_url
        known = [e.api_url for e in self.env.list_environments()]
        return cur in known or cur == DEFAULT_ENVIRONMENT.api_url

    def active(self):
        return self.env.current_auth_service().get_current_profile()

    def ever_ok(self) -> bool:
        cur = self.env.get_current_environment().api_url
        act = self.active()
        return act is None or (act.api_url == cur and act.name in self.ever.get(cur, ()))

    def strict_ok(self) -> bool:
        cur = self.env.get_current_environment().api_url
        act = self.active()
        return act is None or (act.api_url == cur and self.ghost_env == cur and act.name == self.ghost)


def _nargs(op: int) -> int:
    return 3 if op <= 2 else (1 if op == 7 else 2)


def _decode(ops, args):
    """fork on every op code / argument; returns realised [(op, arg)]"""
    out = []
    for o, a in zip(ops, args):
        oc = cint(o, 0, NOPS - 1)
        out.append((oc, cint(a, 0, _nargs(oc) - 1)))
    return out


def _run_script(script, strict: bool) -> bool:
    with untraced():
        w = World()
        try:
            for op, arg in script:
                w.apply(op, arg)
                if not w.env_ok():
                    return False
                if not (w.strict_ok() if strict else w.ever_ok()):
                    return False
            return True
        finally:
            w.close()


def valid_script(n: int, ops, args) -> bool:
    for i in range(len(ops)):
        if i < n:
            if not (0 <= ops[i] < NOPS):
                return False
            if not THOROUGH and ops[i] in (5, 8):   # quick scripts leave out 'set project' and 'oidc login' (both are in ob_step_strict)
                return False
            if not (0 <= args[i] < (3 if ops[i] <= 2 else (1 if ops[i] == 7 else 2))):
                return False
        else:
            if ops[i] != 0 or args[i] != 0:
                return False
    return True


_SP_Q = [f"o0 == {k}" for k in range(NOPS) if k not in (5, 8)]
_SP_T = [f"o0 == {k} and o1 {c}" for k in range(NOPS) for c in ("<= 2", "in (3, 4)", ">= 5")]


@obligation(quick=200, thorough=900, partitions_quick=_SP_Q, partitions_thorough=_SP_T,
            what="every script of LQ operations from a fresh config: after every operation the current environment is a "
                 "known one or the built-in default, and the active profile is none or a profile of the current "
                 "environment whose name was selected/created while that environment was current (EVER reading)",
            bounds={"script length": "3 quick / 4 thorough (every prefix is checked)", "ops": NOPS, "environments": 3, "profile names": 2})
def ob_script(o0: int, a0: int, o1: int, a1: int, o2: int, a2: int, o3: int, a3: int) -> bool:
    """
    pre: valid_script(LQ, [o0, o1, o2, o3], [a0, a1, a2, a3])
    post: _
    """
    script = _decode([o0, o1, o2, o3][:LQ], [a0, a1, a2, a3][:LQ])
    return _run_script(script, False)


# the operations that matter for the selection pointer, for longer scripts:
# (op, arg): add A, switch default, delete A, token login n0, token login n1, auth switch n0, logout n0, auto select
_ALPHA = [(0, 1), (1, 0), (2, 1), (3, 0), (3, 1), (4, 0), (6, 0), (7, 0)]


@obligation(quick=None, thorough=900, partitions_thorough=[f"c0 == {i} and c1 {c}" for i in range(8) for c in ("<= 3", ">= 4")],
            what="every script of 5 operations over the 8 operations that move the selection pointer (add/switch/delete one "
                 "extra environment, two token logins, auth switch, logout, auto select): EVER reading + environment invariant",
            bounds={"script length": 5, "alphabet": 8})
def ob_script5(c0: int, c1: int, c2: int, c3: int, c4: int) -> bool:
    """
    pre: 0 <= c0 < 8 and 0 <= c1 < 8 and 0 <= c2 < 8 and 0 <= c3 < 8 and 0 <= c4 < 8
    post: _
    """
    script = [_ALPHA[cint(c, 0, 7)] for c in (c0, c1, c2, c3, c4)]
    return _run_script(script, False)


# ------------------------------------------------------------------------------------------------------------------
# inductive step, STINT reading: any REP configuration, one operation
# ------------------------------------------------------------------------------------------------------------------
def valid_state(rowD: bool, rowA: bool, rowB: bool, pA0: bool, pA1: bool, pB0: bool, pB1: bool, cur: int, sel: int, ghost: int) -> bool:
    if not (0 <= cur < NENV and 0 <= sel <= 2 and 0 <= ghost <= 2):
        return False
    if NENV < 3 and (rowB or pB0 or pB1 or not rowD):   # quick: default row present, no third environment
        return False
    if (cur == 1 and not rowA) or (cur == 2 and not rowB):   # a non-default current environment has its row
        return False
    if ((pA0 or pA1) and not rowA) or ((pB0 or pB1) and not rowB):   # deleting an environment deletes its profiles
        return False
    return True


@obligation(quick=200, thorough=900, partitions_quick=[f"op == {k}" for k in range(NOPS)],
            partitions_thorough=[f"op == {k} and cur == {c}" for k in range(NOPS) for c in range(3)],
            what="STINT reading, inductive: from ANY configuration satisfying REP (selection setting empty, equal to the "
                 "ghost, or dangling), one operation leaves the environment known-or-default, the active profile none or "
                 "the profile picked since the current environment became current, and REP",
            bounds={"environments": "default + 1 (quick) / + 2 (thorough), rows present or deleted", "profiles": "any subset of env x {2 names}",
                    "selection/ghost": "none or either name"})
def ob_step_strict(rowD: bool, rowA: bool, rowB: bool, pD0: bool, pD1: bool, pA0: bool, pA1: bool, pB0: bool, pB1: bool,
                   cur: int, sel: int, ghost: int, op: int, arg: int) -> bool:
    """
    pre: valid_state(rowD, rowA, rowB, pA0, pA1, pB0, pB1, cur, sel, ghost)
    pre: 0 <= op < NOPS and 0 <= arg < (3 if op <= 2 else (1 if op == 7 else 2)) and (arg < NENV or op > 2)
    post: _
    """
    rows = [cbool(rowD), cbool(rowA), cbool(rowB)]
    prof = [[cbool(pD0), cbool(pD1)], [cbool(pA0), cbool(pA1)], [cbool(pB0), cbool(pB1)]]
    cur, sel, ghost = cint(cur, 0, 2), cint(sel, 0, 2), cint(ghost, 0, 2)
    op = cint(op, 0, NOPS - 1)
    arg = cint(arg, 0, 2)
    # REP: the setting is empty, or equals the ghost, or dangles
    if not (sel == 0 or sel == ghost or not prof[cur][sel - 1]):
        return True
    # the ghost names an existing profile of the current environment (it was picked, and dies with the profile)
    if ghost != 0 and not prof[cur][ghost - 1]:
        return True
    with untraced():
        w = World()
        try:
            cm = w.cm
            for e in (1, 2):
                if rows[e]:
                    cm.create_or_update_environment(U[e], False)
            for e in range(3):
                for n in range(2):
                    if prof[e][n]:
                        cm.create_profile(NAME[n], U[e], "proj", KEY[n])
            if not rows[0]:
                cm.delete_environment(U[0])
                for n in range(2):   # profiles may be created in the built-in default after its row was deleted
                    if prof[0][n]:
                        cm.create_profile(NAME[n], U[0], "proj", KEY[n])
            cm.set_settings_current_environment(U[cur])
            cm.set_settings_current_profile(NAME[sel - 1] if sel else None)
            w.ghost_env = U[cur]
            w.ghost = NAME[ghost - 1] if ghost else None
            if not (w.env_ok() and w.strict_ok()):
                return True  # not a REP state after all (cannot happen; keeps the obligation about the step only)
            w.apply(op, arg)
            if not (w.env_ok() and w.strict_ok()):
                return False
            # REP again
            name = cm.get_settings_current_profile_name()
            now = w.env.get_current_environment().api_url
            dangling = name is not None and cm.get_profile(name, now) is None
            return name is None or dangling or (w.ghost_env == now and name == w.ghost)
        finally:
            w.close()



# ------------------------------------------------------------------------------------------------------------------
# inductive step, EVER reading (the statement read literally), with profile renames and cross-environment provisioning
# ------------------------------------------------------------------------------------------------------------------
NOPS_E = 11


def _nargs_e(op: int) -> int:
    return 3 if op <= 2 else (1 if op == 7 else (6 if op >= 9 else 2))


@obligation(quick=200, thorough=900, partitions_quick=[f"op == {k}" for k in range(NOPS_E)],
            partitions_thorough=[f"op == {k} and cur == {c}" for k in range(NOPS_E) for c in range(3)],
            what="EVER reading (the statement read literally), inductive: from ANY configuration in which the selection setting is "
                 "empty, dangling, or names a profile that was selected/created while the current environment was current (other "
                 "profiles of the current environment may have been provisioned while ANOTHER environment was current), one "
                 "operation — the nine CLI operations, a profile rename through update_profile in any environment, or "
                 "ConfigManager.create_profile for any environment — leaves the environment known-or-default, the active profile "
                 "none or a picked profile of the current environment, and the same representation invariant",
            bounds={"environments": "default + 1 (quick) / + 2 (thorough), rows present or deleted", "profiles": "any subset of env x {2 names}",
                    "picked": "any subset of the current environment's profiles", "ops": NOPS_E})
def ob_step_ever(rowD: bool, rowA: bool, rowB: bool, pD0: bool, pD1: bool, pA0: bool, pA1: bool, pB0: bool, pB1: bool,
                 k0: bool, k1: bool, cur: int, sel: int, op: int, arg: int) -> bool:
    """
    pre: valid_state(rowD, rowA, rowB, pA0, pA1, pB0, pB1, cur, sel, 0)
    pre: 0 <= op < NOPS_E and 0 <= arg < _nargs_e(op) and (op > 2 or arg < NENV) and (op < 9 or arg < 2 * NENV)
    post: _
    """
    rows = [cbool(rowD), cbool(rowA), cbool(rowB)]
    prof = [[cbool(pD0), cbool(pD1)], [cbool(pA0), cbool(pA1)], [cbool(pB0), cbool(pB1)]]
    cur, sel = cint(cur, 0, 2), cint(sel, 0, 2)
    picked = [cbool(k0) and prof[cur][0], cbool(k1) and prof[cur][1]]
    op = cint(op, 0, NOPS_E - 1)
    arg = cint(arg, 0, 5)
    dangling = sel != 0 and not prof[cur][sel - 1]
    if not (sel == 0 or dangling or picked[sel - 1]):        # REP
        return True
    if op == 9 and arg // 2 == cur and dangling:             # in-environment rename from a dangling selection: OUTSIDE
        return True
    with untraced():
        w = World()
        try:
            cm = w.cm
            for e in (1, 2):
                if rows[e]:
                    cm.create_or_update_environment(U[e], False)
            for e in range(3):
                for n in range(2):
                    if prof[e][n]:
                        cm.create_profile(NAME[n], U[e], "proj", KEY[n])
            if not rows[0]:
                cm.delete_environment(U[0])
                for n in range(2):
                    if prof[0][n]:
                        cm.create_profile(NAME[n], U[0], "proj", KEY[n])
            cm.set_settings_current_environment(U[cur])
            cm.set_settings_current_profile(NAME[sel - 1] if sel else None)
            w.ghost_env, w.ghost = U[cur], None
            w.ever = {U[cur]: {NAME[n] for n in range(2) if picked[n]}}
            if not (w.env_ok() and w.ever_ok()):
                return True  # not a REP state after all (cannot happen)
            w.apply(op, arg)
            if not (w.env_ok() and w.ever_ok()):
                return False
            name = cm.get_settings_current_profile_name()
            now = w.env.get_current_environment().api_url
            if name is None or cm.get_profile(name, now) is None:
                return True
            return name in w.ever.get(now, ())
        finally:
            w.close()


# ----------------------------------------------------------------------------------------------- names that differ only in case
_CASE_NAMES = [("Work", "work"), ("llx-AbCd...", "llx-abcd..."), ("Jane@Example.com", "jane@example.com")]


@obligation(quick=120, thorough=300,
            what="two profiles of ONE environment whose names differ only in case (the table's key is case-sensitive, so both can exist: one of them "
                 "provisioned while ANOTHER environment was current, the other created / selected by the user in this one): the active "
                 "profile is exactly the one that was selected or created while this environment was current, never its look-alike",
            bounds={"name pairs": 3, "which spelling is the provisioned one": "both", "row order": "provisioned first / last",
                    "user action": "create (ConfigManager.create_profile while current) / select (set_current_profile)"})
def ob_names_differing_in_case(pair: int, swap: bool, prov_first: bool, act: int) -> bool:
    """
    pre: 0 <= pair < len(_CASE_NAMES) and 0 <= act <= 1
    post: _
    """
    pair, act = cint(pair, 0, len(_CASE_NAMES) - 1), cint(act, 0, 1)
    swap, prov_first = cbool(swap), cbool(prov_first)
    with untraced():
        w = World()
        try:
            cm = w.cm
            a, b = _CASE_NAMES[pair]
            prov, mine = (b, a) if swap else (a, b)
            cm.create_or_update_environment(U[1], False)
            # the look-alike is put into environment A while the DEFAULT environment is current (an import, another terminal)
            if prov_first:
                cm.create_profile(prov, U[1], "proj", KEY[1])
            if act == 1 and not prov_first:
                cm.create_profile(mine, U[1], "proj", KEY[1])       # exists already, provisioned as well; the user will SELECT it below
                cm.create_profile(prov, U[1], "proj", KEY[1])
            elif act == 1:
                cm.create_profile(mine, U[1], "proj", KEY[1])
            w.env.switch_environment(U[1])
            svc = w.env.current_auth_service()
            if act == 0:
                cm.create_profile(mine, U[1], "proj", KEY[1])       # created while A is current ...
                if not prov_first:
                    w.env.switch_environment(U[0])
                    cm.create_profile(prov, U[1], "proj", KEY[1])   # ... the look-alike arrives later, while A is not current
                    w.env.switch_environment(U[1])
                    svc = w.env.current_auth_service()
            svc.set_current_profile(mine)                           # selected while A is current
            got = svc.get_current_profile()
            return got is not None and got.name == mine and got.api_url == U[1]
        finally:
            w.close()
