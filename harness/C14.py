"""C14 — pending retries and waiter timeouts survive idle release and restart.

Whole-stack obligations on the real in-process server stack (ServerRuntimeDecorator / IdleReleaseDecorator /
PersistenceDecorator / BasicRuntime / _WorkflowService / MemoryWorkflowStore) on the virtual-time loop; the retry delay,
the waiter timeout, the idle timeout and the restart point are symbolic, so the solver explores every ordering of the
three timers (ties included).

* ``ob_retry_vs_idle``     a step fails ``nfail`` times with ``wait_fixed(d)``; whatever ``idle_timeout`` is, the run is not
                           released while the retry waits out its delay, the step is retried and the run completes;
* ``ob_waiter_vs_idle``    a step waits for an event with ``timeout=w`` and nobody answers: by virtual time w (+ slack) the
                           step got its TimeoutError and the handler left "running" — also when ``idle_timeout < w`` releases
                           the run first (known finding KF-C14-1: the timer dies with the released control loop);
* ``ob_restart_timer``     the server restarts while the timer is pending (the persisted log ends with the failed step result
                           / with the step result that registered the waiter): after the restart the step is still retried
                           / still gets its TimeoutError (known finding KF-C14-2: timers exist only in the runner's heap);"""
from __future__ import annotations

import vlib.boot  # noqa: F401
from vlib.boot import B, drive
from vlib.ob import obligation
from vlib.h_handlers import conc, concb, native
from vlib.h_restart import run_first, run_restarted

import asyncio

from workflows import Context, Workflow, step
from workflows.events import Event, StartEvent, StopEvent
from workflows.retry_policy import retry_policy, stop_after_attempt, wait_fixed

ENCODED = [
    "llama_agents.server._runtime.idle_release_runtime:IdleReleaseDecorator._deferred_release",
    "llama_agents.server._runtime.idle_release_runtime:IdleReleaseDecorator._release_idle_handler",
    "llama_agents.server._runtime.idle_release_runtime:_IdleReleaseInternalRunAdapter.write_to_event_stream",
    "llama_agents.server._runtime.persistence_runtime:PersistenceDecorator._on_server_start",
    "llama_agents.server._runtime.persistence_runtime:TickPersistenceDecorator.context_from_ticks",
    "workflows.runtime.control_loop:_ControlLoopRunner.run",
    "workflows.runtime.control_loop:_ControlLoopRunner._process_tick",
    "workflows.runtime.control_loop:_ControlLoopRunner.process_command",
    "workflows.runtime.control_loop:_ControlLoopRunner.pop_due_ticks",
    "workflows.runtime.control_loop:_check_idle_state",
    "workflows.context.internal_context:InternalContext.wait_for_event",
]
ASSUMES = [
    "virtual clock (vlib.miniloop) wired into every module on the path that reads time/datetime; fixed ids; "
    "MemoryWorkflowStore as the persistent store; workflows deterministic",
    "delays / timeouts are small ints (seconds of virtual time): d 1..3, w 1..4, idle_timeout 1..4; 'eventually' = within "
    "max(...) + 6 virtual seconds; each obligation first forks on its parameters (the solver enumerates the timer orderings "
    "incl. ties), then the real stack runs that ordering on the virtual clock under the tracer",
    "restart = fresh stack over a store holding the handler row and the persisted ticks up to the crash point",
]
OUTSIDE = ["DBOS stack (C27/C36)", "several timers pending at once", "wall-clock drift between datetime.now and the loop clock"]


class Resp(Event):
    pass


class E1(Event):
    n: int


def _retry_wf(d: int, nfail: int):
    class RetryWF(Workflow):
        @step
        async def s0(self, ctx: Context, ev: StartEvent) -> E1:
            return E1(n=1)

        @step(retry_policy=retry_policy(wait=wait_fixed(d), stop=stop_after_attempt(4)))
        async def s1(self, ctx: Context, ev: E1) -> StopEvent:
            if ctx.retry_info().retry_number < nfail:
                raise ValueError("transient")
            return StopEvent(result=ctx.retry_info().retry_number)

    return RetryWF(timeout=None)


def _wait_wf(w: int):
    class WaitWF(Workflow):
        @step
        async def s0(self, ctx: Context, ev: StartEvent) -> StopEvent:
            try:
                await ctx.wait_for_event(Resp, waiter_id="w", timeout=w)
                return StopEvent(result="answered")
            except asyncio.TimeoutError:
                return StopEvent(result="timeout")

    return WaitWF(timeout=None)


@obligation(quick=240, thorough=600, partitions_quick=[f"nfail == {n} and it == {i}" for n in (1, 2) for i in (1, 2, 3)],
            partitions_thorough=[f"nfail == {n} and it == {i} and d == {d}" for n in (1, 2) for i in (1, 2, 3, 4) for d in (1, 2, 3)],
            what="retry delay d vs idle_timeout it (every order, ties): the step is retried and the run completes with the right attempt number; "
                 "the run is never released while a retry is pending",
            bounds={"d": "1..3", "idle_timeout": "1..4", "failures": "1..2"})
def ob_retry_vs_idle(d: int, it: int, nfail: int) -> bool:
    """
    pre: 1 <= d <= DMAX and 1 <= it <= ITMAX and 1 <= nfail <= 2
    post: _
    """
    d, it, nfail = conc(d, 1, 3), conc(it, 1, 4), conc(nfail, 1, 2)
    obs = run_first(lambda: _retry_wf(d, nfail), idle_timeout=it, horizon=d * nfail + it + 6)
    if obs["errors"] or obs["loop_exceptions"]:
        return False
    return obs["status"] == "completed" and obs["result"] == nfail and obs["aborts"] == 0


DMAX = B(2, 3)
ITMAX = B(3, 4)
WMAX = B(3, 4)


@obligation(quick=240, thorough=600, partitions_quick=[f"w == {w}" for w in (1, 2, 3)],
            partitions_thorough=[f"it == {i}" for i in (1, 2, 3, 4)],   # (w > it) is the class of KF-C14-1: split on it only
            what="waiter timeout w vs idle_timeout it (every order, ties), nobody answers: the step gets its TimeoutError and the handler "
                 "leaves 'running' (completed, result 'timeout')",
            bounds={"w": "1..4", "idle_timeout": "1..4"})
def ob_waiter_vs_idle(w: int, it: int) -> bool:
    """
    pre: 1 <= w <= WMAX and 1 <= it <= ITMAX
    post: _
    """
    w, it = conc(w, 1, 4), conc(it, 1, 4)
    obs = run_first(lambda: _wait_wf(w), idle_timeout=it, horizon=w + it + 6)
    if obs["errors"] or obs["loop_exceptions"]:
        return False
    return obs["status"] == "completed" and obs["result"] == "timeout"


class Stray(Event):
    """an event no step and no waiter of the retry workflow accepts"""


@obligation(quick=240, thorough=600, partitions_quick=[f"it == {i}" for i in (1, 2, 3)],
            partitions_thorough=[f"it == {i} and d == {d}" for i in (1, 2, 3, 4) for d in (1, 2, 3)],
            what="a client event NOBODY accepts arrives while a failed step waits out its retry delay d (it is reported as unhandled, possibly "
                 "flagged idle by the reducer, which cannot see the timer heap): the run is still not released before the retry — the step is "
                 "retried and the run completes, for every order of {stray event, retry, idle_timeout}",
            bounds={"d": "1..3", "idle_timeout": "1..3 (thorough 4)", "stray event instant": "0..d"})
def ob_unhandled_event_during_retry_vs_idle(d: int, it: int, at: int) -> bool:
    """
    pre: 1 <= d <= 3 and 1 <= it <= ITMAX and 0 <= at <= d
    post: _
    """
    d, it, at = conc(d, 1, 3), conc(it, 1, 4), conc(at, 0, 3)
    obs = run_first(lambda: _retry_wf(d, 1), idle_timeout=it, horizon=d + it + 6, sends=[(at, 0)], make_event=lambda p: Stray())
    if obs["loop_exceptions"]:
        return False
    return obs["status"] == "completed" and obs["result"] == 1 and obs["aborts"] == 0


class _TwoWaits(Workflow):
    """two waits in a row, nobody answers: the first timeout wakes the step, which parks again (a second idle period begins while the
    release timer of the first one is still pending)"""

    @step
    async def s0(self, ctx: Context, ev: StartEvent) -> StopEvent:
        got = []
        for wid, w in (("w1", self.w1), ("w2", self.w2)):
            try:
                await ctx.wait_for_event(Resp, waiter_id=wid, timeout=w)
                got.append("answered")
            except asyncio.TimeoutError:
                got.append("timeout")
        return StopEvent(result="+".join(got))


def _two_waits(w1: int, w2: int):
    wf = _TwoWaits(timeout=None)
    wf.w1, wf.w2 = w1, w2
    return wf


@obligation(quick=240, thorough=600, partitions_quick=[f"it == {i}" for i in (2, 3, 4)], partitions_thorough=[f"it == {i} and w1 == {w}" for i in (2, 3, 4, 5) for w in range(1, i)],
            what="two wait_for_event timeouts in a row, each SHORTER than idle_timeout (so outside the class of KF-C14-1), nobody answers: the "
                 "second idle period starts while the first period's release timer is still pending — both TimeoutErrors are delivered and "
                 "the handler completes ('timeout+timeout'); the run is not released on the first period's stale timer",
            bounds={"w1, w2": "1..it-1", "idle_timeout": "2..4 (thorough 5)"})
def ob_two_waits_vs_idle(it: int, w1: int, w2: int) -> bool:
    """
    pre: 2 <= it <= IT2MAX and 1 <= w1 < it and 1 <= w2 < it
    post: _
    """
    it, w1, w2 = conc(it, 2, 5), conc(w1, 1, 4), conc(w2, 1, 4)
    obs = run_first(lambda: _two_waits(w1, w2), idle_timeout=it, horizon=w1 + w2 + it + 6)
    if obs["errors"] or obs["loop_exceptions"]:
        return False
    return obs["status"] == "completed" and obs["result"] == "timeout+timeout" and obs["aborts"] == 0


IT2MAX = B(4, 5)


def _crash_index(ticks, which: int) -> int:
    """Number of ticks that survive: up to and including the step result that started the timer
    (which = 0: the failed result of s1 that was granted a delayed retry; 1: the result of s0 that registered the waiter)."""
    for i, t in enumerate(ticks):
        if t.get("type") != "step_result":
            continue
        kinds = [r.get("type") for r in t.get("result", [])]
        if which == 0 and "failed" in kinds:
            return i + 1
        if which == 1 and "add_waiter" in kinds:
            return i + 1
    return 0


@obligation(quick=240, thorough=600, partitions_quick=["dw == 1", "dw >= 2"], partitions_thorough=[f"dw == {d}" for d in (1, 2, 3, 4)],
            what="server restart while the timer is pending (persisted log ends with the step result that started it, plus extra later ticks "
                 "if any were persisted before the crash): the retry still happens / the TimeoutError is still delivered, the handler ends",
            bounds={"d / w": "1..3", "extra persisted ticks after the timer start": "0..1"})
def ob_restart_timer(which: int, dw: int, extra: int) -> bool:
    """
    pre: 0 <= which <= 1 and 1 <= dw <= DMAX + 1 and 0 <= extra <= 1
    post: _
    """
    which, dw, extra = conc(which, 0, 1), conc(dw, 1, 4), conc(extra, 0, 1)
    make = (lambda: _retry_wf(dw, 1)) if which == 0 else (lambda: _wait_wf(dw))
    first = native(run_first, make, 1000, dw + 8)
    if first["status"] != "completed":
        return False
    k = _crash_index(first["ticks"], which) + extra
    if k == 0 or k > len(first["ticks"]):
        return False
    # ticks after the timer start that precede the timer's own tick (e.g. the idle check) may or may not have been persisted
    nxt = first["ticks"][k - 1]
    if extra and nxt.get("type") in ("add_event", "waiter_timeout", "step_result"):
        return True  # the timer already fired in the first life: not a pending-timer crash point
    again = run_restarted(make, first["ticks"][:k], idle_timeout=1000, horizon=dw + 8)
    if again["errors"] or again["loop_exceptions"]:
        return False
    return again["status"] == "completed" and again["result"] == first["result"]


class W1(Event):
    pass


def _retry_and_waiter_wf(d: int, w: int):
    """A failing-then-retried step AND, in parallel, a step parked in a wait with a SHORTER timeout: while the retry waits out
    its delay the timer heap's head is the (unrelated) waiter timeout, not the retry."""

    class RW(Workflow):
        @step
        async def s0(self, ctx: Context, ev: StartEvent) -> E1 | W1 | None:
            ctx.send_event(W1())
            return E1(n=1)

        @step(retry_policy=retry_policy(wait=wait_fixed(d), stop=stop_after_attempt(4)))
        async def s1(self, ctx: Context, ev: E1) -> StopEvent:
            if ctx.retry_info().retry_number < 1:
                raise ValueError("transient")
            return StopEvent(result=ctx.retry_info().retry_number)

        @step
        async def sw(self, ctx: Context, ev: W1) -> None:
            try:
                await ctx.wait_for_event(Resp, waiter_id="w", timeout=w)
            except asyncio.TimeoutError:
                pass
            return None

    return RW(timeout=None)


@obligation(quick=240, thorough=600, partitions_quick=[f"it == {i}" for i in (1, 2, 3)], partitions_thorough=[f"it == {i} and d == {d}" for i in (1, 2, 3, 4) for d in (2, 3, 4)],
            what="a retry waiting out its delay d while an unrelated, EARLIER timer (a waiter timeout w < d of another step) heads the timer heap: "
                 "whatever idle_timeout is, the run is not announced idle / released while the retry is pending; the step is retried and the run completes",
            bounds={"d": "2..4", "w": "1..d-1", "idle_timeout": "1..4"})
def ob_retry_behind_other_timer(d: int, w: int, it: int) -> bool:
    """
    pre: 2 <= d <= DMAX + 1 and 1 <= w < d and 1 <= it <= ITMAX
    post: _
    """
    d, w, it = conc(d, 2, 4), conc(w, 1, 3), conc(it, 1, 4)
    obs = run_first(lambda: _retry_and_waiter_wf(d, w), idle_timeout=it, horizon=d + it + 6)
    if obs["errors"] or obs["loop_exceptions"]:
        return False
    return obs["status"] == "completed" and obs["result"] == 1 and obs["aborts"] == 0


def _timeout_then_retry_wf(w: int, d: int):
    """A wait times out (w), the woken step turns that into a failure, and its retry waits out a delay (d)."""

    class TR(Workflow):
        @step(retry_policy=retry_policy(wait=wait_fixed(d), stop=stop_after_attempt(4)))
        async def s0(self, ctx: Context, ev: StartEvent) -> StopEvent:
            if ctx.retry_info().retry_number >= 1:
                return StopEvent(result="retried")
            await ctx.wait_for_event(Resp, waiter_id="w", timeout=w)   # nobody answers: TimeoutError escapes -> step failure -> delayed retry
            return StopEvent(result="answered")

    return TR(timeout=None)


@obligation(quick=240, thorough=600, partitions_quick=[f"it == {i}" for i in (1, 2, 3)], partitions_thorough=[f"it == {i} and d == {d}" for i in (1, 2, 3, 4) for d in (1, 2, 3, 4)],
            what="a run that was announced idle (parked in a wait) leaves idleness BY ITSELF: the waiter times out in memory (w <= idle_timeout), the "
                 "woken step fails and its retry waits out a delay d that carries past the idle timeout: the release timer of the earlier idle "
                 "announcement must not abort the run while that retry is pending; the step is retried and the run completes",
            bounds={"w": "1..idle_timeout", "d": "1..3 (thorough 4)", "idle_timeout": "1..3 (thorough 4)"})
def ob_timeout_then_retry_vs_idle(w: int, d: int, it: int) -> bool:
    """
    pre: 1 <= it <= ITMAX and 1 <= w <= it and 1 <= d <= DMAX + 1
    post: _
    """
    w, d, it = conc(w, 1, 4), conc(d, 1, 4), conc(it, 1, 4)
    obs = run_first(lambda: _timeout_then_retry_wf(w, d), idle_timeout=it, horizon=w + d + it + 6)
    if obs["errors"] or obs["loop_exceptions"]:
        return False
    return obs["status"] == "completed" and obs["result"] == "retried" and obs["aborts"] == 0


# ----------------------------------------------------------------------------------------------- two steps waiting for the same event type
class EA(Event):
    pass


class EB(Event):
    pass


class Done14(Event):
    who: str
    r: str


def _two_steps(wa: int, wa2: int, wb: int, swap: bool):
    """steps ``a`` and ``b`` both wait for a Resp with the DEFAULT waiter id (derived from the event type: the same id in both steps) and
    nobody answers; one of them (a, or b when ``swap``) parks a second time after its first TimeoutError, so its first waiter record is still
    around when the other step's timer falls due"""

    async def wait(ctx, first: int, second: int) -> str:
        got = []
        for i, w in enumerate((first, second)):
            if w <= 0:
                continue
            try:
                if i == 0:
                    await ctx.wait_for_event(Resp, timeout=w)
                else:
                    await ctx.wait_for_event(Resp, waiter_id="again", timeout=w)
                got.append("answered")
            except asyncio.TimeoutError:
                got.append("timeout")
        return "+".join(got)

    class TwoSteps(Workflow):
        @step
        async def s0(self, ctx: Context, ev: StartEvent) -> EA | EB | None:
            ctx.send_event(EA())
            ctx.send_event(EB())
            return None

        @step
        async def a(self, ctx: Context, ev: EA) -> Done14:
            return Done14(who="a", r=await wait(ctx, wb if swap else wa, 0 if swap else wa2))

        @step
        async def b(self, ctx: Context, ev: EB) -> Done14:
            return Done14(who="b", r=await wait(ctx, wa if swap else wb, wa2 if swap else 0))

        @step
        async def fin(self, ctx: Context, ev: Done14) -> StopEvent | None:
            got = ctx.collect_events(ev, [Done14, Done14])
            if got is None:
                return None
            return StopEvent(result=",".join(sorted(f"{e.who}:{e.r}" for e in got)))

    return TwoSteps(timeout=None)


@obligation(quick=300, thorough=900, partitions_quick=[f"it == {i} and swap == {s}" for i in (2, 3, 4) for s in (False, True)],
            partitions_thorough=[f"it == {i} and swap == {s} and wa == {w}" for i in (2, 3, 4, 5) for s in (False, True) for w in range(1, i)],
            what="two STEPS of one run wait for the same event type with the default waiter id (equal in both steps), nobody answers; one of "
                 "them parks again after its first timeout: each step gets every one of its TimeoutErrors (timers are per (step, waiter)), the "
                 "handler completes; every order of the three timers and idle_timeout (all waits shorter than idle_timeout: outside KF-C14-1)",
            bounds={"wa, wa2, wb": "1..it-1", "idle_timeout": "2..4 (thorough 5)", "which step parks twice": "a / b"})
def ob_two_steps_same_waiter_id(it: int, wa: int, wa2: int, wb: int, swap: bool) -> bool:
    """
    pre: 2 <= it <= IT2MAX and 1 <= wa < it and 1 <= wa2 < it and 1 <= wb < it
    post: _
    """
    it, wa, wa2, wb, swap = conc(it, 2, 5), conc(wa, 1, 4), conc(wa2, 1, 4), conc(wb, 1, 4), concb(swap)
    obs = run_first(lambda: _two_steps(wa, wa2, wb, swap), idle_timeout=it, horizon=wa + wa2 + wb + it + 6)
    if obs["errors"] or obs["loop_exceptions"]:
        return False
    want = "a:timeout,b:timeout+timeout" if swap else "a:timeout+timeout,b:timeout"
    return obs["status"] == "completed" and obs["result"] == want and obs["aborts"] == 0



# ----------------------------------------------------------------------------------------------- restart of a run that HAD BEEN idle and is working again
from vlib.h_restart import run_first_recording as _run_first_recording, run_restarted_from_writes as _run_restarted_from_writes, ticks_in as _ticks_in  # noqa: E402
from vlib.h_stores import TmpDir as _TmpDir14  # noqa: E402


def _wait_then_work_wf(w: int, z: int):
    class WaitWork(Workflow):
        @step
        async def s0(self, ctx: Context, ev: StartEvent) -> StopEvent:
            try:
                await ctx.wait_for_event(Resp, waiter_id="w", timeout=w)
                return StopEvent(result="answered")
            except asyncio.TimeoutError:
                await asyncio.sleep(z)          # the step goes on working after its wait timed out
                return StopEvent(result="timeout")

    return WaitWork(timeout=None)


_FIRST14: dict = {}


def _first14(w: int, z: int):
    if (w, z) not in _FIRST14:
        _FIRST14[(w, z)] = native(_run_first_recording, lambda: _wait_then_work_wf(w, z), 1000, w + z + 8)
    return _FIRST14[(w, z)]


def _after_the_timeout_tick(w: int, z: int) -> int:
    """number of store writes of the first life up to and including the persisted TickWaiterTimeout (crashes before it are the class of KF-C14-2)"""
    writes = _first14(w, z)["writes"]
    for i, wr in enumerate(writes):
        if wr[0] == "tick" and wr[2].get("type") == "waiter_timeout":
            return i + 1
    return len(writes) + 1


@obligation(quick=240, thorough=600, partitions_quick=["sq", "not sq"], partitions_thorough=[f"sq == {s} and w == {w}" for s in (True, False) for w in (1, 2)],
            what="a run that was announced idle (parked in a wait: the handler row got its idle stamp), then woke up BY ITSELF (its wait timed out: "
                 "stamp cleared, the timeout tick persisted) and was working when the process stopped: on restart it is resumed like any "
                 "running handler and completes — whether the rows live in the memory store or in a SQLite database (same rows written "
                 "through the real store, upserts included)",
            bounds={"wait timeout w": "1..2", "work after the timeout z": "1..2", "crash": "after any store write from the persisted timeout tick on, before the run ended",
                    "store at restart": "memory / SQLite"})
def ob_restart_after_self_wakeup(w: int, z: int, k: int, sq: bool) -> bool:
    """
    pre: 1 <= w <= 2 and 1 <= z <= 2 and 0 <= k <= 6
    post: _
    """
    w, z, k = conc(w, 1, 2), conc(z, 1, 2), conc(k, 0, 6)
    sq = concb(sq)
    first = _first14(w, z)
    if first["status"] != "completed" or first["result"] != "timeout":
        return False
    writes = first["writes"]
    cut = native(_after_the_timeout_tick, w, z) + k
    # only crashes BEFORE the run ended (a prefix that holds the final step result is finalised, not resumed: C13)
    ticks = native(_ticks_in, writes[:cut])
    if cut > len(writes) or any(t.get("type") == "step_result" and any(r.get("type") == "result" for r in t.get("result", [])) for t in ticks):
        return True
    if sq:
        with _TmpDir14() as d:
            import os

            again = _run_restarted_from_writes(lambda: _wait_then_work_wf(w, z), writes[:cut], horizon=w + z + 8, sqlite_path=os.path.join(d, "s.db"))
    else:
        again = _run_restarted_from_writes(lambda: _wait_then_work_wf(w, z), writes[:cut], horizon=w + z + 8)
    if again["errors"] or again["loop_exceptions"]:
        return False
    return again["status"] == "completed" and again["result"] == "timeout"
