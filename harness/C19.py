"""C19 — the in-memory and SQLite state stores implement the semantics of a plain nested dict/list model, and a
state obtained from ``get_state`` is a snapshot.

The reference (``vlib.h_state.ref_get/ref_set`` + ``RefStore`` below, ~60 lines) is written from the statement and
the documented contract ("Intermediate dicts are created as needed", "set_state: replace or parent-type merge",
"clear: reset to type defaults"), NOT from the code: dict by key, list by integer index, anything else has no
children, a typed model is a dict with a fixed key set.  Path segments, values, start states and operation scripts
are selected by small symbolic ints from pools (values include, for every key literal ``ast`` finds in
serializers.py, a dict carrying that key); the real ``get_by_path/set_by_path/merge_state`` and the real stores
(InMemoryStateStore driven synchronously, SqliteStateStore on a fresh migrated DB file per call) are executed and
compared with the reference and with each other using strict structural equality."""
from __future__ import annotations

import vlib.boot  # noqa: F401
from vlib.boot import B, drive
from vlib.ob import obligation

import copy
from typing import Any, Dict, List, Optional

from vlib import h_state
from vlib.h_state import (
    Missing, RefError, SqliteEnv, TChild, TState, Unrelated, ast_keylike, cint, deq, pickb, ref_get, ref_set,
    str_descent, to_plain, untraced,
)

from workflows.context.state_store import (
    DictState, InMemoryStateStore, assign_path_step, get_by_path, merge_state, set_by_path, traverse_path_step,
)

ENCODED = [
    "workflows.context.state_store:traverse_path_step",
    "workflows.context.state_store:assign_path_step",
    "workflows.context.state_store:get_by_path",
    "workflows.context.state_store:set_by_path",
    "workflows.context.state_store:merge_state",
    "workflows.context.state_store:create_cleared_state",
    "workflows.context.state_store:serialize_dict_state_data",
    "workflows.context.state_store:deserialize_dict_state_data",
    "workflows.context.state_store:InMemoryStateStore.get_state",
    "workflows.context.state_store:InMemoryStateStore.set_state",
    "workflows.context.state_store:InMemoryStateStore.get",
    "workflows.context.state_store:InMemoryStateStore.set",
    "workflows.context.state_store:InMemoryStateStore.clear",
    "workflows.context.state_store:InMemoryStateStore.edit_state",
    "workflows.events:DictLikeModel.__getattr__",
    "workflows.events:DictLikeModel.__setattr__",
    "workflows.events:DictLikeModel.__getitem__",
    "workflows.events:DictLikeModel.__setitem__",
    "llama_agents.server._store.sqlite.sqlite_state_store:SqliteStateStore._serialize_state",
    "llama_agents.server._store.sqlite.sqlite_state_store:SqliteStateStore._deserialize_state",
    "llama_agents.server._store.sqlite.sqlite_state_store:SqliteStateStore._load_state",
    "llama_agents.server._store.sqlite.sqlite_state_store:SqliteStateStore._save_state",
    "llama_agents.server._store.sqlite.sqlite_state_store:SqliteStateStore.get_state",
    "llama_agents.server._store.sqlite.sqlite_state_store:SqliteStateStore.set_state",
    "llama_agents.server._store.sqlite.sqlite_state_store:SqliteStateStore.get",
    "llama_agents.server._store.sqlite.sqlite_state_store:SqliteStateStore.set",
    "llama_agents.server._store.sqlite.sqlite_state_store:SqliteStateStore.clear",
    "llama_agents.server._store.sqlite.sqlite_state_store:SqliteStateStore.edit_state",
]
ASSUMES = [
    "reference model = plain nested dict/list written from the statement (vlib.h_state.ref_get/ref_set, RefStore here)",
    "an operation 'fails' iff it raises any Exception; the reference only says WHETHER get/set fails, not which class",
    "typed state values respect the declared field types (b: list, c: dict, n: int; a: Any) — pydantic models do not "
    "validate assignment, a type-violating value is a caller error outside the statement",
    "SqliteStateStore is constructed exactly as SqliteWorkflowStore.create_state_store does (db_path, run_id, state_type, "
    "connection=None) on a fresh copy of a DB image produced once per process by the repo's real migrations; "
    "sqlite_state_store._utc_now is pinned (timestamps are not part of the claim)",
    "async store methods are driven synchronously (vlib.boot.drive): without contention none of them suspends",
    "store obligations: every symbolic parameter is forked to a concrete pool member first, then the real stores run "
    "with CrossHair's opcode tracing suspended (vlib.h_state.untraced); ob_path_* and ob_merge_state run traced",
]
OUTSIDE = [
    "a get whose path continues with an integer segment below a str value (real code returns the character; the "
    "nested-dict model has no such child) — reported to the lead as an observation",
    "segments naming attributes/methods of the containers ('_data', 'keys', 'append', 'model_fields', ...)",
    "exceptions raised inside an edit_state block", "set_state with a subclass instance or an unrelated type through the stores "
    "(merge_state itself is checked on them)", "paths longer than 3 segments, scripts longer than 3 operations",
    "nested (non top-level) mutation of a snapshot (the statement only promises top-level fields/keys)",
]

h_state.ensure_template()

SEGS: List[str] = ["a", "b", "0", "1", "-1", "x y", "", "c"]
NSEG = len(SEGS)
NUMERIC = (2, 3, 4)  # indices of "0", "1", "-1"
MARKER_KEYS: List[str] = ast_keylike("serializers")
VALS: List[Any] = [5, "s", None, True, 0.5, 2 ** 53 + 1, {"a": 1}, [1, "z"], {"a": {"b": [None]}}] + [
    ({k: True, "qualified_name": "a"}) for k in MARKER_KEYS
]
NPLAIN = 9  # VALS[:NPLAIN] carry no serializer key literal
MARKER_VIS = tuple(NPLAIN + i for i, k in enumerate(MARKER_KEYS) if k in ("__is_pydantic", "__is_component"))  # for `exclude`
NV = len(VALS)
START_ATOMS: List[Any] = [1, "ab"]
K_DICT, K_LIST, K_DS, K_T, K_TC = 0, 1, 2, 3, 4
DEFAULT = "<default>"
NPATH = B(2, 3)


def make_root(kind: int, a: Any) -> Any:
    if kind == K_DICT:
        return {"a": {"b": a}, "b": [a, {"a": a}], "0": a}
    if kind == K_LIST:
        return [{"a": a}, [a, "s"]]
    if kind == K_DS:
        return DictState(**{"a": {"b": a}, "b": [a, {"a": a}], "0": a})
    if kind == K_T:
        return TState(a={"b": a}, b=[a, {"a": a}])
    return TChild(a={"b": a}, b=[a, {"a": a}], c={"a": a}, n=3)


def fixed_keys(kind: int) -> Optional[List[str]]:
    if kind == K_T:
        return ["a", "b"]
    if kind == K_TC:
        return ["a", "b", "c", "n"]
    return None


def make_path(n: int, s0: int, s1: int, s2: int) -> str:
    p = pickb(SEGS, s0)
    if n >= 2:
        p = p + "." + pickb(SEGS, s1)
    if n >= 3:
        p = p + "." + pickb(SEGS, s2)
    return p


def type_ok(kind: int, path: str, v: Any) -> bool:
    """Declared field types of the typed states are respected by the written value."""
    if kind not in (K_T, K_TC):
        return True
    if path == "b":
        return isinstance(v, list)
    if path == "c":
        return isinstance(v, dict)
    if path == "n":
        return isinstance(v, int) and not isinstance(v, bool)
    return True


# ------------------------------------------------------------------------------------------------ pure path kernels


@obligation(quick=150, thorough=600, partitions_quick=["kind <= 1", "kind == 2", "kind >= 3"],
            partitions_thorough=[f"kind == {k}" for k in range(5)],
            what="get_by_path (with and without default) and traverse_path_step agree with the nested dict/list reference (traced)",
            bounds={"start states": "dict / list / DictState / typed / inherited typed, leaf atom 1 or 'ab'", "segments": "pool of 8", "path length": "1..2 / 1..3"})
def ob_path_get(kind: int, ai: int, n: int, s0: int, s1: int, s2: int) -> bool:
    """
    pre: 0 <= kind <= 4 and 0 <= ai <= 1 and 1 <= n <= NPATH and 0 <= s0 < NSEG and 0 <= s1 < NSEG and 0 <= s2 < NSEG
    pre: (n >= 2 or s1 == 0) and (n >= 3 or s2 == 0)
    post: _
    """
    a, kind = pickb(START_ATOMS, ai), cint(kind, 0, 4)
    path = make_path(n, s0, s1, s2)
    with untraced():  # building the inputs / the reference verdict is not the code under test
        root = make_root(kind, a)
        model = to_plain(make_root(kind, a))
        if str_descent(model, path):
            return True  # OUTSIDE
        try:
            want = ref_get(model, path)
            missing = False
        except Missing:
            want, missing = None, True
    got = get_by_path(root, path, DEFAULT)  # traced
    try:
        got2 = get_by_path(root, path)
        raised = False
    except ValueError:
        got2, raised = None, True
    with untraced():
        if missing:
            return got == DEFAULT and raised
        return (not raised) and deq(to_plain(got), want) and deq(to_plain(got2), want)


@obligation(quick=150, thorough=600, partitions_quick=["kind <= 1", "kind == 2", "kind >= 3"],
            partitions_thorough=[f"kind == {k} and s0 {q}" for k in range(5) for q in ("< 4", ">= 4")],
            what="set_by_path / assign_path_step agree with the reference: same failure, same resulting state, value readable back (traced)",
            bounds={"start states": 5, "segments": "pool of 8", "path length": "1..2 / 1..3", "values": "5 / {'a': 1} / [1, 'z']"})
def ob_path_set(kind: int, ai: int, n: int, s0: int, s1: int, s2: int, vi: int) -> bool:
    """
    pre: 0 <= kind <= 4 and 0 <= ai <= B(0, 1) and 1 <= n <= NPATH and 0 <= s0 < NSEG and 0 <= s1 < NSEG and 0 <= s2 < NSEG
    pre: (n >= 2 or s1 == 0) and (n >= 3 or s2 == 0) and vi in (0, 6, 7)
    post: _
    """
    a, kind = pickb(START_ATOMS, ai), cint(kind, 0, 4)
    path = make_path(n, s0, s1, s2)
    v = pickb(VALS, vi)
    with untraced():
        if not type_ok(kind, path, v):
            return True
        root = make_root(kind, a)
        model = to_plain(make_root(kind, a))
        try:
            ref_set(model, path, copy.deepcopy(v), fixed_keys(kind))
            ref_failed = False
        except RefError:
            ref_failed = True
        v2 = copy.deepcopy(v)
    try:
        set_by_path(root, path, v2)  # traced
        failed = False
    except Exception:
        failed = True
    if failed != ref_failed:
        return False
    back = DEFAULT if failed else get_by_path(root, path, DEFAULT)  # traced
    with untraced():
        if not deq(to_plain(root), model):
            return False
        if failed or str_descent(model, path):
            return True
        return deq(to_plain(back), v)


M_DS, M_T, M_TC, M_UNREL, M_DS2, M_T_PARTIAL, M_T_EMPTY = 0, 1, 2, 3, 4, 5, 6


def _merge_operand(k: int, tag: int) -> Any:
    if k == M_DS:
        return DictState(a=tag, b=[tag])
    if k == M_T:
        return TState(a=tag, b=[tag])
    if k == M_TC:
        return TChild(a=tag, b=[tag], c={"k": tag}, n=tag)
    if k == M_UNREL:
        return Unrelated(z=tag)
    if k == M_T_PARTIAL:
        return TState(a=tag)      # field b NOT passed: it holds its default, and the default is part of the parent's value
    if k == M_T_EMPTY:
        return TState()           # nothing passed at all
    return DictState()


@obligation(quick=90, thorough=200,
            what="merge_state: same type (or subclass instance) replaces, parent type merges parent fields keeping child fields, "
                 "unrelated type raises ValueError; a parent instance with fields left at their defaults overwrites with those defaults (traced)")
def ob_merge_state(ck: int, ik: int) -> bool:
    """
    pre: 0 <= ck <= 4 and ck != 3 and 0 <= ik <= 6
    post: _
    """
    ck, ik = cint(ck, 0, 4), cint(ik, 0, 6)
    with untraced():
        cur, inc = _merge_operand(ck, 1), _merge_operand(ik, 2)
        before = to_plain(cur)
    try:
        out = merge_state(cur, inc)
        failed = False
    except ValueError:
        out, failed = None, True
    if isinstance(inc, type(cur)):  # same type / subclass instance: replace
        return (not failed) and type(out) is type(inc) and deq(to_plain(out), to_plain(inc))
    if issubclass(type(cur), type(inc)):  # parent-type merge
        want = dict(before)
        want.update(to_plain(inc))
        return (not failed) and type(out) is type(cur) and deq(to_plain(out), want)
    return failed and deq(to_plain(cur), before)


# ------------------------------------------------------------------------------------------------ reference store


class RefStore:
    """The statement's model of a store: a plain nested dict (typed: fixed key set and defaults)."""

    def __init__(self, kind: int) -> None:
        self.kind = kind
        self.root: Dict[str, Any] = self.defaults()

    def defaults(self) -> Dict[str, Any]:
        if self.kind == K_DS:
            return {}
        if self.kind == K_T:
            return {"a": None, "b": []}
        return {"a": None, "b": [], "c": {}, "n": 7}

    def get(self, path: str) -> Any:
        try:
            return copy.deepcopy(ref_get(self.root, path))
        except Missing:
            return DEFAULT

    def set(self, path: str, v: Any) -> bool:
        try:
            ref_set(self.root, path, copy.deepcopy(v), fixed_keys(self.kind))
            return True
        except RefError:
            return False

    def set_state(self, plain: Dict[str, Any], parent: bool) -> None:
        if parent:
            self.root.update(copy.deepcopy(plain))  # parent-type merge: parent fields replaced, child fields kept
        else:
            self.root = copy.deepcopy(plain)  # replace

    def clear(self) -> None:
        self.root = self.defaults()


def new_stores(kind: int, env: SqliteEnv) -> List[Any]:
    if kind == K_DS:
        return [InMemoryStateStore(DictState()), env.store(None)]
    cls = TState if kind == K_T else TChild
    return [InMemoryStateStore(cls()), env.store(cls)]


def store_plain(store: Any) -> Any:
    return to_plain(drive(store.get_state()))


async def _edit(store: Any, fn: Any) -> None:
    async with store.edit_state() as s:
        fn(s)


# ------------------------------------------------------------------------------------------------ stores: paths


def marker_value(vi: int) -> bool:
    return vi >= NPLAIN


@obligation(quick=150, thorough=900,
            partitions_quick=[f"kind == {k}" for k in (2, 4)],
            partitions_thorough=[f"kind == {k} and s0 == {s}" for k in (2, 4) for s in range(NSEG)],
            what="store.set(path, v) then get(path) / get_state on BOTH stores (fresh, type defaults) agree with the reference and each other",
            bounds={"state types": "DictState, inherited typed model", "segments": "pool of 8", "path length": "1..2 / 1..3",
                    "values": "9 JSON payloads + one marker-key dict per key literal of serializers.py"})
def ob_store_paths(kind: int, n: int, s0: int, s1: int, s2: int, vi: int) -> bool:
    """
    pre: kind in (2, 4) and 1 <= n <= NPATH and 0 <= s0 < NSEG and 0 <= s1 < NSEG and 0 <= s2 < NSEG and 0 <= vi < NV
    pre: (n >= 2 or s1 == 0) and (n >= 3 or s2 == 0)
    post: _
    """
    kind, n = cint(kind, 0, 4), cint(n, 1, 3)
    path, v = make_path(n, s0, s1, s2), pickb(VALS, vi)
    with untraced():
        if not type_ok(kind, path, v):
            return True
        ref = RefStore(kind)
        ok_ref = ref.set(path, v)
        with SqliteEnv() as env:
            for store in new_stores(kind, env):
                try:
                    drive(store.set(path, copy.deepcopy(v)))
                    ok = True
                except Exception:
                    ok = False
                if ok != ok_ref:
                    return False
                try:
                    if not deq(store_plain(store), ref.root):
                        return False
                    if ok and not str_descent(ref.root, path):
                        if not deq(to_plain(drive(store.get(path, DEFAULT))), ref.get(path)):
                            return False
                        if not deq(to_plain(drive(store.get(path))), ref.get(path)):
                            return False
                except Exception:
                    return False
        return True


# ------------------------------------------------------------------------------------------------ stores: scripts

O_GET, O_SET, O_SET_STATE, O_CLEAR, O_EDIT = 0, 1, 2, 3, 4
GET_PATHS = ["a.b", "b.0", "c.a"]
SET_ARGS = [("a.b", 6), ("b.1.x y", [1]), ("c.k", {"a": None})]


def _state_arg(kind: int, p: int) -> Any:
    """(fresh real state object, its plain form, is-parent-type)"""
    if kind == K_DS:
        m: Any = DictState(a={"b": 1}, b=[1, 2]) if p == 0 else (DictState() if p == 1 else DictState(q="z"))
        return m, to_plain(m), False
    if p == 0:
        m = TChild(a={"b": 1}, b=[1, 2], c={"a": 3}, n=1)
    elif p == 1:
        m = TChild()
    else:
        m = TState(a="p", b=[9])
        return m, to_plain(m), True
    return m, to_plain(m), False


def _edit_real(kind: int, p: int) -> Any:
    def fn(s: Any) -> None:
        if p == 0:
            if kind == K_DS:
                s["e"] = 1
            else:
                s.a = "e"
        elif p == 1:
            lst = s.get("b") if kind == K_DS else s.b
            if isinstance(lst, list):
                lst.append(4)
            elif kind == K_DS:
                s["b"] = [4]
        else:
            if kind == K_DS:
                s["cnt"] = s.get("cnt", 0) + 1
            else:
                s.n = s.n + 1

    return fn


def _edit_ref(kind: int, p: int, root: Dict[str, Any]) -> None:
    if p == 0:
        if kind == K_DS:
            root["e"] = 1
        else:
            root["a"] = "e"
    elif p == 1:
        lst = root.get("b")
        if isinstance(lst, list):
            lst.append(4)
        elif kind == K_DS:
            root["b"] = [4]
    else:
        if kind == K_DS:
            root["cnt"] = root.get("cnt", 0) + 1
        else:
            root["n"] = root["n"] + 1


def _apply(kind: int, store: Any, o: int, p: int) -> Any:
    """Outcome of one operation on a real store: ('val', plain) | ('ok',) | ('err',)"""
    try:
        if o == O_GET:
            return ("val", to_plain(drive(store.get(GET_PATHS[p], DEFAULT))))
        if o == O_SET:
            drive(store.set(SET_ARGS[p][0], copy.deepcopy(SET_ARGS[p][1])))
        elif o == O_SET_STATE:
            drive(store.set_state(_state_arg(kind, p)[0]))
        elif o == O_CLEAR:
            drive(store.clear())
        else:
            drive(_edit(store, _edit_real(kind, p)))
        return ("ok",)
    except Exception:
        return ("err",)


def _apply_ref(kind: int, ref: RefStore, o: int, p: int) -> Any:
    if o == O_GET:
        return ("val", ref.get(GET_PATHS[p]))
    if o == O_SET:
        return ("ok",) if ref.set(SET_ARGS[p][0], SET_ARGS[p][1]) else ("err",)
    if o == O_SET_STATE:
        _m, plain, parent = _state_arg(kind, p)
        ref.set_state(plain, parent)
    elif o == O_CLEAR:
        ref.clear()
    else:
        _edit_ref(kind, p, ref.root)
    return ("ok",)


def run_script(kind: int, ops: List[Any]) -> bool:
    ref = RefStore(kind)
    with SqliteEnv() as env:
        stores = new_stores(kind, env)
        for o, p in ops:
            want = _apply_ref(kind, ref, o, p)
            for store in stores:
                got = _apply(kind, store, o, p)
                if not deq(got, want):
                    return False
            for store in stores:
                try:
                    if not deq(store_plain(store), ref.root):
                        return False
                except Exception:
                    return False
    return True


@obligation(quick=150, thorough=900,
            partitions_quick=[f"kind == {k}" for k in (2, 4)],
            partitions_thorough=[f"kind == {k} and o0 == {o}" for k in (2, 4) for o in range(5)],
            what="operation scripts (get / set / set_state replace|parent merge / clear / edit_state) on BOTH fresh stores: every "
                 "outcome and the state after every step equal the reference and each other",
            bounds={"script length": "1..2 / 1..3", "ops": "5 kinds x 3 parameterisations (clear: 1)", "state types": "DictState, inherited typed model"})
def ob_store_script(kind: int, L: int, o0: int, p0: int, o1: int, p1: int, o2: int, p2: int) -> bool:
    """
    pre: kind in (2, 4) and 1 <= L <= NPATH
    pre: 0 <= o0 <= 4 and 0 <= p0 <= 2 and (o0 != 3 or p0 == 0)
    pre: (0 <= o1 <= 4 and 0 <= p1 <= 2 and (o1 != 3 or p1 == 0)) if L >= 2 else (o1 == 0 and p1 == 0)
    pre: (0 <= o2 <= 4 and 0 <= p2 <= 2 and (o2 != 3 or p2 == 0)) if L >= 3 else (o2 == 0 and p2 == 0)
    post: _
    """
    kind, L = cint(kind, 0, 4), cint(L, 1, 3)
    ops = [(cint(o0, 0, 4), cint(p0, 0, 2))]
    if L >= 2:
        ops.append((cint(o1, 0, 4), cint(p1, 0, 2)))
    if L >= 3:
        ops.append((cint(o2, 0, 4), cint(p2, 0, 2)))
    with untraced():
        return run_script(kind, ops)


# ------------------------------------------------------------------------------------------------ snapshots

ST_MEM, ST_SQL = 0, 1
MK_OVERWRITE, MK_NEW, MK_ATTR = 0, 1, 2


@obligation(quick=90, thorough=200,
            what="get_state() is a snapshot: changing a top-level field / key / dynamic attribute of it leaves the store "
                 "unchanged until set_state(snapshot), which then makes the change visible",
            bounds={"stores": 2, "state types": "DictState / typed / inherited typed", "mutations": "overwrite existing, add new (DictState), attribute style",
                    "DictState store before the snapshot": "two keys / fresh and empty / filled then cleared"})
def ob_snapshot_isolation(st: int, kind: int, mk: int, empty: int = 0) -> bool:
    """
    pre: 0 <= st <= 1 and kind in (2, 3, 4) and 0 <= mk <= 2 and (kind == 2 or mk != 1)
    pre: 0 <= empty <= 2 and (kind == 2 or empty == 0)
    post: _
    """
    st, kind, mk, empty = cint(st, 0, 1), cint(kind, 0, 4), cint(mk, 0, 2), cint(empty, 0, 2)
    with untraced():
        with SqliteEnv() as env:
            store = new_stores(kind, env)[st]
            if empty != 1:                       # 1: a fresh DictState store without any key
                drive(store.set("a", {"b": 1}))
                drive(store.set("b", [1]))
            if empty == 2:                       # 2: a store that was filled and then cleared
                drive(store.clear())
            before = store_plain(store)
            snap = drive(store.get_state())
            if kind == K_DS:
                if mk == MK_OVERWRITE:
                    snap["a"] = "changed"
                    key = "a"
                elif mk == MK_NEW:
                    snap["fresh"] = "changed"
                    key = "fresh"
                else:
                    snap.a = "changed"
                    key = "a"
            else:
                if mk == MK_OVERWRITE:
                    snap.a = "changed"
                    key = "a"
                else:
                    snap.b = ["changed"]
                    key = "b"
            # the store must not have moved
            if not deq(store_plain(store), before):
                return False
            if not deq(to_plain(drive(store.get(key, DEFAULT))), before.get(key, DEFAULT)):
                return False
            # writing the snapshot back publishes the change
            drive(store.set_state(snap))
            after = store_plain(store)
            want = dict(before)
            want[key] = ["changed"] if (kind != K_DS and mk != MK_OVERWRITE) else "changed"
            if not deq(after, want):
                return False
            # ... and that was ONE write-back: changing the same object again does not change the store a second time (a further change
            # needs a further write-back; the plain nested-dict model and the SQLite store keep what was written)
            if kind == K_DS:
                snap[key] = "changed again"
            else:
                setattr(snap, key, ["changed again"] if key == "b" else "changed again")
            return deq(store_plain(store), want)


@obligation(quick=90, thorough=200, partitions_quick=[f"kind == {k}" for k in (2, 4)], partitions_thorough=[f"kind == {k} and o1 == {o}" for k in (2, 4) for o in range(5)],
            what="clear() resets EVERY time: scripts [op, clear, op', clear] (the ops any of get/set/set_state/clear/edit_state) on both fresh stores "
                 "agree with the nested-dict model and with each other after every operation — a second clear() resets as well as the first",
            bounds={"script": "op, clear, op', clear with op, op' from 5 kinds x 3 parameterisations", "state types": "DictState, inherited typed model"})
def ob_clear_resets_every_time(kind: int, o0: int, p0: int, o1: int, p1: int) -> bool:
    """
    pre: kind in (2, 4)
    pre: 0 <= o0 <= 4 and 0 <= p0 <= 2 and (o0 != 3 or p0 == 0)
    pre: 0 <= o1 <= 4 and 0 <= p1 <= 2 and (o1 != 3 or p1 == 0)
    post: _
    """
    kind = cint(kind, 0, 4)
    ops = [(cint(o0, 0, 4), cint(p0, 0, 2)), (3, 0), (cint(o1, 0, 4), cint(p1, 0, 2)), (3, 0)]
    with untraced():
        return run_script(kind, ops)


# ------------------------------------------------------------------------------------------------ key names the code itself singles out
# state_store.py treats some top-level key names specially (KNOWN_UNSERIALIZABLE_KEYS: values under them may be dropped when they
# cannot be serialized).  A JSON value stored under such a name is an ordinary value and must behave like under any other name.
import workflows.context.state_store as _ss_mod  # noqa: E402

SPECIAL_KEYS: List[str] = [k for k in getattr(_ss_mod, "KNOWN_UNSERIALIZABLE_KEYS", ()) if isinstance(k, str)]
for _k in ast_keylike("state_store", "sqlite_state_store"):
    # (names of the containers' own attributes such as '_data' are outside, see OUTSIDE)
    if _k not in SPECIAL_KEYS and _k.isidentifier() and not _k.startswith("_"):
        SPECIAL_KEYS.append(_k)
NSPECIAL = len(SPECIAL_KEYS)


@obligation(quick=150, thorough=400, partitions_quick=["how == 0", "how == 1", "how == 2"],
            what="DictState on BOTH stores: a JSON value written under a top-level key whose NAME the store code itself singles out (the "
                 "known-unserializable key names, every key literal of state_store.py / sqlite_state_store.py) — through set, set(sub-path), "
                 "edit_state or set_state — is read back by get / get_state exactly like under any other name, and the two stores agree",
            bounds={"keys": "KNOWN_UNSERIALIZABLE_KEYS + identifier-like key literals of the two modules", "values": "first 9 JSON payloads", "write": "set / edit_state / set_state"})
def ob_store_special_keys(ki: int, vi: int, how: int) -> bool:
    """
    pre: 0 <= ki < NSPECIAL and 0 <= vi < NPLAIN and 0 <= how <= 2
    post: _
    """
    key, v, how = pickb(SPECIAL_KEYS, ki), pickb(VALS, vi), cint(how, 0, 2)
    with untraced():
        want = {key: to_plain(copy.deepcopy(v))}
        with SqliteEnv() as env:
            for store in new_stores(K_DS, env):
                try:
                    if how == 0:
                        drive(store.set(key, copy.deepcopy(v)))
                    elif how == 1:
                        def put(s: Any) -> None:
                            s[key] = copy.deepcopy(v)
                        drive(_edit(store, put))
                    else:
                        drive(store.set_state(DictState(**{key: copy.deepcopy(v)})))
                    if not deq(store_plain(store), want):
                        return False
                    if not deq(to_plain(drive(store.get(key, DEFAULT))), want[key]):
                        return False
                except Exception:
                    return False
        return True
