"""C23 — Workflow validation accepts exactly the well-formed graphs; the HITL flag it returns is right.

Engine S, differential.  The REAL ``workflows.representation.validate._validate_workflow(steps, workflow_cls_name,
skip_graph_checks)`` (what ``Workflow.validate`` runs; the flag it returns is ``Workflow.validate``'s return value)
is executed by CrossHair on ``StepConfig`` sets assembled from symbolic bits, next to ``_spec`` below: a reference
decision procedure written from the property statement and the documented rules (set algebra + bounded fix-point
reachability), executed symbolically in the same path.  Post: accept/reject agree (error class ignored) and, when
accepted, the returned flag equals "an InputRequiredEvent (sub)class is produced or a HumanResponseEvent (sub)class
is consumed".

Shape of an input: ``n`` steps (2 quick / 3 thorough) over event columns [StartEvent, StopEvent, X, Y(, Z)] where
the slot classes are chosen by ``pair`` from a pool (plain events, subclasses of InputRequiredEvent /
HumanResponseEvent, the base classes themselves, subclasses of StartEvent / StopEvent); every step accepts one
column (``a_i``) — or, thorough, a union of two — and returns the subset of columns given by its ``r_ij`` bits
(empty = returns None); workflow-level and per-step ``skip_graph_checks`` are symbolic bits that are only consulted
once the graph passed the earlier rules (otherwise all-or-nothing from one bit), which keeps the number of solver
paths proportional to the graphs on which the skips can matter.  The HITL-flag defect (flag computed by exact class
membership) is repaired in /repo, so ``ob_graph2`` / ``ob_graph3`` run without an exclusion; ``ob_graph2_accept_on_hitl_subclass``
(accept/reject only, on the class ``sub_only2`` the finding used to exclude) is kept as a cheap second look.
"""
from __future__ import annotations

import vlib.boot  # noqa: F401
from vlib.boot import B, THOROUGH  # noqa: F401  (THOROUGH is used in pre: lines)
from vlib.h_tools import cbool, cint, untraced
from vlib.ob import obligation

from workflows.decorators import StepConfig
from workflows.errors import WorkflowConfigurationError, WorkflowValidationError
from workflows.events import Event, HumanResponseEvent, InputRequiredEvent, StartEvent, StepFailedEvent, StopEvent
from workflows.representation.validate import _validate_workflow

ENCODED = [
    "workflows.representation.validate:_validate_workflow",
    "workflows.representation.validate:_ensure_start_event_class",
    "workflows.representation.validate:_ensure_stop_event_class",
    "workflows.representation.validate:_validate_event_connectivity",
    "workflows.representation.validate:_collect_catch_error_handlers",
    "workflows.representation.validate:validate_catch_error_handlers",
    "workflows.representation.validate:validate_graph",
    "workflows.representation.validate:build_step_graph",
    "workflows.representation.validate:_dfs",
    "workflows.workflow:Workflow._validate",
]
ASSUMES = [
    "reference procedure _spec is written from the statement plus the documented rules of Workflow.validate / "
    "validate_graph / _validate_event_connectivity docstrings: boundary events = InputRequiredEvent, "
    "HumanResponseEvent, StopEvent subclasses (and StepFailedEvent on the consuming side); output events = StopEvent, "
    "InputRequiredEvent subclasses; input seeds = the StartEvent class, HumanResponseEvent subclasses, catch_error handlers",
    "StepConfig objects are built directly (what @step records); resources are empty, so Workflow._validate adds "
    "nothing to _validate_workflow's verdict (its source is hashed into the evidence; native snippet goes through Workflow.validate)",
    "three-step obligation: s0 accepts StartEvent and a1 <= a2 (the decision does not depend on the dict order of steps; "
    "the two-step obligations explore both orders and the no-StartEvent case)",
    "all symbolic bits are decided (forked on) while the StepConfig set is assembled; the real validator and the "
    "reference then run on realised classes/sets with CrossHair's opcode tracing off (vlib.h_tools.untraced) — "
    "nothing symbolic can reach them, so this only removes interpreter overhead",
    "skip_graph_checks bits are consulted only when the graph passes the rules that precede the graph checks; "
    "otherwise the skip sets are all-or-nothing (bit w0)",
]
OUTSIDE = [
    "more than 3 steps / 5 event columns / 2 handlers; accepted unions of more than two events",
    "resource validation (validate_resource_configs / validate_resources)",
    "unspecified: a step that produces no event is exempt from the 'can reach an output event' rule (documented "
    "dead_end behaviour; the statement says 'every step'); _spec follows the documentation",
    "unspecified: a produced, never consumed HumanResponseEvent subclass — the statement's 'or is a boundary event' "
    "would accept it, the documented terminal_event check rejects it unless skipped; _spec follows the documentation",
    "unspecified: which error class is raised and the message text",
]


class EvA(Event):
    pass


class EvB(Event):
    pass


class AskEv(InputRequiredEvent):
    pass


class AnsEv(HumanResponseEvent):
    pass


class MyStart(StartEvent):
    pass


class MyStop(StopEvent):
    pass


IRE, HRE = InputRequiredEvent, HumanResponseEvent
# (X, Y) slot classes for the two-step obligations, selected by `pair`
PAIRS = [
    (EvA, EvB),      # 0 plain connectivity / reachability / dead ends
    (AskEv, AnsEv),  # 1 HITL through subclasses (what users write)
    (IRE, HRE),      # 2 HITL through the base classes
    (MyStart, MyStop),  # 3 start/stop multiplicity, StopEvent / StartEvent SUBCLASSES produced and consumed (quick tier too)
    (EvA, AnsEv),    # 4
    (EvA, AskEv),    # 5
    (AskEv, HRE),    # 6
    (IRE, AnsEv),    # 7
]
# (X, Y, Z) for the three-step obligation
TRIPLES = [
    (EvA, EvB, AskEv),
    (EvA, EvB, AnsEv),
    (EvA, AskEv, AnsEv),
    (EvA, IRE, HRE),
    (EvA, MyStart, MyStop),
    (AskEv, AnsEv, IRE),
    (AskEv, AnsEv, HRE),
    (EvA, EvB, MyStop),
]
NPAIRS = B(4, len(PAIRS))   # quick uses pairs 0..3 ; thorough all


# --------------------------------------------------------------------------------------------------------------
# reference decision procedure (from the statement); a step is (name, accepts, returns, role, for_steps, max_rec, skips)
# --------------------------------------------------------------------------------------------------------------
def _sub(e, base) -> bool:
    return isinstance(e, type) and issubclass(e, base)


def _spec_early(steps) -> bool:
    """exactly one StartEvent type, one StopEvent type, no step consumes a StopEvent, consumed/produced agree up to
    boundary events, catch_error handlers consistent."""
    if not steps:
        return False
    consumed, produced = [], []
    for s in steps:
        for e in s[1]:
            if e not in consumed:
                consumed.append(e)
        for e in s[2]:
            if e not in produced:
                produced.append(e)
    starts = [e for e in consumed if _sub(e, StartEvent)]
    stops = [e for e in produced if _sub(e, StopEvent)]
    if len(starts) != 1 or len(stops) != 1:
        return False
    for e in consumed:
        if _sub(e, StopEvent):
            return False
    for e in consumed:
        if e not in produced and e is not starts[0]:
            if not (_sub(e, IRE) or _sub(e, HRE) or _sub(e, StopEvent) or _sub(e, StepFailedEvent)):
                return False
    for e in produced + [starts[0]]:
        if e not in consumed:
            if not (_sub(e, IRE) or _sub(e, HRE) or _sub(e, StopEvent)):
                return False
    # handlers
    names = [s[0] for s in steps]
    handlers = [s for s in steps if s[3] == "catch_error"]
    hnames = [s[0] for s in handlers]
    wild = 0
    claimed = []
    for h in handlers:
        if not (isinstance(h[5], int) and h[5] >= 1):
            return False
        if h[4] is None:
            wild += 1
            continue
        for t in h[4]:
            if t not in names or t in hnames or t in claimed:
                return False
            claimed.append(t)
    if wild > 1:
        return False
    return True


def _spec_graph(steps, wf_skip) -> bool:
    """every step reachable from an input, every unconsumed event an output, every producing step reaches an
    output — except where skipped (workflow level, or per step for reachability / dead_end)."""
    consumed = []
    for s in steps:
        for e in s[1]:
            if e not in consumed:
                consumed.append(e)
    start = [e for e in consumed if _sub(e, StartEvent)][0]
    events = list(consumed)
    for s in steps:
        for e in s[2]:
            if e not in events:
                events.append(e)
    if "reachability" not in wf_skip:
        live_ev = [start] + [e for e in events if _sub(e, HRE)]
        live_st = [s[0] for s in steps if s[3] == "catch_error"]
        for _ in range(len(steps) + 1):
            for s in steps:
                if s[0] not in live_st and any(e in live_ev for e in s[1]):
                    live_st.append(s[0])
            for s in steps:
                if s[0] in live_st:
                    for e in s[2]:
                        if e not in live_ev:
                            live_ev.append(e)
        for s in steps:
            if s[0] not in live_st and "reachability" not in s[6]:
                return False
    if "terminal_event" not in wf_skip:
        for e in events:
            if e not in consumed and not (_sub(e, StopEvent) or _sub(e, IRE)):
                return False
    if "dead_end" not in wf_skip:
        good_ev = [e for e in events if _sub(e, StopEvent) or _sub(e, IRE)]
        good_st = []
        for _ in range(len(steps) + 1):
            for s in steps:
                if s[0] not in good_st and any(e in good_ev for e in s[2]):
                    good_st.append(s[0])
            for s in steps:
                if s[0] in good_st:
                    for e in s[1]:
                        if e not in good_ev:
                            good_ev.append(e)
        for s in steps:
            if s[2] and s[0] not in good_st and "dead_end" not in s[6]:
                return False
    return True


def _spec_hitl(steps) -> bool:
    for s in steps:
        if any(_sub(e, IRE) for e in s[2]) or any(_sub(e, HRE) for e in s[1]):
            return True
    return False


# --------------------------------------------------------------------------------------------------------------
def _cfg(s) -> StepConfig:
    return StepConfig(
        accepted_events=list(s[1]), event_name="ev", return_types=(list(s[2]) or [type(None)]), context_parameter=None,
        num_workers=1, retry_policy=None, resources=[], skip_graph_checks=list(s[6]), role=s[3],
        catch_error_for_steps=(None if s[4] is None else list(s[4])), catch_error_max_recoveries=s[5],
    )


def _real(steps, wf_skip):
    """(accepted, flag) from the real validator."""
    try:
        res = _validate_workflow({s[0]: _cfg(s) for s in steps}, "W", wf_skip)
    except (WorkflowValidationError, WorkflowConfigurationError):
        return False, None
    return True, res.uses_hitl


def _agree(steps_noskip, mk_skips, w0, flag: bool) -> bool:
    """steps_noskip: fully realised step tuples with empty skip lists.  mk_skips() -> (wf_skip, [per-step skip
    lists]) decides the symbolic skip bits; it is only called when the rules that precede the graph checks pass
    (otherwise the skips are all-or-nothing from bit w0).  The real validator and the reference then run on
    concrete values with opcode tracing off."""
    with untraced():
        early = _spec_early(steps_noskip)
    if early:
        wf_skip, per = mk_skips()
    else:
        allskip = cbool(w0)
        wf_skip = {"reachability", "terminal_event", "dead_end"} if allskip else set()
        per = [(["reachability", "dead_end"] if allskip else []) for _ in steps_noskip]
    with untraced():
        steps = [s[:6] + (list(per[i]),) for i, s in enumerate(steps_noskip)]
        want = early and _spec_graph(steps, wf_skip)
        got, got_flag = _real(steps, wf_skip)
        if got != want:
            return False
        if flag and got and got_flag != _spec_hitl(steps):
            return False
        return True


def _sel(cols, bits):
    out = []
    for c, b in zip(cols, bits):
        if b:
            out.append(c)
    return out


def _steps2(pair, a0, a1, r0, r1):
    x, y = PAIRS[cint(pair, 0, len(PAIRS) - 1)]
    cols = [StartEvent, StopEvent, x, y]
    return [
        ("s0", [cols[cint(a0, 0, 3)]], _sel(cols, r0), "step", None, 1, []),
        ("s1", [cols[cint(a1, 0, 3)]], _sel(cols, r1), "step", None, 1, []),
    ]


# per pair: is X / Y a strict subclass of InputRequiredEvent / HumanResponseEvent, or the base class itself
_X_SUB_IRE = [_sub(x, IRE) and x is not IRE for x, _ in PAIRS]
_Y_SUB_IRE = [_sub(y, IRE) and y is not IRE for _, y in PAIRS]
_X_SUB_HRE = [_sub(x, HRE) and x is not HRE for x, _ in PAIRS]
_Y_SUB_HRE = [_sub(y, HRE) and y is not HRE for _, y in PAIRS]
_X_IS_IRE = [x is IRE for x, _ in PAIRS]
_Y_IS_IRE = [y is IRE for _, y in PAIRS]
_X_IS_HRE = [x is HRE for x, _ in PAIRS]
_Y_IS_HRE = [y is HRE for _, y in PAIRS]


def sub_only2(pair: int, a0: int, a1: int, r02: bool, r03: bool, r12: bool, r13: bool, u1: int = -1) -> bool:
    """The HITL-by-subclass class: an InputRequiredEvent SUBclass is produced or a HumanResponseEvent SUBclass is
    consumed, and neither base class itself is produced/consumed.  (Characterises the known finding.)"""
    p = cint(pair, 0, len(PAIRS) - 1)
    px = r02 or r12
    py = r03 or r13
    cx = a0 == 2 or a1 == 2 or u1 == 2
    cy = a0 == 3 or a1 == 3 or u1 == 3
    spec = (px and _X_SUB_IRE[p]) or (py and _Y_SUB_IRE[p]) or (cx and _X_SUB_HRE[p]) or (cy and _Y_SUB_HRE[p])
    exact = (px and _X_IS_IRE[p]) or (py and _Y_IS_IRE[p]) or (cx and _X_IS_HRE[p]) or (cy and _Y_IS_HRE[p])
    return bool(spec and not exact)


def _skip_list(k) -> list:
    k = cint(k, 0, 3)
    return (["reachability"] if k in (1, 3) else []) + (["dead_end"] if k in (2, 3) else [])


def _mk_skips(w0, w1, w2, ks):
    def mk():
        wf = set()
        if w0:
            wf.add("reachability")
        if w1:
            wf.add("terminal_event")
        if w2:
            wf.add("dead_end")
        return wf, [_skip_list(k) for k in ks]

    return mk


_P2Q = ["pair == 0 and a0 == 0 and a1 <= 1", "pair == 0 and a0 == 0 and a1 >= 2", "pair == 1 and a0 == 0", "pair == 2 and a0 == 0 and a1 <= 1", "pair == 2 and a0 == 0 and a1 >= 2",
        "pair == 3 and a0 == 0 and a1 <= 1", "pair == 3 and a0 == 0 and a1 >= 2", "a0 >= 1"]
_P2T = [f"pair == {p} and a0 {c}" for p in range(len(PAIRS)) for c in ("== 0", ">= 1")]


@obligation(quick=200, thorough=600, partitions_quick=_P2Q, partitions_thorough=_P2T,
            what="2 steps x [Start, Stop, X, Y]: accept/reject agrees with the reference; returned HITL flag = "
                 "(InputRequiredEvent (sub)class produced or HumanResponseEvent (sub)class consumed)",
            bounds={"steps": 2, "columns": 4, "slot pairs": "0..NPAIRS-1 (4 quick / 8 thorough)",
                    "accepts": "one column per step", "returns": "any subset of the columns",
                    "skips": "3 workflow-level bits",
                    "quick": "s0 accepts StartEvent, or nobody does and s1 returns nothing; terminal_event/dead_end skips only "
                             "for pair 0; thorough: unrestricted"})
def ob_graph2(pair: int, a0: int, a1: int, r00: bool, r01: bool, r02: bool, r03: bool, r10: bool, r11: bool, r12: bool,
              r13: bool, w0: bool, w1: bool, w2: bool) -> bool:
    """
    pre: 0 <= pair < NPAIRS and 0 <= a0 <= 3 and 0 <= a1 <= 3
    pre: THOROUGH or ((a0 == 0 or (a1 >= 1 and not (r10 or r11 or r12 or r13))) and (pair == 0 or not (w1 or w2)))
    post: _
    """
    steps = _steps2(pair, a0, a1, [r00, r01, r02, r03], [r10, r11, r12, r13])
    return _agree(steps, _mk_skips(w0, w1, w2, [0, 0]), w0, True)


@obligation(quick=200, thorough=600, partitions_quick=["pair == 1 and a1 <= 1", "pair == 1 and a1 >= 2"],
            partitions_thorough=[f"pair == {p}" for p in (1, 5, 4, 6, 7)],
            what="accept/reject agreement on the inputs that the known HITL-flag finding excludes from ob_graph2 "
                 "(so the class is still searched for every other disagreement)",
            bounds={"class": "sub_only2(...)"})
def ob_graph2_accept_on_hitl_subclass(pair: int, a0: int, a1: int, r00: bool, r01: bool, r02: bool, r03: bool, r10: bool,
                                      r11: bool, r12: bool, r13: bool, w0: bool, w1: bool, w2: bool) -> bool:
    """
    pre: 0 <= pair < NPAIRS and 0 <= a0 <= 3 and 0 <= a1 <= 3
    pre: THOROUGH or ((a0 == 0 or (a1 >= 1 and not (r10 or r11 or r12 or r13))) and (pair == 0 or not (w1 or w2)))
    pre: sub_only2(pair, a0, a1, r02, r03, r12, r13)
    post: _
    """
    steps = _steps2(pair, a0, a1, [r00, r01, r02, r03], [r10, r11, r12, r13])
    return _agree(steps, _mk_skips(w0, w1, w2, [0, 0]), w0, False)


@obligation(quick=200, thorough=600, partitions_quick=["pair == 0", "pair == 1", "pair >= 2"],
            partitions_thorough=[f"pair == {p}" for p in range(len(PAIRS))],
            what="per-step skip_graph_checks (reachability / dead_end) and their interplay with the workflow-level "
                 "skips: accept/reject agrees with the reference (s0 accepts StartEvent)",
            bounds={"steps": 2, "per-step skips": "{none, reachability, dead_end, both}^2", "workflow skips": "reachability, dead_end"})
def ob_step_skips2(pair: int, a1: int, r00: bool, r01: bool, r02: bool, r03: bool, r10: bool, r11: bool, r12: bool,
                   r13: bool, w0: bool, w2: bool, k0: int, k1: int) -> bool:
    """
    pre: 0 <= pair < NPAIRS and 2 <= a1 <= 3 and 0 <= k0 <= 3 and 0 <= k1 <= 3
    pre: THOROUGH or (not (w0 or w2) and (pair == 0 or k0 == 0))
    post: _
    """
    steps = _steps2(pair, 0, a1, [r00, r01, r02, r03], [r10, r11, r12, r13])
    return _agree(steps, _mk_skips(w0, False, w2, [k0, k1]), w0, False)


# --------------------------------------------------------------------------------------------------------------
# catch_error handlers: fixed main graph s0: Start -> EvA, s1: EvA -> Stop ; up to two handler steps, symbolic config
# --------------------------------------------------------------------------------------------------------------
def _for_steps(k, me: str, other: str):
    k = cint(k, 0, 6)
    if k == 0:
        return None           # wildcard
    if k == 1:
        return ["s0"]
    if k == 2:
        return ["s1", "s0"]
    if k == 3:
        return [other]        # covers another handler (or an unknown step when there is no other handler)
    if k == 4:
        return [me]           # covers itself
    if k == 5:
        return ["nope"]       # unknown step
    return []


_RETS = [[], [StopEvent], [EvA], [EvB]]


@obligation(quick=150, thorough=400, partitions_quick=["nh <= 1", "nh == 2"], partitions_thorough=["nh <= 1", "nh == 2"],
            what="@catch_error consistency (<= 1 wildcard, for_steps targets known / not handlers / claimed once, "
                 "max_recoveries >= 1): accept/reject agrees with the reference",
            bounds={"handlers": "0..2", "for_steps shapes": 7, "max_recoveries": "0..2",
                    "an ordinary (non-handler) step consuming StepFailedEvent": "absent / returning nothing / returning StopEvent; with or without its reachability opt-out"})
def ob_handlers(nh: int, f1: int, f2: int, m1: int, m2: int, w0: bool, psf: int = 0, kp: bool = False) -> bool:
    """
    pre: 0 <= nh <= 2 and 0 <= f1 <= 6 and 0 <= f2 <= 6 and 0 <= m1 <= 2 and 0 <= m2 <= 2 and 0 <= psf <= 2
    post: _
    """
    nh = cint(nh, 0, 2)
    steps = [
        ("s0", [StartEvent], [EvA], "step", None, 1, []),
        ("s1", [EvA], [StopEvent], "step", None, 1, []),
    ]
    if nh >= 1:
        steps.append(("h1", [StepFailedEvent], [], "catch_error", _for_steps(f1, "h1", "h2"), cint(m1, 0, 2), []))
    if nh >= 2:
        steps.append(("h2", [StepFailedEvent], [], "catch_error", _for_steps(f2, "h2", "h1"), cint(m2, 0, 2), []))
    psf = cint(psf, 0, 2)
    if psf:
        # an ORDINARY step that takes StepFailedEvent (nothing produces it and the runtime routes failures to handlers by name, never to
        # it): unreachable unless it opts out of the reachability check
        steps.append(("p", [StepFailedEvent], ([] if psf == 1 else [StopEvent]), "step", None, 1, []))
    skip_p = cbool(kp)
    return _agree(steps, lambda: (set(), [(["reachability"] if (s[0] == "p" and skip_p) else []) for s in steps]), w0, True)


@obligation(quick=150, thorough=400,
            what="a handler's sub-graph: handler steps are reachability seeds, their outputs obey the connectivity / "
                 "terminal / dead-end rules like any step's",
            bounds={"handler": 1, "handler returns": "None/Stop/EvA/EvB", "extra step fed by the handler": "yes/no"})
def ob_handler_graph(f1: int, ret1: int, extra: bool, xr: int, w0: bool, w2: bool, khd: bool, kx: int) -> bool:
    """
    pre: 0 <= f1 <= 1 and 0 <= ret1 <= 3 and 0 <= xr <= 3 and 0 <= kx <= 3
    post: _
    """
    steps = [
        ("s0", [StartEvent], [EvA], "step", None, 1, []),
        ("s1", [EvA], [StopEvent], "step", None, 1, []),
        ("h1", [StepFailedEvent], list(_RETS[cint(ret1, 0, 3)]), "catch_error", _for_steps(f1, "h1", "h2"), 1, []),
    ]
    has_extra = cbool(extra)
    if has_extra:  # a step fed only by the handler's output
        steps.append(("s2", [EvB], list(_RETS[cint(xr, 0, 3)]), "step", None, 1, []))

    def mk():
        wf, _ = _mk_skips(w0, False, w2, [])()
        per = [[], [], (["dead_end"] if khd else [])] + ([_skip_list(kx)] if has_extra else [])
        return wf, per

    return _agree(steps, mk, w0, True)


# --------------------------------------------------------------------------------------------------------------
# thorough: accepted union of two events; 3 steps x 5 columns
# --------------------------------------------------------------------------------------------------------------
def _steps2u(pair, a0, a1, u1, r0, r1):
    x, y = PAIRS[cint(pair, 0, len(PAIRS) - 1)]
    cols = [StartEvent, StopEvent, x, y]
    return [
        ("s0", [cols[cint(a0, 0, 3)]], _sel(cols, r0), "step", None, 1, []),
        ("s1", [cols[cint(a1, 0, 3)], cols[cint(u1, 0, 3)]], _sel(cols, r1), "step", None, 1, []),
    ]


@obligation(quick=None, thorough=600, partitions_thorough=[f"pair == {p}" for p in range(len(PAIRS))],
            what="2 steps, s1 accepts a union of two columns: accept/reject and HITL flag agree with the reference",
            bounds={"steps": 2, "columns": 4, "accepted union": "s1: two distinct columns"})
def ob_graph2_union(pair: int, a0: int, a1: int, u1: int, r00: bool, r01: bool, r02: bool, r03: bool, r10: bool, r11: bool,
                    r12: bool, r13: bool, w0: bool, w1: bool, w2: bool) -> bool:
    """
    pre: 0 <= pair < NPAIRS and 0 <= a0 <= 3 and 0 <= a1 < u1 <= 3
    post: _
    """
    steps = _steps2u(pair, a0, a1, u1, [r00, r01, r02, r03], [r10, r11, r12, r13])
    return _agree(steps, _mk_skips(w0, w1, w2, [0, 0]), w0, True)


@obligation(quick=None, thorough=600, partitions_thorough=[f"pair == {p}" for p in (1, 5, 4, 6, 7)],
            what="union variant: accept/reject agreement on the inputs excluded by the known HITL-flag finding",
            bounds={"class": "sub_only2(..., u1)"})
def ob_graph2_union_accept_on_hitl_subclass(pair: int, a0: int, a1: int, u1: int, r00: bool, r01: bool, r02: bool, r03: bool,
                                            r10: bool, r11: bool, r12: bool, r13: bool, w0: bool, w1: bool, w2: bool) -> bool:
    """
    pre: 0 <= pair < NPAIRS and 0 <= a0 <= 3 and 0 <= a1 < u1 <= 3
    pre: sub_only2(pair, a0, a1, r02, r03, r12, r13, u1)
    post: _
    """
    steps = _steps2u(pair, a0, a1, u1, [r00, r01, r02, r03], [r10, r11, r12, r13])
    return _agree(steps, _mk_skips(w0, w1, w2, [0, 0]), w0, False)


_SUB2 = [[], [0], [1], [2], [3], [4], [0, 1], [0, 2], [0, 3], [0, 4], [1, 2], [1, 3], [1, 4], [2, 3], [2, 4], [3, 4]]
_NTRI = 4


def _steps3(tri, a1, a2, q0, q1, q2):
    x, y, z = TRIPLES[cint(tri, 0, _NTRI - 1)]
    cols = [StartEvent, StopEvent, x, y, z]
    return [
        ("s0", [StartEvent], [cols[j] for j in _SUB2[cint(q0, 0, 15)]], "step", None, 1, []),
        ("s1", [cols[cint(a1, 0, 4)]], [cols[j] for j in _SUB2[cint(q1, 0, 15)]], "step", None, 1, []),
        ("s2", [cols[cint(a2, 0, 4)]], [cols[j] for j in _SUB2[cint(q2, 0, 15)]], "step", None, 1, []),
    ]


def sub_only3(tri: int, a1: int, a2: int, q0: int, q1: int, q2: int) -> bool:
    steps = _steps3(tri, a1, a2, q0, q1, q2)
    prod = [e for s in steps for e in s[2]]
    cons = [e for s in steps for e in s[1]]
    spec = False
    exact = False
    for e in prod:
        if _sub(e, IRE):
            spec = True
        if e is IRE:
            exact = True
    for e in cons:
        if _sub(e, HRE):
            spec = True
        if e is HRE:
            exact = True
    return spec and not exact


_P3 = [f"tri == {t} and a1 == {a}" for t in range(_NTRI) for a in range(5)]


@obligation(quick=None, thorough=1500, partitions_thorough=_P3,
            what="3 steps x [Start, Stop, X, Y, Z] (s0 accepts StartEvent; every step returns <= 2 columns; a1 <= a2): "
                 "accept/reject and HITL flag agree with the reference",
            bounds={"steps": 3, "columns": 5, "slot triples": _NTRI, "returns": "<= 2 columns per step", "skips": "3 workflow-level bits"})
def ob_graph3(tri: int, a1: int, a2: int, q0: int, q1: int, q2: int, w0: bool, w1: bool, w2: bool) -> bool:
    """
    pre: 0 <= tri < _NTRI and 0 <= a1 <= a2 <= 4 and 0 <= q0 <= 15 and 0 <= q1 <= 15 and 0 <= q2 <= 15
    post: _
    """
    steps = _steps3(tri, a1, a2, q0, q1, q2)
    return _agree(steps, _mk_skips(w0, w1, w2, [0, 0, 0]), w0, True)


# (ob_graph3_accept_on_hitl_subclass was removed once the HITL-flag defect was repaired in /repo (a6b6f65): ob_graph3 no longer
#  excludes the sub_only3 class, so it checks strictly more on a superset; the two-step twins are kept because they are cheap.)


# --------------------------------------------------------------------------------------------------------------
# through the real Workflow object: skip_graph_checks is a property of the INSTANCE
# --------------------------------------------------------------------------------------------------------------
from workflows import Workflow as _Workflow, step as _step  # noqa: E402


def _instance_wf(g: int):
    """a FRESH class per scenario (whatever a class remembers about earlier validations must come from THIS scenario's instances, not from
    another path explored in the same interpreter): (class, name of the graph check its graph fails)"""
    if g == 0:
        class UnreachableWF(_Workflow):
            """s1 is fed only by itself: unreachable from the StartEvent (passes the event-connectivity rules: EvB is produced and consumed)"""

            @_step
            async def s0(self, ev: StartEvent) -> StopEvent:
                return StopEvent()

            @_step
            async def s1(self, ev: EvB) -> EvB | StopEvent:
                return StopEvent()

        return UnreachableWF, "reachability"

    class DeadEndWF(_Workflow):
        """s1 only ever produces its own input: it can never lead to an output"""

        @_step
        async def s0(self, ev: StartEvent) -> EvA | StopEvent:
            return StopEvent()

        @_step
        async def s1(self, ev: EvA) -> EvA:
            return EvA()

    return DeadEndWF, "dead_end"


@obligation(quick=120, thorough=300, partitions_quick=["g == 0", "g == 1"], partitions_thorough=[f"g == {g} and n == {n}" for g in (0, 1) for n in (2, 3)],
            what="Workflow(skip_graph_checks=...).validate() on SEVERAL instances of one class, one after the other: each instance is accepted or "
                 "rejected on its OWN skip set (a graph with an unreachable / dead-end step is accepted exactly by the instances that skip that "
                 "check), whatever instances of the class were validated before it",
            bounds={"classes": "unreachable step / dead-end step", "instances in a row": "2 (thorough 3)",
                    "skip set of each": "{} / {the needed check} / {another check} / {both}"})
def ob_instances_validate_on_their_own_skips(g: int, n: int, k0: int, k1: int, k2: int) -> bool:
    """
    pre: 0 <= g <= 1 and 2 <= n <= NINST and 0 <= k0 <= 3 and 0 <= k1 <= 3 and 0 <= k2 <= 3 and (n > 2 or k2 == 0)
    post: _
    """
    g, n = cint(g, 0, 1), cint(n, 2, 3)
    ks = [cint(k, 0, 3) for k in (k0, k1, k2)][:n]
    with untraced():
        cls, needed = _instance_wf(g)
        other = "dead_end" if needed == "reachability" else "reachability"
        for k in ks:
            skips = set(([needed] if k & 1 else []) + ([other] if k & 2 else []))
            wf = cls(timeout=None, skip_graph_checks=skips)
            try:
                wf.validate()
                accepted = True
            except (WorkflowValidationError, WorkflowConfigurationError):
                accepted = False
            if accepted != bool(k & 1):
                return False
        return True


NINST = B(2, 3)
