"""C15 — the server's handler record always reflects the run outcome.

ob_terminal_event_status   REAL _ServerInternalRunAdapter.write_to_event_stream + ServerRuntimeDecorator._handle_status_update /
                           _retry_store_write + AbstractWorkflowStore.update_handler_status, per event class, with a symbolic number
                           of transient update failures: stored status / result / error are the documented ones, the event is
                           recorded once and forwarded once, nothing is written while replaying
ob_terminal_never_reverts  symbolic sequences of everything the runtime stack writes for one run — events through the REAL
                           _ServerInternalRunAdapter -> _IdleReleaseInternalRunAdapter chain, external send_event through the REAL
                           IdleReleaseExternalRunAdapter — against a real store: once terminal, the status is never 'running' again
ob_retry_store_write       REAL _retry_store_write: symbolic failure prefix f, symbolic backoff list: succeeds iff f <= len(backoff),
                           f+1 attempts, sleeps exactly backoff[:f] (virtual time), otherwise re-raises the last error after len+1 attempts
ob_whole_run_status        whole runs: REAL _WorkflowService.start_workflow / cancel_handler -> ServerRuntimeDecorator -> BasicRuntime ->
                           control_loop -> step workers on MiniLoop; symbolic outcome knobs (step raises / retry policy raises / step
                           duration / workflow timeout / cancel instant) and symbolic store-write faults; after the run has ended
                           the stored status is terminal and matches the way the run's handle ended"""
from __future__ import annotations

import vlib.boot  # noqa: F401
from vlib.boot import B
from vlib.ob import obligation
from vlib.miniloop import MiniLoop
from vlib.h_stores import EvP, SubStop, TmpDir, pick_int, untraced, warm_sqlite
from vlib.h_stores2 import FaultStore, StubExternalRuntime, StubInner, TransientStoreError, VRuntime

import asyncio
import logging
import os

from llama_agents.server._runtime.idle_release_runtime import (
    IdleReleaseDecorator, IdleReleaseExternalRunAdapter, _IdleReleaseInternalRunAdapter,
)
from llama_agents.server._runtime.persistence_runtime import TickPersistenceDecorator
from llama_agents.server._runtime.server_runtime import ServerRuntimeDecorator, _ServerInternalRunAdapter
from llama_agents.server._service import _WorkflowService
from llama_agents.server._store.abstract_workflow_store import HandlerQuery, PersistentHandler
from llama_agents.server._store.memory_workflow_store import MemoryWorkflowStore
from llama_agents.server._store.sqlite.sqlite_workflow_store import SqliteWorkflowStore
from workflows import Context, Workflow, step
from workflows.errors import WorkflowCancelledByUser
from workflows.events import (
    StartEvent, StopEvent, WorkflowCancelledEvent, WorkflowFailedEvent, WorkflowIdleEvent, WorkflowTimedOutEvent,
)
from workflows.plugins.basic import BasicRuntime
from workflows.runtime.types.ticks import TickAddEvent

ENCODED = [
    "llama_agents.server._runtime.server_runtime:_ServerInternalRunAdapter.write_to_event_stream",
    "llama_agents.server._runtime.server_runtime:ServerRuntimeDecorator._handle_status_update",
    "llama_agents.server._runtime.server_runtime:ServerRuntimeDecorator._retry_store_write",
    "llama_agents.server._runtime.server_runtime:ServerRuntimeDecorator.run_workflow_handler",
    "llama_agents.server._runtime.server_runtime:ServerRuntimeDecorator.run_workflow",
    "llama_agents.server._runtime.server_runtime:ServerRuntimeDecorator.get_internal_adapter",
    "llama_agents.server._store.abstract_workflow_store:AbstractWorkflowStore.update_handler_status",
    "llama_agents.server._runtime.idle_release_runtime:_IdleReleaseInternalRunAdapter.write_to_event_stream",
    "llama_agents.server._runtime.idle_release_runtime:IdleReleaseExternalRunAdapter.send_event",
    "llama_agents.server._service:_WorkflowService.start_workflow",
    "llama_agents.server._service:_WorkflowService.cancel_handler",
    "llama_agents.server._service:_WorkflowService._cancel_run",
    "llama_agents.server._service:_WorkflowService._workflow_run_handler",
    "llama_agents.server._store.memory_workflow_store:MemoryWorkflowStore.update",
    "llama_agents.server._store.memory_workflow_store:MemoryWorkflowStore.query",
    "workflows.runtime.control_loop:_ControlLoopRunner.process_command",
    "workflows.runtime.control_loop:_ControlLoopRunner._process_tick",
]
ASSUMES = [
    "store = a real MemoryWorkflowStore (thorough: also a real SqliteWorkflowStore on a tmp file) behind vlib.h_stores2.FaultStore: the "
    "i-th update call fails iff a symbolic bit says so, the first / second / terminal-event append_event of the run fails a symbolic "
    "number of consecutive times; a failing call changes nothing; 'transient' = at most len(persistence_backoff) = 2 consecutive "
    "failures of one kind of write (what ServerRuntimeDecorator._retry_store_write is built to absorb); FaultStore.query hands out "
    "copies, as every database-backed store does",
    "virtual time: vlib.miniloop.MiniLoop (FIFO ready queue like asyncio, timers by deadline); the runtime under the server decorator "
    "is the real BasicRuntime whose adapter reads that loop's clock instead of time.time() (VRuntime); instants (step duration, "
    "workflow timeout, cancel instant, backoff delays) are small symbolic ints, enumerated by the solver",
    "ob_whole_run_status / ob_terminal_never_reverts: every symbolic parameter is forked to a concrete value first, the real stack then "
    "runs with CrossHair's opcode tracing suspended (vlib.h_stores.untraced) — the solver enumerates the scenarios and decides the "
    "verdict, the run itself executes exactly as in CPython; ob_terminal_event_status / ob_retry_store_write run traced with symbolic "
    "failure counts and delays flowing through the real retry loop",
    "ob_terminal_never_reverts: no WorkflowIdleEvent is written after a terminal event (C04: nothing is published after the terminal "
    "event; the idle decorator's own write is the one call of the stack that passes status='running' explicitly); the idle-release "
    "stack is the real decorator chain over stub innermost adapters; the run is in _active_run_ids (no reload)",
    "ob_whole_run_status observes the record SETTLE = sum(backoff)+1 virtual seconds after the run's handle resolved (a client polling the "
    "handler; on the current tree the status is written before the run's future resolves, so this changes nothing today)",
    "ob_whole_run_status oracle: the way the run ended is read off the real WorkflowHandler (returns -> completed with that result, "
    "WorkflowCancelledByUser -> cancelled, any other exception incl. WorkflowTimeoutError -> failed with an error text)",
    "logging is disabled process-wide (LogRecord creation reads the wall clock, which CrossHair makes symbolic); log output is not observed",
]
OUTSIDE = [
    "the HTTP layer (_api.py, starlette absent); Postgres / agent-data stores (writes that really suspend between the read and the "
    "write of update_handler_status: a concurrent idle_since update could then write back a stale 'running')",
    "non-transient store outages (more than len(backoff) consecutive failures) except as the trigger of the engine-side-failure outcome "
    "in ob_whole_run_status; faults of the initial handler write beyond the retries (start_workflow then fails before a run exists)",
    "update faults AND append faults in the same run (their retries add up; a cancel whose accumulated retries exceed cancel_run's 5 s "
    "graceful window is hard-killed by _WorkflowService._kill_run and nothing records an outcome)",
    "the full IdleRelease + Persistence stack in whole runs (C26 / C36); DBOS runtime; re-running a finished handler id (a new run)",
    "workflows with more than one step / several workers (the outcome classes, not the engine's scheduling, are the subject here: C01-C04)",
]

warm_sqlite()
logging.disable(logging.CRITICAL)

BACKOFF = [1, 2]          # persistence_backoff used by the obligations (virtual seconds); len = the 'transient' bound
SETTLE = sum(BACKOFF) + 1  # virtual seconds between the end of the run and the observation in ob_whole_run_status


def _mk_store(sq: bool, tmp: str, upd_fail=(), app_mode: int = 0, app_n: int = 0) -> FaultStore:
    inner = SqliteWorkflowStore(os.path.join(tmp, "s.db")) if sq else MemoryWorkflowStore()
    return FaultStore(inner, upd_fail, app_mode, app_n)


def _the_handler(store):
    async def q():
        return await store.inner.query(HandlerQuery(handler_id_in=["h0"]))
    found = MiniLoop().run_until_complete(q())
    return found[0] if found else None


# ------------------------------------------------------------------------------------------------ Ob1
_BOOM = ValueError("boom")


def _event(kind: int):
    """0 StopEvent, 1 StopEvent subclass, 2 WorkflowFailedEvent, 3 WorkflowTimedOutEvent, 4 WorkflowCancelledEvent, 5 plain, 6 idle"""
    if kind == 0:
        return StopEvent(result=5)
    if kind == 1:
        return SubStop(result=6)
    if kind == 2:
        return WorkflowFailedEvent(step_name="s", exception=_BOOM, attempts=1, elapsed_seconds=0.0)
    if kind == 3:
        return WorkflowTimedOutEvent(timeout=3.0, active_steps=["s"])
    if kind == 4:
        return WorkflowCancelledEvent()
    if kind == 5:
        return EvP(i=1)
    return WorkflowIdleEvent()


def _expected(kind: int):
    """(status, has_result, error) the statement / the adapter's docstring prescribe for the event class"""
    if kind == 0 or kind == 1:
        return ("completed", True, None)
    if kind == 2:
        return ("failed", False, "boom")
    if kind == 3:
        return ("failed", False, "Workflow timed out after 3.0s")
    if kind == 4:
        return ("cancelled", False, None)
    return ("running", False, None)


@obligation(quick=120, thorough=300, partitions_quick=["not sq", "sq"], partitions_thorough=["not sq", "sq"],
            what="write_to_event_stream(event) for each event class x f transient update failures x replaying: status/result/error as specified, completed_at set iff terminal, "
                 "event stored once and forwarded once, retries sleep exactly backoff[:f]; while replaying nothing is written",
            bounds={"event class": "StopEvent, subclass, WorkflowFailedEvent, WorkflowTimedOutEvent, WorkflowCancelledEvent, plain event", "update failures": "0..2 (= len(backoff))",
                    "replaying": "bool", "store": "memory / sqlite"})
def ob_terminal_event_status(kind: int, f: int, replaying: bool, sq: bool) -> bool:
    """
    pre: 0 <= kind <= 5 and 0 <= f <= 2
    post: _
    """
    kind = pick_int(kind, 0, 5)
    with TmpDir() as tmp:
        store = _mk_store(True if sq else False, tmp, [False] + [j < f for j in range(3)])   # update #0 = the initial handler write below
        rt = ServerRuntimeDecorator(BasicRuntime(), store, persistence_backoff=list(BACKOFF))
        inner = StubInner("r0", replaying)
        adapter = _ServerInternalRunAdapter(inner, rt)
        ev = _event(kind)
        loop = MiniLoop()

        async def main():
            await rt.run_workflow_handler("h0", "w", "r0")          # the real initial write (status running)
            t0 = loop.time()
            await adapter.write_to_event_stream(ev)
            return loop.time() - t0

        elapsed = loop.run_until_complete(main())
        h = _the_handler(store)

        async def evs():
            return await store.inner.query_events("r0")
        stored = MiniLoop().run_until_complete(evs())
    if h is None or len(inner.written) != 1 or inner.written[0] is not ev:
        return False
    if replaying:
        return h.status == "running" and h.result is None and h.error is None and h.completed_at is None and stored == [] and elapsed == 0
    status, has_result, error = _expected(kind)
    terminal = kind <= 4
    if h.status != status or h.error != error or (h.completed_at is not None) != terminal:
        return False
    if has_result:
        if h.result is None or type(h.result) is not type(ev) or h.result.result != ev.result:
            return False
    elif h.result is not None:
        return False
    if len(stored) != 1 or stored[0].event.type != type(ev).__name__:
        return False
    used = f if terminal else 0            # only terminal events write the handler
    return elapsed == sum(BACKOFF[:used]) and store.n_update == 1 + (used + 1 if terminal else 0)


# ------------------------------------------------------------------------------------------------ Ob2
SEQ = B(3, 4)
ACT_SEND = 7       # action codes: 0..6 = _event(kind) written through the adapter chain, 7 = external send_event


def _idle_after_terminal(n: int, acts) -> bool:
    seen = False
    for i in range(len(acts)):
        if i < n:
            if acts[i] == 6 and seen:
                return True
            if acts[i] <= 4:
                seen = True
    return False


def _run_sequence(n: int, acts, sq: bool) -> bool:
    with TmpDir() as tmp:
        store = _mk_store(sq, tmp)
        idle_rt = IdleReleaseDecorator(TickPersistenceDecorator(StubExternalRuntime(), store), store, idle_timeout=100.0)
        rt = ServerRuntimeDecorator(idle_rt, store, persistence_backoff=list(BACKOFF))
        inner = StubInner("r0")
        chain = _ServerInternalRunAdapter(_IdleReleaseInternalRunAdapter(inner, idle_rt, store), rt)
        ext = IdleReleaseExternalRunAdapter(idle_rt, "r0")
        idle_rt._active_run_ids.add("r0")        # what IdleReleaseDecorator.run_workflow does when the run starts
        seen = []

        async def main():
            await rt.run_workflow_handler("h0", "w", "r0")
            for i in range(n):
                if acts[i] == ACT_SEND:
                    await ext.send_event(TickAddEvent(event=EvP(i=i)))
                else:
                    await chain.write_to_event_stream(_event(acts[i]))
                h = (await store.inner.query(HandlerQuery(handler_id_in=["h0"])))[0]
                seen.append((h.status, h.idle_since is not None))
            for t in list(idle_rt._background_tasks):      # the deferred-release timers (idle_timeout = 100 virtual s)
                t.cancel()
            await asyncio.sleep(0)

        MiniLoop().run_until_complete(main())
    was_terminal = False
    first_terminal = None
    for i in range(n):
        status, idle = seen[i]
        if was_terminal and status == "running":
            return False                                    # a stored terminal status changed back to running
        if status != "running":
            was_terminal = True
        if first_terminal is None and acts[i] <= 4:
            first_terminal = i
            if status != _expected(acts[i])[0]:
                return False
        if first_terminal is None and status != "running":
            return False                                    # nothing terminal was written yet
        if acts[i] == 6 and not idle:
            return False                                    # the idle mark is recorded ...
        if acts[i] == ACT_SEND and idle:
            return False                                    # ... and cleared by the next external event
    return True


@obligation(quick=150, thorough=600, partitions_quick=[f"a0 % 4 == {k}" for k in range(4)],
            partitions_thorough=[f"a0 == {k} and sq == {s}" for k in range(8) for s in (True, False)],
            what="sequence of writes the stack issues for one run (events through the real server + idle-release adapter chain, external send_event through the real idle-release "
                 "external adapter): after the first terminal event the stored status is the matching one and is never 'running' again; idle marks set / cleared",
            bounds={"sequence length": "1..SEQ", "actions": "5 terminal event classes, plain event, WorkflowIdleEvent (not after a terminal event), external send_event", "store": "memory (thorough: and sqlite)"})
def ob_terminal_never_reverts(n: int, a0: int, a1: int, a2: int, a3: int, sq: bool) -> bool:
    """
    pre: 1 <= n <= SEQ and 0 <= a0 <= 7 and 0 <= a1 <= 7 and 0 <= a2 <= 7 and 0 <= a3 <= 7
    pre: (n > 1 or a1 == 0) and (n > 2 or a2 == 0) and (n > 3 or a3 == 0)
    pre: SEQ == 4 or not sq
    pre: not _idle_after_terminal(n, [a0, a1, a2, a3])
    post: _
    """
    n = pick_int(n, 1, SEQ)
    acts = [pick_int(a, 0, 7) for a in (a0, a1, a2, a3)[:n]]
    sq = True if sq else False
    with untraced():
        return _run_sequence(n, acts, sq)


# ------------------------------------------------------------------------------------------------ Ob3
DEL = B(2, 3)


@obligation(quick=150, thorough=400, partitions_quick=["nb <= 2"] + [f"nb == 3 and f == {k}" for k in range(5)],
            partitions_thorough=["nb <= 1", "nb == 2"] + [f"nb == 3 and f == {k}" for k in range(5)],
            what="_retry_store_write: f failing attempts then success, backoff list of length nb with symbolic delays: returns iff f <= nb after f+1 attempts having slept exactly "
                 "sum(backoff[:f]); otherwise re-raises the LAST error after nb+1 attempts; the configured list is not consumed (a second write gets the full budget)",
            bounds={"failures f": "0..4", "len(backoff)": "0..3", "delays": "0..DEL each (virtual seconds)"})
def ob_retry_store_write(f: int, nb: int, b0: int, b1: int, b2: int) -> bool:
    """
    pre: 0 <= f <= 4 and 0 <= nb <= 3 and 0 <= b0 <= DEL and 0 <= b1 <= DEL and 0 <= b2 <= DEL
    pre: (nb > 0 or b0 == 0) and (nb > 1 or b1 == 0) and (nb > 2 or b2 == 0)
    post: _
    """
    nb = pick_int(nb, 0, 3)
    backoff = [b0, b1, b2][:nb]
    rt = ServerRuntimeDecorator(BasicRuntime(), MemoryWorkflowStore(), persistence_backoff=backoff)
    calls = []
    loop = MiniLoop()

    def make_write(tag):
        async def write():
            k = len([c for c in calls if c[0] == tag])
            calls.append((tag, loop.time()))
            if k < f:
                raise TransientStoreError("%s attempt %d" % (tag, k))
        return write

    async def one(tag):
        t0 = loop.time()
        try:
            await rt._retry_store_write(make_write(tag))
            return ("ok", loop.time() - t0)
        except TransientStoreError as e:
            return ("raised", loop.time() - t0, str(e))

    async def main():
        return [await one("a"), await one("b")]

    res = loop.run_until_complete(main())
    for tag, r in zip(("a", "b"), res):
        attempts = len([c for c in calls if c[0] == tag])
        if f <= nb:
            if r[0] != "ok" or attempts != f + 1 or r[1] != sum(backoff[:f]):
                return False
        else:
            if r[0] != "raised" or attempts != nb + 1 or r[1] != sum(backoff) or r[2] != "%s attempt %d" % (tag, nb):
                return False
    return True


# ------------------------------------------------------------------------------------------------ Ob4 whole runs
DMAX = B(1, 2)      # step duration 0..DMAX
TMAX = B(1, 2)      # workflow timeout: 0 = none, 1..TMAX
CMAX = B(1, 2)      # cancel instant: -1 = no cancel, 0..CMAX


class _RaisingPolicy:
    """a user retry policy that raises (engine-side trouble injected through a documented extension point)"""

    def next(self, elapsed_time, attempts, error):
        raise RuntimeError("policy bug")


def _three_in_a_row(bits) -> bool:
    for i in range(len(bits) - 2):
        if bits[i] and bits[i + 1] and bits[i + 2]:
            return True
    return False


def _whole_run(fail: int, d: int, T: int, c: int, upd, am: int, an: int, sq: bool) -> bool:
    with TmpDir() as tmp:
        store = _mk_store(sq, tmp, upd, am, an)
        rt = ServerRuntimeDecorator(VRuntime(), store, persistence_backoff=list(BACKOFF))
        svc = _WorkflowService(rt, store)

        class W(Workflow):
            @step(retry_policy=(_RaisingPolicy() if fail == 2 else None))
            async def s(self, ctx: Context, ev: StartEvent) -> StopEvent:
                await asyncio.sleep(d)
                if fail:
                    raise ValueError("boom")
                return StopEvent(result=7)

        w = W(timeout=(T if T > 0 else None))
        w._switch_workflow_name("w")          # what WorkflowServer.add_workflow does
        w._switch_runtime(rt)

        async def main():
            await svc.start()
            hd = await svc.start_workflow(w, "h0", StartEvent())
            run = svc._workflow_run_handler("w", hd.run_id)
            if c >= 0:
                await asyncio.sleep(c)
                await svc.cancel_handler("h0")
            try:
                end = ("completed", await run)
            except WorkflowCancelledByUser:
                end = ("cancelled", None)
            except asyncio.CancelledError:
                end = ("cancelled", None)       # the service hard-killed the run after the graceful cancel timed out
            except Exception as e:
                end = ("failed", e)
            # the run has ended: observe the record the way a polling client would, once the loop has gone quiet
            await asyncio.sleep(SETTLE)
            h = (await store.inner.query(HandlerQuery(handler_id_in=["h0"])))[0]
            await svc.stop()
            return end, h

        end, h = MiniLoop().run_until_complete(main())
        log = list(store.status_log)
    if h.status != end[0]:
        return False                                     # incl. 'running' after the run has ended
    if end[0] == "completed" and (h.result is None or h.result.result != end[1]):
        return False
    if end[0] == "failed" and not h.error:
        return False
    if h.completed_at is None:
        return False
    # never back to running: the sequence of stored statuses is running* then terminal*
    seen_terminal = False
    for s in log:
        if s != "running":
            seen_terminal = True
        elif seen_terminal:
            return False
    return True


_WR_BOUNDS = {"outcome knobs": "step returns / raises / raises with a raising retry policy; step duration 0..DMAX; workflow timeout none|1..TMAX; cancel never|at 0..CMAX (ties included)",
              "update faults": "any pattern over the first 4 update calls without 3 consecutive failures (transient)",
              "append faults": "none | the run's 1st | 2nd | terminal-event append_event fails 1..2 consecutive times (transient) | the 1st append fails 3 times (> len(backoff): "
                               "a store outage as the trigger of an engine-side failure); one kind of write fails per run (update faults xor append faults)",
              "store": "memory (thorough: and sqlite)"}


@obligation(quick=200, thorough=900,
            # no partition coincides with the known-finding class (am != 0), so none becomes empty under its exclusion
            partitions_quick=[f"fail == {a} and c {b}" for a in range(3) for b in ("< 0", ">= 0")],
            partitions_thorough=[f"fail == {a} and c == {b} and sq == {s}" for a in range(3) for b in range(-1, 3) for s in (True, False)],
            what="whole run through _WorkflowService.start_workflow on the real server runtime: when the run's handle has ended the stored handler is completed(with the result) / "
                 "failed(with an error) / cancelled matching how it ended, never still 'running', and the stored status never went terminal -> running",
            bounds=_WR_BOUNDS)
def ob_whole_run_status(fail: int, d: int, T: int, c: int, u0: bool, u1: bool, u2: bool, u3: bool, am: int, an: int, sq: bool) -> bool:
    """
    pre: 0 <= fail <= 2 and 0 <= d <= DMAX and 0 <= T <= TMAX and -1 <= c <= CMAX
    pre: 0 <= am <= 3 and 1 <= an <= 3 and (am != 0 or an == 1) and (an <= 2 or am == 1)
    pre: not _three_in_a_row([u0, u1, u2, u3])
    pre: am == 0 or not (u0 or u1 or u2 or u3)
    pre: DMAX == 2 or not sq
    post: _
    """
    fail = pick_int(fail, 0, 2)
    d = pick_int(d, 0, DMAX)
    T = pick_int(T, 0, TMAX)
    c = pick_int(c, -1, CMAX)
    am = pick_int(am, 0, 3)
    an = pick_int(an, 1, 3)
    upd = [True if u else False for u in (u0, u1, u2, u3)]
    sq = True if sq else False
    with untraced():
        return _whole_run(fail, d, T, c, upd, am, an, sq)


# ------------------------------------------------------------------------------------------------ bounded history of the memory store
import itertools as _it15  # noqa: E402

_PERMS15 = list(_it15.permutations(range(3)))
_ST15 = ["completed", "failed", "cancelled"]


@obligation(quick=120, thorough=300,
            what="MemoryWorkflowStore(max_completed=m): three handlers are created (running) in order h0, h1, h2 and end in a symbolic ORDER with "
                 "symbolic outcomes; after every status write the handler that has just ended is stored with that outcome (the cap drops the "
                 "OLDEST finished ones, never the one whose outcome is being recorded), and the stored finished handlers are the last m that ended",
            bounds={"handlers": 3, "max_completed": "1..2", "completion order": "all 6", "outcomes": "completed / failed / cancelled"})
def ob_memory_history_keeps_latest(m: int, perm: int, o0: int, o1: int, o2: int) -> bool:
    """
    pre: 1 <= m <= 2 and 0 <= perm <= 5 and 0 <= o0 <= 2 and 0 <= o1 <= 2 and 0 <= o2 <= 2
    post: _
    """
    m, perm = pick_int(m, 1, 2), pick_int(perm, 0, 5)
    outs = [pick_int(o, 0, 2) for o in (o0, o1, o2)]
    with untraced():
        store = MemoryWorkflowStore(max_completed=m)

        async def main() -> bool:
            for i in range(3):
                await store.update(PersistentHandler(handler_id=f"h{i}", workflow_name="w", status="running", run_id=f"r{i}"))
            ended = []
            for i in _PERMS15[perm]:
                st = _ST15[outs[i]]
                await store.update_handler_status(f"r{i}", status=st, result=None, error="boom" if st == "failed" else None)
                ended.append(i)
                rows = {h.handler_id: h.status for h in await store.query(HandlerQuery())}
                if rows.get(f"h{i}") != st:
                    return False
                for j in range(3):
                    if j in ended[-m:]:
                        if rows.get(f"h{j}") != _ST15[outs[j]]:
                            return False
                    elif j in ended:
                        if f"h{j}" in rows:
                            return False
                    elif rows.get(f"h{j}") != "running":
                        return False
            return True

        loop = asyncio.new_event_loop()
        try:
            return loop.run_until_complete(main())
        finally:
            loop.close()
