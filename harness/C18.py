"""C18 — events and ticks survive serialization unchanged.

Every obligation builds a payload / event / tick from small symbolic ints that select SHAPES and pool members (the
pools are regenerated from the current source by ``ast``: every string literal of serializers.py, events.py,
serializable_events.py, ticks.py, results.py — this is how the marker keys are reached), pushes it through the REAL
serializers and compares what comes back with strict structural equality (same class, equal typed fields, equal
dynamic fields ``_data``, equal ``result``; exceptions: same type and ``str()``).

Routes: (a) ``JsonSerializer.serialize/deserialize`` and ``serialize_value/deserialize_value`` (bare, inside a list,
inside a dict — the forms ``Context.to_dict`` produces); (b) ``EventEnvelopeWithMetadata.from_event ->
model_dump_json -> model_validate_json -> load_event`` (empty registry = qualified-name import, and registry
containing the class); (c) ``WorkflowTickAdapter.dump_python(mode="json") -> json.dumps -> json.loads ->
validate_python`` with the event carried by a ``TickAddEvent``."""
from __future__ import annotations

import vlib.boot  # noqa: F401
from vlib.boot import B
from vlib.ob import obligation

import json
import warnings
from typing import Any, List

from vlib.h_state import (
    EV_STOP, EV_STOPSUB, EV_TYPED, EVENT_CLASSES, MODELS, N_SHAPES, TYPED_ATOMS, AnsEv, AskEv, EvPlain, EvTyped, HErr,
    HErr2, Inner, StopSub, ast_keylike, ast_strings, cint, deq, make_event, pickb, reserved_names, same_event, shape, untraced,
)

from llama_agents.client.protocol.serializable_events import EventEnvelopeWithMetadata
from workflows.context.serializers import JsonSerializer
from workflows.errors import WorkflowRuntimeError
from workflows.events import StepFailedEvent, StopEvent, WorkflowFailedEvent, WorkflowTimedOutEvent
from workflows.runtime.types.results import (
    AddCollectedEvent, AddWaiter, DeleteCollectedEvent, DeleteWaiter, StepWorkerFailed, StepWorkerResult,
)
from workflows.runtime.types.ticks import (
    TickAddEvent, TickCancelRun, TickIdleCheck, TickIdleRelease, TickPublishEvent, TickStepResult, TickTimeout,
    TickWaiterTimeout, WorkflowTickAdapter,
)

ENCODED = [
    "workflows.context.serializers:JsonSerializer.serialize_value",
    "workflows.context.serializers:JsonSerializer.deserialize_value",
    "workflows.context.serializers:JsonSerializer.serialize",
    "workflows.context.serializers:JsonSerializer.deserialize",
    "workflows.context.utils:get_qualified_name",
    "workflows.context.utils:import_module_from_qualified_name",
    "workflows.events:DictLikeModel.__init__",
    "workflows.events:DictLikeModel.custom_model_dump",
    "workflows.events:StopEvent.__init__",
    "workflows.events:StopEvent.custom_model_dump",
    "workflows.events:_serialize_event",
    "workflows.events:_deserialize_event",
    "workflows.events:_serialize_optional_event",
    "workflows.events:_deserialize_optional_event",
    "workflows.events:_serialize_exception",
    "workflows.events:_deserialize_exception",
    "workflows.events:_serialize_event_type",
    "workflows.events:_deserialize_event_type",
    "workflows.runtime.types.results:AddWaiter._serialize",
    "workflows.runtime.types.results:AddWaiter._validate",
    "llama_agents.client.protocol.serializable_events:EventEnvelopeWithMetadata.from_event",
    "llama_agents.client.protocol.serializable_events:EventEnvelopeWithMetadata.load_event",
    "llama_agents.client.protocol.serializable_events:EventEnvelope.parse",
    "llama_agents.client.protocol.serializable_events:EventEnvelope._format_compatibility",
]
ASSUMES = [
    "payloads are JSON-representable: str/int/float/bool/None atoms, lists, str-keyed dicts (no NaN/inf, tuples, bytes)",
    "event / model / exception classes are module-level (importable by qualified name), as the serializers require",
    "pydantic-core, json execute concretely inside each symbolic path; the solver decides the shape/pool index space",
    "ob_payload_*: JsonSerializer is executed under CrossHair's tracer; event/tick/exception obligations: every symbolic "
    "parameter is first forked to a concrete pool member (pickb/cint), then the real constructors and serializers run "
    "with CrossHair's opcode tracing suspended (vlib.h_state.untraced) — they only ever receive concrete values, and "
    "tracing pydantic's Python layers costs ~1 s per event and introduces proxy artefacts (dict() -> ShellMutableMap)",
    "AddWaiter.requirements is documented as not serialized: only has_requirements==bool(requirements) before the "
    "trip is required of it; the statement is about the events and exceptions a tick carries",
    "a dynamic field is a keyword that is neither a declared field, a private attribute nor a constructor parameter "
    "of the class (those are not dynamic fields by DictLikeModel.__init__'s own rule)",
]
OUTSIDE = [
    "payload depth > 2 / width > 2, atoms outside the pools", "PickleSerializer", "classes defined inside functions",
    "exceptions whose class cannot be imported (documented fallback to Exception)",
    "ob_payload_keys: a BARE dict payload (not inside an event) carrying a truthy '__is_pydantic' / '__is_component' key AND "
    "a truthy 'qualified_name' — JsonSerializer.deserialize_value re-interprets it as a tagged model (in-band tagging). "
    "C18's statement quantifies over EVENTS; inside an event (dynamic field, typed field, result) such a dict is never "
    "re-interpreted, which ob_event_marker_payload decides over the same key pool. The bare-payload collision is a "
    "state-store matter (DictState values go through JsonSerializer.serialize one by one): checked and recorded under C19 "
    "(KF-C19-1), demo findings_demo/c19_marker_key_dict_bricks_sqlite_state.py",
]

_MODS = ("serializers", "events", "envelope", "ticks", "results")
KEYLIKE: List[str] = ast_keylike(*_MODS)
for _s in ("a", ""):
    if _s not in KEYLIKE:
        KEYLIKE.append(_s)
STRS: List[str] = ast_strings(*_MODS)
ALLKEYS: List[str] = KEYLIKE + [s for s in STRS if s not in KEYLIKE]
ATOMS: List[Any] = list(TYPED_ATOMS) + [s for s in ALLKEYS if s not in ("", "a")]
NKQ = len(KEYLIKE)
NKM = len(ast_keylike("serializers"))  # the keys JsonSerializer itself looks at come first in every pool
NK = B(NKQ, len(ALLKEYS))  # key pool bound: quick = literals the code uses as keys, thorough = every literal
NAQ = len(TYPED_ATOMS) + NKQ - 2
NA = B(NAQ, len(ATOMS))
NSH = B(3, N_SHAPES)
KV: List[Any] = [True, "a", None, 0]  # index <= 1: truthy
S = JsonSerializer()
KI = {name: i for i, name in enumerate(ALLKEYS)}  # literal -> pool index (for `exclude` predicates over ints)
_QN, _M0, _M1 = KI.get("qualified_name", -1), KI.get("__is_pydantic", -1), KI.get("__is_component", -1)
NKS = NKM + 1  # quick key pool of the marker obligations: serializers.py's own key literals + the next key-like literal


# ------------------------------------------------------------------------------------------------ routes


_BETWEEN: List[Any] = [None]   # what happens between the writer and the reader (ob_exception_reader_has_not_imported: another process)


def _between() -> None:
    if _BETWEEN[0] is not None:
        _BETWEEN[0]()


def _json_rt(v: Any) -> Any:
    wire = S.serialize(v)
    _between()
    return S.deserialize(wire)


def _value_rt(v: Any) -> Any:
    return S.deserialize_value(json.loads(json.dumps(S.serialize_value(v))))


def payload_ok(v: Any) -> bool:
    try:
        return deq(_json_rt(v), v) and deq(_value_rt(v), v)
    except Exception:
        return False


def _env_rt(ev: Any, registry: List[type]) -> Any:
    env = EventEnvelopeWithMetadata.from_event(ev)
    wire = env.model_dump_json()
    _between()
    env2 = EventEnvelopeWithMetadata.model_validate_json(wire)
    return env2.load_event(registry)


def _tick_rt(t: Any) -> Any:
    wire = json.dumps(WorkflowTickAdapter.dump_python(t, mode="json"))
    _between()
    return WorkflowTickAdapter.validate_python(json.loads(wire))


def event_routes(ev: Any) -> List[Any]:
    """[(route name, event that came back | exception)]"""
    out: List[Any] = []

    def run(name: str, fn: Any) -> None:
        try:
            with warnings.catch_warnings():
                warnings.simplefilter("ignore")
                out.append((name, fn()))
        except Exception as e:  # noqa: BLE001
            out.append((name, e))

    run("json", lambda: _json_rt(ev))
    run("json-in-list", lambda: _json_rt([ev])[0])
    run("json-in-dict", lambda: _value_rt({"a": ev})["a"])
    run("envelope", lambda: _env_rt(ev, []))
    run("envelope-registry", lambda: _env_rt(ev, [type(ev)]))
    run("tick", lambda: _tick_rt(TickAddEvent(event=ev)).event)
    run("tick-publish", lambda: _tick_rt(TickPublishEvent(event=ev)).event)
    return out


def event_ok(ev: Any) -> bool:
    for _name, back in event_routes(ev):
        if isinstance(back, Exception) or not same_event(ev, back):
            return False
    return True


def explain(ev: Any) -> List[Any]:  # debugging aid (native)
    return [(n, b if isinstance(b, Exception) else same_event(ev, b), repr(b)[:120]) for n, b in event_routes(ev)]


# ------------------------------------------------------------------------------------------------ Ob1 payloads


@obligation(quick=150, thorough=400, partitions_quick=["sh <= 3", "sh > 3"], partitions_thorough=[f"sh == {s}" for s in range(N_SHAPES)],
            what="JsonSerializer round trip (serialize/deserialize and *_value) of every pool atom in every shape (traced)",
            bounds={"atoms": "quick: typed atoms + key-like literals; thorough: + every AST string literal", "second atom": "quick 0/None, thorough all typed atoms",
                    "shapes": "7, depth<=2 width<=2"})
def ob_payload_atoms(ai: int, bi: int, sh: int) -> bool:
    """
    pre: 0 <= ai < NA and 0 <= sh < N_SHAPES
    pre: (bi == 7 or (sh >= 3 and (bi == 2 or (NSH > 3 and 0 <= bi < len(TYPED_ATOMS)))))
    post: _
    """
    return payload_ok(shape(sh, pickb(ATOMS, ai), pickb(TYPED_ATOMS, bi)))


def marker_pair(k1: int, k2: int, v1: int, v2: int) -> bool:
    """The dict {ALLKEYS[k1]: KV[v1], ALLKEYS[k2]: KV[v2]} carries a truthy marker key ('__is_pydantic' /
    '__is_component') and a truthy 'qualified_name' (pure int arithmetic: usable in `pre:` / `exclude`)."""
    if v1 > 1 or v2 > 1:
        return False
    return (k1 == _QN and (k2 == _M0 or k2 == _M1)) or (k2 == _QN and (k1 == _M0 or k1 == _M1))


@obligation(quick=150, thorough=600,
            partitions_thorough=[f"v1 == {a} and v2 == {b}" for a in range(4) for b in range(4)],
            what="a plain dict payload whose KEYS are drawn from the literal pool (marker keys included) round-trips (traced)",
            bounds={"k1": "quick: serializers.py key literals +1; thorough: every literal", "k2": "quick: as k1; thorough: key-like literals",
                    "values": "True/'a'/None (thorough +0)",
                    "nest": "bare / in list (thorough + as dict value)"})
def ob_payload_keys(k1: int, k2: int, v1: int, v2: int, nest: int) -> bool:
    """
    pre: 0 <= k1 < B(NKS, len(ALLKEYS)) and 0 <= k2 < B(NKS, NKQ) and (k1 <= k2 or k1 >= NKQ)
    pre: 0 <= v1 < B(3, 4) and 0 <= v2 < B(3, 4) and 0 <= nest <= B(1, 2)
    pre: not marker_pair(k1, k2, v1, v2)
    post: _
    """
    d = {pickb(ALLKEYS, k1): pickb(KV, v1)}
    d[pickb(ALLKEYS, k2)] = pickb(KV, v2)
    if nest == 1:
        return payload_ok([d])
    if nest == 2:
        return payload_ok({"a": d})
    return payload_ok(d)


@obligation(quick=90, thorough=200, what="pydantic models (pool of 2, one nested) inside payload shapes come back as the same model (traced)")
def ob_payload_models(mi: int, sh: int, bi: int) -> bool:
    """
    pre: 0 <= mi < len(MODELS) and 0 <= sh < N_SHAPES and (bi == 7 or (NSH > 3 and 0 <= bi < len(TYPED_ATOMS)))
    post: _
    """
    return payload_ok(shape(sh, pickb(MODELS, mi), pickb(TYPED_ATOMS, bi)))


# ------------------------------------------------------------------------------------------------ Ob2 events


@obligation(quick=150, thorough=600,
            partitions_thorough=[f"sh == {s} and ai {q}" for s in range(N_SHAPES) for q in ("< 40", ">= 40")],
            what="event of every pool class, payload (shape x atom) in a dynamic field or in StopEvent.result: same class, "
                 "equal typed fields, equal _data, equal result on all routes",
            bounds={"classes": 6, "atoms": "quick: typed atoms + key-like literals; thorough: + every AST literal", "shapes": "quick 3, thorough 7"})
def ob_event_atoms(ci: int, sh: int, ai: int, inres: int) -> bool:
    """
    pre: 0 <= ci < 6 and 0 <= sh < NSH and 0 <= ai < NA and 0 <= inres <= 1
    pre: inres == 0 or ci in (2, 3)
    post: _
    """
    ci, sh, inres = cint(ci, 0, 5), cint(sh, 0, N_SHAPES - 1), cint(inres, 0, 1)
    a = pickb(ATOMS, ai)
    with untraced():
        v = shape(sh, a, 0)
        if inres == 1:
            return event_ok(make_event(ci, None, v))
        return event_ok(make_event(ci, {"a": v}, None))


def dyn_ok(ci: int, fk: int) -> bool:
    return ALLKEYS[fk] not in reserved_names(EVENT_CLASSES[ci])


@obligation(quick=150, thorough=600,
            partitions_thorough=[f"vi == {v} and ci {q}" for v in range(3) for q in ("< 3", ">= 3")],
            what="dynamic field NAMES drawn from the literal pool (marker keys, 'class_name', 'value', 'type', ...)",
            bounds={"names": "quick: key-like literals; thorough: every AST literal", "values": "1 / 'a' / {'a': 1}"})
def ob_event_field_names(ci: int, fk: int, vi: int) -> bool:
    """
    pre: 0 <= ci < 6 and 0 <= fk < NK and 0 <= vi <= 2
    post: _
    """
    ci, vi, fk = cint(ci, 0, 5), cint(vi, 0, 2), cint(fk, 0, len(ALLKEYS) - 1)
    name = ALLKEYS[fk]
    with untraced():
        if not dyn_ok(ci, fk):
            return True  # not a dynamic field of this class (declared field / private attribute / ctor parameter)
        v = 1 if vi == 0 else ("a" if vi == 1 else {"a": 1})
        return event_ok(make_event(ci, {name: v, "b": 2}, 5 if ci in (EV_STOP, EV_STOPSUB) else None))


W_TYPED, W_DYN, W_DYN_LIST, W_RESULT, W_RESULT_DICT = 0, 1, 2, 3, 4


@obligation(quick=60, thorough=120, what="a pydantic model nested in an event: typed field / dynamic field / list in a dynamic field / result")
def ob_event_nested_model(ci: int, where: int, mi: int) -> bool:
    """
    pre: 0 <= ci < 6 and 0 <= where <= 4 and 0 <= mi < len(MODELS)
    pre: (where != 0 or ci == 1) and (where < 3 or ci in (2, 3))
    post: _
    """
    ci, where = cint(ci, 0, 5), cint(where, 0, 4)
    m = pickb(MODELS, mi)
    with untraced():
        if where == W_TYPED:
            return event_ok(EvTyped(n=1, inner=Inner(x=9), a=1))
        if where == W_DYN:
            return event_ok(make_event(ci, {"a": m}))
        if where == W_DYN_LIST:
            return event_ok(make_event(ci, {"a": [m]}))
        if where == W_RESULT:
            return event_ok(make_event(ci, None, m))
        return event_ok(make_event(ci, None, {"a": m}))


@obligation(quick=150, thorough=600,
            partitions_thorough=[f"v1 == {a} and v2 == {b}" for a in range(4) for b in range(4)],
            what="an event whose dynamic field / result is a dict carrying the serializer's marker keys is not re-interpreted",
            bounds={"keys": "quick: serializers.py key literals +1; thorough: key-like literals", "values": "True/None (thorough True/'a'/None/0)"})
def ob_event_marker_payload(ci: int, k1: int, k2: int, v1: int, v2: int, inres: int) -> bool:
    """
    pre: ci in (0, 2, 3) and 0 <= k1 <= k2 < B(NKS, NKQ) and 0 <= v1 < 4 and 0 <= v2 < 4 and 0 <= inres <= 1
    pre: NSH > 3 or (v1 in (0, 2) and v2 in (0, 2))
    pre: inres == 0 or ci in (2, 3)
    post: _
    """
    ci, inres = cint(ci, 0, 3), cint(inres, 0, 1)
    ka, kb, va, vb = pickb(ALLKEYS, k1), pickb(ALLKEYS, k2), pickb(KV, v1), pickb(KV, v2)
    with untraced():
        d = {ka: va}
        d[kb] = vb
        if inres == 1:
            return event_ok(make_event(ci, None, d))
        return event_ok(make_event(ci, {"a": d}, None))


# ------------------------------------------------------------------------------------------------ ticks

# events carried by ticks in ob_tick_roundtrip: one per pool class (dynamic fields only where the event obligations
# above already decide them to survive; the tick obligation is about the tick / step-result containers)
def _tick_event(ei: int) -> Any:
    if ei == 0:
        return EvPlain(a=1, b=[True, None])
    if ei == 1:
        return EvTyped(n=2, s="x", f=0.5, inner=Inner(x=1), a={"a": 0.5})
    if ei == 2:
        return StopEvent(result={"a": [1, 2 ** 53 + 1]})
    if ei == 3:
        return StopSub(score=3, result="r")
    if ei == 4:
        return AskEv(prefix="p", a="")
    if ei == 5:
        return StopEvent()
    if ei == 6:
        return WorkflowTimedOutEvent(timeout=1.5, active_steps=["a", "b"])
    return AnsEv(response="r")


N_TICK_EVENTS = 8


def _result_item(rk: int, ev: Any, n: int) -> Any:
    if rk == 1:
        return StepWorkerResult(result=ev)
    if rk == 2:
        return StepWorkerResult(result=None)
    if rk == 3:
        return StepWorkerFailed(exception=ValueError("boom %d" % n), failed_at=n + 0.5)
    if rk == 4:
        return AddCollectedEvent(event_id="buf%d" % n, event=ev)
    if rk == 5:
        return DeleteCollectedEvent(event_id="buf%d" % n)
    if rk == 6:
        return AddWaiter(waiter_id="w%d" % n, waiter_event=ev, requirements=({"a": n} if n % 2 else {}),
                         timeout=(None if n == 0 else n + 0.5), event_type=type(ev))
    if rk == 7:
        return AddWaiter(waiter_id="w%d" % n, waiter_event=None, event_type=EvPlain)
    return DeleteWaiter(waiter_id="w%d" % n)


def _same_item(a: Any, b: Any) -> bool:
    oa = type(a).__pydantic_generic_metadata__.get("origin") or type(a)
    ob = type(b).__pydantic_generic_metadata__.get("origin") or type(b)
    if oa is not ob:
        return False
    for name in type(a).model_fields:
        x, y = getattr(a, name), getattr(b, name)
        if name in ("requirements", "has_requirements"):
            continue  # documented: requirements are never serialized
        if name == "event_type":
            if x is not y:
                return False
            continue
        if not deq(x, y):
            return False
    return True


def _same_tick(a: Any, b: Any) -> bool:
    if type(a) is not type(b):
        return False
    for name in type(a).model_fields:
        x, y = getattr(a, name), getattr(b, name)
        if name == "result":
            if len(x) != len(y):
                return False
            for i in range(len(x)):
                if not _same_item(x[i], y[i]):
                    return False
        elif not deq(x, y):
            return False
    return True


def _make_tick(tk: int, r0: int, r1: int, ei: int, n: int, opt: bool) -> Any:
    ev = _tick_event(ei)
    if tk == 0:
        res = [_result_item(r0, ev, n)]
        if r1 != 0:
            res.append(_result_item(r1, _tick_event((ei + 1) % N_TICK_EVENTS), n + 1))
        return TickStepResult(step_name="s%d" % n, worker_id=n, event=ev, result=res)
    if tk == 1:
        if opt:
            return TickAddEvent(event=ev, step_name="s%d" % n, attempts=n, first_attempt_at=n + 0.25,
                                last_exception=HErr("e%d" % n), last_failed_at=n + 0.5, recovery_counts={"h": n})
        return TickAddEvent(event=ev)
    if tk == 2:
        return TickCancelRun()
    if tk == 3:
        return TickPublishEvent(event=ev)
    if tk == 4:
        return TickTimeout(timeout=n + 0.5)
    if tk == 5:
        return TickWaiterTimeout(step_name="s%d" % n, waiter_id="w%d" % n)
    if tk == 6:
        return TickIdleCheck()
    return TickIdleRelease()


@obligation(quick=150, thorough=400, partitions_quick=["tk == 0", "tk != 0"],
            partitions_thorough=[f"tk == 0 and r0 == {r}" for r in range(1, 9)] + ["tk != 0"],
            what="every tick class and every step-result class survive WorkflowTickAdapter dump(json) -> json -> validate",
            bounds={"ticks": 8, "step results": "list of 1..2; first over all 8 kinds, second over 2 (quick) / 8 (thorough)", "events": N_TICK_EVENTS,
                    "scalars": "ints 0..1 / 0..2"})
def ob_tick_roundtrip(tk: int, r0: int, r1: int, ei: int, n: int, opt: bool) -> bool:
    """
    pre: 0 <= tk <= 7 and 0 <= ei < N_TICK_EVENTS and 0 <= n <= B(1, 2)
    pre: (1 <= r0 <= 8 and 0 <= r1 <= B(2, 8)) if tk == 0 else (r0 == 0 and r1 == 0)
    pre: tk in (0, 1, 3) or ei == 0
    pre: tk in (0, 1, 4, 5) or n == 0
    pre: tk == 1 or not opt
    post: _
    """
    tk, r0, r1, ei, n = cint(tk, 0, 7), cint(r0, 0, 8), cint(r1, 0, 8), cint(ei, 0, N_TICK_EVENTS - 1), cint(n, 0, 2)
    opt = True if opt else False
    with untraced():
        t = _make_tick(tk, r0, r1, ei, n, opt)
        try:
            with warnings.catch_warnings():
                warnings.simplefilter("ignore")
                back = _tick_rt(t)
        except Exception:
            return False
        return _same_tick(t, back)


# ------------------------------------------------------------------------------------------------ Ob3 exceptions

X_VALUE, X_RUNTIME, X_HERR, X_WF, X_TIMEOUT, X_OS, X_KEY, X_HERR2, X_JSON, X_UNICODE, X_TWOARGS = range(11)
N_EXC = 11
MSGS: List[str] = ["a", "", "x y", "'", "é\n", "exception_message"] + [s for s in STRS if s != "exception_message"]
NMSG = B(6, len(MSGS))


def make_exc(xi: int, msg: str) -> Exception:
    if xi == X_VALUE:
        return ValueError(msg)
    if xi == X_RUNTIME:
        return RuntimeError(msg)
    if xi == X_HERR:
        return HErr(msg)
    if xi == X_WF:
        return WorkflowRuntimeError(msg)
    if xi == X_TIMEOUT:
        return TimeoutError(msg)
    if xi == X_OS:
        return OSError(2, msg)
    if xi == X_KEY:
        return KeyError(msg)
    if xi == X_HERR2:
        return HErr2(1, msg)
    if xi == X_JSON:
        return json.JSONDecodeError(msg, "doc", 0)
    if xi == X_TWOARGS:
        return HErr(msg, "second argument")      # plain Exception subclass built with two arguments: str() shows both
    return UnicodeDecodeError("utf-8", b"\xff", 0, 1, msg)


C_STEP_FAILED, C_LAST_EXC, C_WF_FAILED_JSON, C_WF_FAILED_ENV, C_WF_FAILED_TICK, C_STEP_FAILED_EVENT = range(6)


def _exception_back(exc: Exception, carrier: int) -> Any:
    """The exception object that comes back through the carrier, or None when a sibling field was damaged."""
    import datetime

    if carrier == C_STEP_FAILED:
        t = TickStepResult(step_name="s", worker_id=0, event=EvPlain(), result=[StepWorkerFailed(exception=exc, failed_at=1.5)])
        return _tick_rt(t).result[0].exception
    if carrier == C_LAST_EXC:
        return _tick_rt(TickAddEvent(event=EvPlain(), attempts=1, last_exception=exc)).last_exception
    if carrier == C_STEP_FAILED_EVENT:
        fe: Any = StepFailedEvent(step_name="s", input_event=EvPlain(a=1), exception=exc, attempts=2, elapsed_seconds=0.5,
                                  failed_at=datetime.datetime(2026, 1, 1, tzinfo=datetime.timezone.utc))
        fb = _json_rt(fe)
    else:
        fe = WorkflowFailedEvent(step_name="s", exception=exc, attempts=2, elapsed_seconds=0.5)
        if carrier == C_WF_FAILED_JSON:
            fb = _json_rt(fe)
        elif carrier == C_WF_FAILED_ENV:
            fb = _env_rt(fe, [])
        else:
            fb = _tick_rt(TickPublishEvent(event=fe)).event
    if type(fb) is not type(fe) or fb.step_name != "s" or fb.attempts != 2 or fb.elapsed_seconds != 0.5:
        return None
    if carrier == C_STEP_FAILED_EVENT and not (same_event(fe.input_event, fb.input_event) and fb.failed_at == fe.failed_at):
        return None
    return fb.exception


@obligation(quick=150, thorough=400, partitions_thorough=[f"carrier == {c}" for c in range(6)],
            what="exceptions carried by StepWorkerFailed / TickAddEvent.last_exception / WorkflowFailedEvent / StepFailedEvent keep type and str()",
            bounds={"exception classes": N_EXC, "messages": "quick 6; thorough + every AST literal", "carriers": 6})
def ob_exception_roundtrip(xi: int, mi: int, carrier: int) -> bool:
    """
    pre: 0 <= xi < N_EXC and 0 <= mi < NMSG and 0 <= carrier <= 5
    post: _
    """
    xi, carrier = cint(xi, 0, N_EXC - 1), cint(carrier, 0, 5)
    msg = pickb(MSGS, mi)
    with untraced():
        exc = make_exc(xi, msg)
        try:
            with warnings.catch_warnings():
                warnings.simplefilter("ignore")
                back = _exception_back(exc, carrier)
        except Exception:
            return False
        return type(back) is type(exc) and str(back) == str(exc)


_XMODS = [("vlib.h_exc_mod", "AppError"), ("configparser", "Error"), ("zipfile", "BadZipFile")]


@obligation(quick=90, thorough=200,
            what="the READER is another process (a restarted server replaying its journal, a client): the module that defines the exception class is "
                 "not among its loaded modules when the data is read (emulated: the module is taken out of sys.modules between the write and "
                 "the read) — the exception still comes back as that class (module + qualified name) with the same str(), through all 6 carriers",
            bounds={"exception classes": "an application module's / configparser.Error / zipfile.BadZipFile", "carriers": 6})
def ob_exception_reader_has_not_imported(pi: int, carrier: int) -> bool:
    """
    pre: 0 <= pi < len(_XMODS) and 0 <= carrier <= 5
    post: _
    """
    pi, carrier = cint(pi, 0, len(_XMODS) - 1), cint(carrier, 0, 5)
    with untraced():
        import importlib
        import sys

        name, clsname = _XMODS[pi]
        mod = importlib.import_module(name)
        exc = getattr(mod, clsname)("boom")
        _BETWEEN[0] = lambda: sys.modules.pop(name, None)
        try:
            with warnings.catch_warnings():
                warnings.simplefilter("ignore")
                back = _exception_back(exc, carrier)
        except Exception:
            return False
        finally:
            _BETWEEN[0] = None
            sys.modules[name] = mod
        return type(back).__module__ == name and type(back).__qualname__ == clsname and str(back) == str(exc)


# ------------------------------------------------------------------------------------------------ same short name, two modules


@obligation(quick=90, thorough=200,
            what="two event classes with the SAME __name__ in different modules, loaded through the client envelope WITHOUT a registry, in either "
                 "order and repeatedly within one process: each comes back as its own class (by qualified name) with its own typed fields — one "
                 "load must not influence the next",
            bounds={"class pairs": "EvPlain / EvTyped / StopSub of vlib.h_state vs vlib.h_state_twin", "order": "A,B / B,A / A,B,A", "routes": "default registry, explicit empty registry"})
def ob_envelope_same_name_classes(ci: int, order: int, explicit: bool) -> bool:
    """
    pre: 0 <= ci <= 2 and 0 <= order <= 2
    post: _
    """
    import vlib.h_state as A
    import vlib.h_state_twin as Bm

    ci, order = cint(ci, 0, 2), cint(order, 0, 2)
    explicit = True if explicit else False
    with untraced():
        name = ("EvPlain", "EvTyped", "StopSub")[ci]
        a, b = getattr(A, name)(), getattr(Bm, name)()
        seq = [a, b] if order == 0 else ([b, a] if order == 1 else [a, b, a])
        for ev in seq:
            env = EventEnvelopeWithMetadata.from_event(ev)
            env2 = EventEnvelopeWithMetadata.model_validate_json(env.model_dump_json())
            back = env2.load_event([]) if explicit else env2.load_event()
            if type(back) is not type(ev) or not same_event(ev, back):
                return False
    return True



# ------------------------------------------------------------------------------------------------ typed fields nobody passed
from vlib.h_state import EvDefaults, StopDefaults  # noqa: E402


@obligation(quick=90, thorough=200, partitions_quick=["how == 0", "how == 1", "how == 2"],
            what="events whose typed fields were NOT passed to the constructor: left at their defaults (incl. a default_factory that yields a "
                 "fresh id per call), filled in place afterwards (list.append / dict item / attribute of a nested model), or assigned — every "
                 "route hands back the field values the event held, not a fresh class default",
            bounds={"classes": "Event and StopEvent subclass with default / default_factory fields", "how": "untouched / mutated in place / assigned"})
def ob_event_unset_fields(stop: bool, how: int, which: int) -> bool:
    """
    pre: 0 <= how <= 2 and 0 <= which <= 2
    post: _
    """
    stop = True if stop else False
    how, which = cint(how, 0, 2), cint(which, 0, 2)
    with untraced():
        ev = StopDefaults(result=1) if stop else EvDefaults()
        if how == 1:
            if which == 0 or stop:
                ev.tags.append("x")
            elif which == 1:
                ev.meta["k"] = [1]
            else:
                ev.inner.x = 5
        elif how == 2:
            if which == 0 or stop:
                ev.tags = ["y"]
            elif which == 1:
                ev.meta = {"k": 2}
            else:
                ev.n = 9
        return event_ok(ev)


# ------------------------------------------------------------------------------------------------ a class re-defined under its name
_REV1 = """
from workflows.events import Event, StopEvent
class Progress(Event):
    step: str
class Done(StopEvent):
    score: int
class UserError(Exception):
    pass
"""
_REV2 = """
from workflows.events import Event, StopEvent
class Progress(Event):
    step: str
    pct: int = 0
class Done(StopEvent):
    score: int
    note: str = ""
class UserError(Exception):
    pass
"""
_RELOAD_MOD = "vlib_c18_reloaded"


@obligation(quick=90, thorough=200,
            what="the module that defines an event / stop-event / exception class is loaded AGAIN under the same qualified name (module reload, "
                 "notebook cell re-run, hot reload) after an instance of the first definition may already have been read in this process: "
                 "an instance of the CURRENT class comes back as the current class (type identity, typed fields) on every route / carrier — "
                 "a read must not pin the class object it resolved",
            bounds={"kinds": "event / stop event / exception", "earlier read of the first definition": "yes / no", "routes": "7 event routes, 6 exception carriers",
                    "reloads": "1 or 2 (second reload back to the first source)"})
def ob_class_redefined(kind: int, warm: bool, carrier: int, twice: bool) -> bool:
    """
    pre: 0 <= kind <= 2 and 0 <= carrier <= 5
    pre: kind == 2 or carrier == 0
    post: _
    """
    kind, carrier = cint(kind, 0, 2), cint(carrier, 0, 5)
    warm = True if warm else False
    twice = True if twice else False
    with untraced():
        import sys
        import types

        def load(src: str) -> Any:
            mod = types.ModuleType(_RELOAD_MOD)
            sys.modules[_RELOAD_MOD] = mod
            exec(compile(src, "<" + _RELOAD_MOD + ">", "exec"), mod.__dict__)  # noqa: S102
            return mod

        def trip(mod: Any, rev2: bool) -> bool:
            if kind == 2:
                exc = mod.UserError("boom")
                with warnings.catch_warnings():
                    warnings.simplefilter("ignore")
                    back = _exception_back(exc, carrier)
                return type(back) is type(exc) and str(back) == str(exc)
            if kind == 0:
                ev = mod.Progress(step="s", pct=7) if rev2 else mod.Progress(step="s")
            else:
                ev = mod.Done(score=3, note="n") if rev2 else mod.Done(score=3)
            for _name, back in event_routes(ev):
                if isinstance(back, Exception) or type(back) is not type(ev) or not same_event(ev, back):
                    return False
                if rev2 and (back.pct != 7 if kind == 0 else back.note != "n"):
                    return False
            return True

        try:
            m1 = load(_REV1)
            if warm and not trip(m1, False):
                return False
            m2 = load(_REV2)
            if not trip(m2, True):
                return False
            if twice:
                m3 = load(_REV1)
                if not trip(m3, False):
                    return False
            return True
        except Exception:
            return False
        finally:
            sys.modules.pop(_RELOAD_MOD, None)
