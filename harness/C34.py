"""C34 — release tooling converts and classifies versions consistently.

Code under test (imported unmodified from /repo/src): ``dev_cli.changesets.semver_to_pep440`` / ``pep440_to_semver``
(regex ``_SEMVER_PRERELEASE_RE`` + ``packaging.version.Version``) and ``dev_cli.versioning.detect_change_type``.

Engine T (z3 sequence theory, regenerated from the current AST by vlib.py2smt; digit strings are fresh strings in
``0|[1-9][0-9]*``, i.e. EVERY non-negative integer, no length bound):

* ob_semver_to_pep440   the source regex (compiled to an SMT regex) + the body of ``semver_to_pep440``: ``x.y.z-l.n``
                        -> ``x.y.zln`` for l in {a,b,rc}; stable versions of 1..4 components pass through unchanged;
                        the regex decomposes a string in at most one way (so the groups used by the encoding are the
                        groups CPython reports).
* ob_roundtrip_pep440   ``semver_to_pep440(pep440_to_semver(v)) == v`` for every NORMALISED v = r1...rk[l n], k = 1..4.
* ob_roundtrip_semver   ``pep440_to_semver(semver_to_pep440(s)) == s`` for every s = x.y.z[-l.n].
* ob_classify           ``detect_change_type`` (if-chain, tuple padding, from the AST) against the statement for all
                        integer components, lengths 1..4 x 1..4, optional pre-releases.
  ``Version(...)`` is NOT translated: in the two round trips it is a parsing stub for the class ``D(.D)*((a|b|rc)D)?``
  (groups resolved by the same structural matcher as the source regex), in ob_classify an abstract version whose order
  is packaging's ``_cmpkey`` restricted to that class.  Both stubs are validated on every run against the real
  ``packaging`` on the repo's own test literals and on solver models (translation validation), and the Engine-S
  obligations execute the real ``packaging`` end to end.

Engine S (CrossHair; the real functions and the real ``packaging`` on versions assembled from pooled components chosen by
symbolic indices, incl. 9/10 (numeric vs lexicographic order), 0 (trailing-zero trimming), non-normalised spellings):

* ob_pep440_roundtrip_real, ob_semver_roundtrip_real, ob_classify_real.
"""
from __future__ import annotations

import vlib.boot  # noqa: F401
from vlib.boot import B

import ast
from typing import Any, Dict, List, Tuple

from vlib.h_tools import (StructStrings, cint, func_node, module_ast, module_constant, parametrize_literals, repo_path,
                          seq_same, smt_check, smt_excludes, source_sha, unique_decomposition_queries, untraced)
from vlib.ob import obligation, smt_obligation

from dev_cli.changesets import pep440_to_semver, semver_to_pep440
from dev_cli.versioning import detect_change_type

CH = repo_path("src", "dev_cli", "changesets.py")
VS = repo_path("src", "dev_cli", "versioning.py")
TESTS = repo_path("tests", "dev_cli", "test_changesets.py")
TESTS_CLI = repo_path("tests", "dev_cli", "test_cli_misc.py")

ENCODED = [
    "dev_cli.changesets:semver_to_pep440",
    "dev_cli.changesets:pep440_to_semver",
    "dev_cli.versioning:detect_change_type",
]
ASSUMES = [
    "Engine T: packaging.version.Version is not translated. Round trips: Version(s) is a parsing stub for strings of the "
    "class D(.D){0..3}((a|b|rc)D)? with D = 0|[1-9][0-9]* (release = the D's, pre = (label, D) or None; str(int(D)) == D "
    "because D is canonical); any other argument makes the obligation untranslatable (inconclusive). Classification: a "
    "version is (k components >= 0, pre rank a<b<rc<none, pre number) and Version <= is packaging's _cmpkey on that class "
    "(trailing zeros trimmed, tuple comparison, then (rank, number)). Both stubs are compared with the real packaging on "
    "the repo's test literals and on solver models in every run, and by the Engine-S obligations on the pools",
    "Engine T: capture groups of a regex match are resolved structurally (runs of the pieces the string was built from; "
    "every run is justified by a solver query and re-stated as a safety condition of the final query); that this is the "
    "decomposition CPython reports rests on the solver-checked side conditions of unique_decomposition (no word of an "
    "item contains a character that can start the next item) plus the first-occurrence induction, which is not "
    "solver-checked",
    "Engine T: \\d is encoded as [0-9] (inputs are ASCII digit strings; Unicode decimal digits are outside the class)",
    "Engine S: all symbolic indices are decided (forked on) before the real functions run; they then run on realised "
    "strings with CrossHair's opcode tracing off (vlib.h_tools.untraced) — packaging/re execute concretely",
    "the oracle for 'normalised original' is the canonical rendering of the components the input was assembled from "
    "(release joined by '.', label a/b/rc, number without leading zeros) — what PEP 440 normalisation yields",
    "the oracle for 'greater' is PEP 440 order on the class: release tuples compared after zero padding, then "
    "a < b < rc < final, then the pre-release number",
]
OUTSIDE = [
    "versions with epoch, post, dev or local segments; previous_version None/'' (first release -> 'major')",
    "release tuples longer than 4 components; Engine S: component values outside the pools",
    "labels other than a/b/rc on the semver side (semver_to_pep440 raises ValueError for them; not part of the statement)",
    "unspecified: when the new version is greater but none of the first three release components grew (only the "
    "pre-release advanced, e.g. 1.2.3rc1 -> 1.2.3, or only a 4th component grew, 1.2.3.4 -> 1.2.3.5) there is no "
    "'component that grew' with a name; today the answer is 'minor'; only 'not none' is asserted for this class",
    "unspecified: semver strings whose release part is not exactly three components (not semver) are not required to "
    "round-trip on the semver side",
]

KMAX = 4
LAB = ["", "a", "b", "rc"]           # index 0 = no pre-release (labels from the statement: a / b / rc)
NAMES = ["major", "minor", "patch"]


# ======================================================================================================================
# oracle written from the statement (plain Python; used by Engine S and by every native replay)
# ======================================================================================================================
def _canon(rel: List[int], lab: int, num: int) -> str:
    return ".".join(str(c) for c in rel) + (LAB[lab] + str(num) if lab else "")


def _semver(rel: List[int], lab: int, num: int) -> str:
    return ".".join(str(c) for c in rel) + ("-" + LAB[lab] + "." + str(num) if lab else "")


def _spec_greater(cr: List[int], cl: int, cn: int, pr: List[int], pl: int, pn: int) -> bool:
    """PEP 440 order on the class; label index 0 (= final release) ranks above rc"""
    n = max(len(cr), len(pr))
    a = list(cr) + [0] * (n - len(cr))
    b = list(pr) + [0] * (n - len(pr))
    for x, y in zip(a, b):
        if x != y:
            return x > y
    ra = 4 if cl == 0 else cl
    rb = 4 if pl == 0 else pl
    if ra != rb:
        return ra > rb
    return cn > pn


def _spec_allowed(cr: List[int], cl: int, cn: int, pr: List[int], pl: int, pn: int) -> Tuple[str, ...]:
    if not _spec_greater(cr, cl, cn, pr, pl, pn):
        return ("none",)
    a = (list(cr) + [0, 0, 0])[:3]
    b = (list(pr) + [0, 0, 0])[:3]
    for i in range(3):
        if a[i] > b[i]:
            return (NAMES[i],)
    return tuple(NAMES)   # unspecified which; 'none' is excluded


# ======================================================================================================================
# Engine S
# ======================================================================================================================
POOL = [0, 1, 10, 9, 2]               # component / pre-release number values
NP_Q, NP_T = 3, 4        # partitions are computed in the runner process, where B() always sees the quick tier: use the literals there
NP = B(NP_Q, NP_T)
NSP = B(3, 5)
LONG = ["", "alpha", "beta", "c"]
KS = KMAX


def _spell(rel: List[int], lab: int, num: int, sp: int) -> str:
    """the same version in a non-normalised PEP 440 spelling"""
    r = ".".join(str(c) for c in rel)
    if sp == 0:
        return _canon(rel, lab, num)
    if sp == 1:
        return r + ("-" + LAB[lab] + "." + str(num) if lab else "")
    if sp == 2:
        return "v" + ".".join("0" + str(c) for c in rel) + (LAB[lab].upper() + "0" + str(num) if lab else "")
    if sp == 3:
        return r + (LONG[lab] + str(num) if lab else "")
    return r + ("." + ("preview" if lab == 3 else LONG[lab].upper()) + "_" + str(num) if lab else "")


@obligation(quick=150, thorough=600,
            partitions_quick=[f"k == {k}" for k in range(1, KS + 1)],
            partitions_thorough=["k == 1", "k == 2", "k == 4"] + [f"k == 3 and i0 == {j}" for j in range(NP_T)],
            what="real semver_to_pep440(pep440_to_semver(v)) == normalised v on versions assembled from pooled components "
                 "(release length 1..4, optional a/b/rc pre-release, non-normalised spellings)",
            bounds={"release length": "1..4", "component / number pool": "NP values of [0,1,10,9] (3 quick / 4 thorough)",
                    "spellings": "NSP of canonical, semver-like, v+leading zeros+upper case, alpha/beta/c, .PREVIEW_n (3 quick / 5 thorough)"})
def ob_pep440_roundtrip_real(k: int, i0: int, i1: int, i2: int, i3: int, lab: int, num: int, sp: int) -> bool:
    """
    pre: 1 <= k <= KS and 0 <= i0 < NP and 0 <= i1 < NP and 0 <= i2 < NP and 0 <= i3 < NP
    pre: (k > 1 or i1 == 0) and (k > 2 or i2 == 0) and (k > 3 or i3 == 0)
    pre: 0 <= lab <= 3 and 0 <= num < NP and (lab > 0 or num == 0)
    pre: 0 <= sp < NSP and (lab > 0 or sp == 0 or sp == 2)
    post: _
    """
    k = cint(k, 1, KS)
    idx = [cint(i, 0, NP - 1) for i in (i0, i1, i2, i3)]
    lab, num, sp = cint(lab, 0, 3), cint(num, 0, NP - 1), cint(sp, 0, NSP - 1)
    with untraced():
        rel = [POOL[j] for j in idx[:k]]
        v = _spell(rel, lab, POOL[num], sp)
        return semver_to_pep440(pep440_to_semver(v)) == _canon(rel, lab, POOL[num])


@obligation(quick=120, thorough=300,
            what="real pep440_to_semver(semver_to_pep440(s)) == s on semver strings x.y.z[-l.n] assembled from pooled components",
            bounds={"components": "3", "component / number pool": "NP values of [0,1,10,9] (3 quick / 4 thorough)", "labels": "none, a, b, rc"})
def ob_semver_roundtrip_real(i0: int, i1: int, i2: int, lab: int, num: int) -> bool:
    """
    pre: 0 <= i0 < NP and 0 <= i1 < NP and 0 <= i2 < NP
    pre: 0 <= lab <= 3 and 0 <= num < NP and (lab > 0 or num == 0)
    post: _
    """
    idx = [cint(i, 0, NP - 1) for i in (i0, i1, i2)]
    lab, num = cint(lab, 0, 3), cint(num, 0, NP - 1)
    with untraced():
        s = _semver([POOL[j] for j in idx], lab, POOL[num])
        return pep440_to_semver(semver_to_pep440(s)) == s


# classification: per position a pair code c -> (current component, previous component); the six codes cover
# equal (zero / non-zero), grew, shrank (with the 9 / 10 numeric-vs-lexicographic trap), and zero against non-zero
CODES = [(0, 0), (9, 9), (9, 10), (10, 9), (0, 9), (9, 0)]
CODES4 = [(0, 0), (9, 9), (0, 9), (9, 0)]                    # 4th position
NC = 6
PRE = [(0, 0), (1, 9), (1, 10), (2, 9), (3, 0)]              # (label index, number): none, a9, a10, b9, rc0
NPRE = B(4, 5)
KC = B(3, 4)
PART_BUDGET = B(1800, 5500)                                   # paths per partition (about 40 paths/s/process under load)


def _classify_partitions(kc: int, npre: int, budget: int) -> List[str]:
    """split the (k1, k2, c0) space into partitions of roughly `budget` paths; together they cover the pre: exactly"""
    def count(k1: int, k2: int) -> int:
        n = 1
        for i in range(4):
            both, one = (4, 2) if i == 3 else (6, 2)
            n *= both if (i < k1 and i < k2) else (one if (i < k1 or i < k2) else 1)
        return n * npre * npre

    parts, small, acc = [], [], 0
    for k1 in range(1, kc + 1):
        for k2 in range(1, kc + 1):
            n = count(k1, k2)
            if n <= budget // 3:
                small.append(f"(k1 == {k1} and k2 == {k2})")
                acc += n
                if acc > budget:
                    parts.append(" or ".join(small))
                    small, acc = [], 0
                continue
            pieces = min(6, -(-n // budget))
            step = -(-6 // pieces)
            for lo in range(0, 6, step):
                parts.append(f"k1 == {k1} and k2 == {k2} and {lo} <= c0 < {min(lo + step, 6)}")
    if small:
        parts.append(" or ".join(small))
    return parts


@obligation(quick=200, thorough=900, partitions_quick=_classify_partitions(3, 4, 1800), partitions_thorough=_classify_partitions(4, 5, 5500),
            what="real detect_change_type(cur, prev) on pairs of versions assembled from pooled components: 'none' iff cur is "
                 "not greater (PEP 440 order written from the statement); otherwise, when one of the first three release "
                 "components grew, the name of the most significant one that did",
            bounds={"release lengths": "1..KC each (3 quick / 4 thorough)",
                    "per-position (cur, prev) pairs": "(0,0) (9,9) (9,10) (10,9) (0,9) (9,0); 4th position (0,0) (9,9) (0,9) (9,0)",
                    "pre-releases": "NPRE of none, a9, a10, b9, rc0 (4 quick / 5 thorough) each", "spelling": "cur as semver, prev as PEP 440"})
def ob_classify_real(k1: int, k2: int, c0: int, c1: int, c2: int, c3: int, p1: int, p2: int) -> bool:
    """
    pre: 1 <= k1 <= KC and 1 <= k2 <= KC and 0 <= c0 < NC and 0 <= c1 < NC and 0 <= c2 < NC and 0 <= c3 < 4
    pre: (k1 > 1 or c1 in (0, 4)) and (k1 > 2 or c2 in (0, 4)) and (k1 > 3 or c3 in (0, 2))
    pre: (k2 > 1 or c1 in (0, 5)) and (k2 > 2 or c2 in (0, 5)) and (k2 > 3 or c3 in (0, 3))
    pre: 0 <= p1 < NPRE and 0 <= p2 < NPRE
    post: _
    """
    k1, k2 = cint(k1, 1, KC), cint(k2, 1, KC)
    c = [cint(x, 0, NC - 1) for x in (c0, c1, c2)] + [cint(c3, 0, 3)]
    p1, p2 = cint(p1, 0, NPRE - 1), cint(p2, 0, NPRE - 1)
    with untraced():
        pairs = [CODES[x] for x in c[:3]] + [CODES4[c[3]]]
        cur, prev = [a for a, _b in pairs][:k1], [b_ for _a, b_ in pairs][:k2]
        (cl, cn), (pl, pn) = PRE[p1], PRE[p2]
        got = detect_change_type(_semver(cur, cl, cn), _canon(prev, pl, pn))
        return got in _spec_allowed(cur, cl, cn, prev, pl, pn)


# ======================================================================================================================
# Engine T
# ======================================================================================================================
def _T():
    import z3

    from vlib import py2smt as T

    return z3, T


def _source_patterns() -> Dict[str, str]:
    """every top-level NAME = re.compile(<literal>) of changesets.py"""
    out = {}
    for node in module_ast(CH).body:
        if isinstance(node, ast.Assign) and len(node.targets) == 1 and isinstance(node.targets[0], ast.Name):
            v = node.value
            if (isinstance(v, ast.Call) and isinstance(v.func, ast.Attribute) and v.func.attr == "compile" and len(v.args) == 1
                    and not v.keywords and isinstance(v.args[0], ast.Constant) and isinstance(v.args[0].value, str)):
                out[node.targets[0].id] = v.args[0].value
    return out


def _source_labels() -> set:
    v = ast.literal_eval(module_constant(CH, "_PEP440_LABELS"))
    if not (isinstance(v, (set, frozenset)) and all(isinstance(x, str) for x in v)):
        raise ValueError("_PEP440_LABELS is not a literal set of strings")
    return set(v)


def _shape_pattern(k: int, p: int) -> str:
    return "^" + r"\.".join([r"(\d+)"] * k) + (r"(a|b|rc)(\d+)" if p else "") + "$"


class _SVer:
    def __init__(self, release, pre):
        self.release, self.pre = release, pre


class _Conv:
    """translation context for the two converters over a fixed set of piece variables"""

    def __init__(self, assume: List[Any]):
        z3, T = _T()
        self.be = T.SeqBackend()
        self.ss = StructStrings(assume)
        self.assume = list(assume)
        be, ss = self.be, self.ss

        def mk_match(pattern):
            def i_match(interp, guard, env, s):
                return ss.match(be, interp.lift_str(s), pattern, guard)
            return i_match

        def i_version(interp, guard, env, s):
            s = interp.lift_str(s)
            g = T.zguard(guard)
            if not ss.possible(g):
                be.safety.append(z3.Not(g))
                return _SVer([], None)
            for k in range(1, KMAX + 1):
                for p in (0, 1):
                    pat = _shape_pattern(k, p)
                    if not ss.valid(z3.Implies(g, z3.InRe(s, T.regex_to_z3(T.parse_regex(pat))))):
                        continue
                    m = ss.match(be, s, pat, guard)
                    be.safety.append(z3.Implies(g, m.matched))
                    digs = m.groups[:k] + (m.groups[k + 1:] if p else [])
                    for d in digs:
                        if not ss.valid(z3.InRe(d, T.DIGITS_RE)):
                            raise T.Untranslatable("Version(): a numeric part is not canonical (int() normalisation is not modelled)")
                        be.safety.append(z3.InRe(d, T.DIGITS_RE))
                    rel = [T.SDigits(d) for d in m.groups[:k]]
                    pre = T.PyTuple([m.groups[k], T.SDigits(m.groups[k + 1])]) if p else None
                    return _SVer(rel, pre)
            # outside the class the stub models: the path is set aside (reported by the `modelled` query), never judged
            self.unmodelled.append(g)
            return _SVer([], None)

        intr = {"Version": i_version,
                "attr:release": lambda interp, guard, env, base: T.PyTuple(base.release),
                "attr:pre": lambda interp, guard, env, base: base.pre}
        for name, pat in _source_patterns().items():
            intr[name + ".match"] = mk_match(pat)
        self.interp = T.Interp(be, intrinsics=intr, globals_={"_PEP440_LABELS": _source_labels()})
        self.dead: List[Any] = []
        self.unmodelled: List[Any] = []

    def run(self, fname: str, arg, guard=True):
        _z3, T = _T()
        fn = func_node(CH, fname)
        params = [a.arg for a in fn.args.args]  # type: ignore[attr-defined]
        if len(params) != 1:
            raise T.Untranslatable(f"{fname} no longer takes exactly one argument")
        return self.interp.run_function(fn, {params[0]: arg}, guard)

    def compose(self, first: str, second: str, arg):
        """guarded outcomes of second(first(arg)); solver-dead intermediate paths are kept in self.dead (they are
        re-proved dead by the final query)"""
        _z3, T = _T()
        outs = []
        for g, kind, val in self.run(first, arg):
            if kind != "return":
                outs.append((g, kind, val))
                continue
            if not self.ss.possible(T.zguard(g)):
                self.dead.append(T.zguard(g))
                continue
            outs.extend(self.run(second, val, g))
        return outs

    def violation(self, outs, expected):
        """z3 Bool: some outcome is not `return expected` (or a pruned path is alive, or the encoding is unsafe)"""
        z3, T = _T()
        viol = list(self.dead) + [z3.Not(c) for c in self.be.safety]
        same = 0
        for g, kind, val in outs:
            if kind == "return" and val is not None and not isinstance(val, (bool, int)):
                val = self.interp.lift_str(val)
                if seq_same(val, expected):
                    same += 1
                else:
                    viol.append(z3.And(T.zguard(g), val != expected))
            else:
                viol.append(T.zguard(g))
        return z3.Or(*viol) if viol else z3.BoolVal(False), same


def _vars():
    z3, T = _T()
    r = [z3.String(f"r{i}") for i in range(1, KMAX + 1)]
    l, n = z3.String("label"), z3.String("num")
    assume = [z3.InRe(v, T.DIGITS_RE) for v in r + [n]] + [z3.Or(*[l == z3.StringVal(a) for a in LAB[1:]])]
    return r, l, n, assume


def _pep440_term(r, l, n, k: int, p: int):
    z3, _ = _T()
    parts = []
    for i in range(k):
        if i:
            parts.append(z3.StringVal("."))
        parts.append(r[i])
    if p:
        parts += [l, n]
    return parts[0] if len(parts) == 1 else z3.Concat(*parts)


def _semver_term(r, l, n, k: int, p: int):
    z3, _ = _T()
    parts = []
    for i in range(k):
        if i:
            parts.append(z3.StringVal("."))
        parts.append(r[i])
    if p:
        parts += [z3.StringVal("-"), l, z3.StringVal("."), n]
    return parts[0] if len(parts) == 1 else z3.Concat(*parts)


def _excl(ctx, variables: Dict[str, Any]) -> List[Any]:
    return smt_excludes(ctx, variables)


def _check(ctx, name: str, assumptions, negated_property, variables, replay, note: str = "") -> str:
    return smt_check(ctx, name, assumptions, negated_property, variables, replay, note, cross_s=5)


def _modelled(ctx, assumptions, unmod, variables) -> List[Any]:
    """paths on which Version() gets an argument outside the stub's class are set aside: `modelled` asks whether such a
    path is feasible (sat = inconclusive, no verdict); the property query then assumes they are not taken"""
    z3, _ = _T()
    if not unmod:
        return []
    ctx.check("modelled", assumptions=assumptions, negated_property=z3.Or(*unmod), variables=variables, replay=None, cross_check=False,
              note="is a path feasible on which Version() is called outside the modelled class D(.D){0..3}((a|b|rc)D)? ")
    return [z3.Not(z3.Or(*unmod))]


def _untranslatable(ctx, name: str, e: Exception) -> None:
    ctx.records.append({"name": name, "result": "untranslatable", "note": f"{type(e).__name__}: {e}", "solver_s": 0})


def _samples(ctx, assumptions, variables, extra_sets) -> List[Dict[str, Any]]:
    """models of the assumptions (one per extra constraint set) — inputs on which the encoding is compared with CPython"""
    z3, _ = _T()
    from vlib.smt import _py

    out = []
    for extra in extra_sets:
        s = z3.Solver()
        s.set("timeout", 20000)
        s.add(*assumptions)
        s.add(*_excl(ctx, variables))
        s.add(*extra)
        if str(s.check()) == "sat":
            m = s.model()
            out.append({k: _py(m.eval(v, model_completion=True)) for k, v in variables.items()})
    return out


def _w_version(w, semver: bool) -> Tuple[str, int, int]:
    k, p = int(w["k"]), 1 if w["has_pre"] else 0
    rel = ".".join(str(w[f"r{i}"]) for i in range(1, k + 1))
    if not p:
        return rel, k, p
    return rel + (f"-{w['label']}.{w['num']}" if semver else f"{w['label']}{w['num']}"), k, p


def _native_s2p(w) -> bool:
    s, k, p = _w_version(w, True)
    exp, _, _ = _w_version(w, False)
    return semver_to_pep440(s) == exp


def _native_rt_pep440(w) -> bool:
    v, _, _ = _w_version(w, False)
    return semver_to_pep440(pep440_to_semver(v)) == v


def _native_rt_semver(w) -> bool:
    s, _, _ = _w_version(w, True)
    return pep440_to_semver(semver_to_pep440(s)) == s


def _real(fn, *a):
    try:
        return ("return", fn(*a))
    except Exception as e:  # noqa: BLE001
        return ("raise", type(e).__name__)


def _tv_conv(ctx, label: str, chain: List[str], inputs: List[str], base_vars=None) -> None:
    """translation validation: the encoding of chain[-1](...chain[0](literal)) evaluated on concrete strings must have
    exactly the outcome the real functions have in CPython"""
    z3, T = _T()
    real = {"semver_to_pep440": semver_to_pep440, "pep440_to_semver": pep440_to_semver}
    for i, lit in enumerate(inputs):
        def run_real(x=lit):
            for f in chain:
                x = real[f](x)
            return x
        kind, val = _real(run_real)
        # translation validation does not involve the property: the variables a known-finding exclusion may mention
        # are pinned to a shape outside every exclusion class
        shape = {"k": z3.IntVal(3), "has_pre": z3.BoolVal(False)}
        try:
            cv = _Conv([])
            outs = cv.run(chain[0], z3.StringVal(lit)) if len(chain) == 1 else cv.compose(chain[0], chain[1], z3.StringVal(lit))
        except T.Untranslatable as e:
            _untranslatable(ctx, f"tv_{label}[{i}]", e)
            continue
        if cv.unmodelled and not z3.is_false(z3.simplify(z3.Or(*cv.unmodelled))):
            ctx.records.append({"name": f"tv_{label}[{i}]", "result": "unmodelled", "solver_s": 0,
                                "note": f"{lit!r}: Version() is reached with an argument outside the stub's class"})
            continue
        agree = []
        for g, k2, v2 in outs:
            if k2 != kind:
                continue
            agree.append(z3.And(T.zguard(g), cv.interp.lift_str(v2) == z3.StringVal(val)) if kind == "return" else T.zguard(g))
        ctx.check(f"tv_{label}[{i}]", assumptions=list(cv.be.defs), negated_property=z3.Not(z3.Or(*agree)) if agree else z3.BoolVal(True),
                  variables=dict(shape), replay=lambda w: True, cross_check=False,
                  note=f"encoding vs CPython on {lit!r}: {'.'.join(chain)} -> {kind} {val!r}")


def _test_literals(funcs: List[str]) -> List[str]:
    out: List[str] = []
    for f in funcs:
        try:
            for item in parametrize_literals(TESTS, f):
                lit = item[0] if isinstance(item, (tuple, list)) else item
                if isinstance(lit, str) and lit not in out:
                    out.append(lit)
        except KeyError:
            continue
    return out


def _len_sets(r, n):
    z3, _ = _T()
    return [[], [z3.Length(v) >= 2 for v in r + [n]], [z3.Length(r[0]) >= 3, z3.Length(n) == 1, r[1] == z3.StringVal("0")]]


@smt_obligation(quick=60, thorough=120,
                what="semver_to_pep440 (regex + body from the AST): x.y.z-l.n -> x.y.zln for all digit strings and l in {a,b,rc}; "
                     "stable versions of 1..4 components unchanged; the regex decomposes a string in at most one way",
                bounds={"numbers": "every string of 0|[1-9][0-9]* (no length bound)", "stable release length": "1..4"})
def ob_semver_to_pep440(ctx):
    z3, T = _T()
    r, l, n, assume = _vars()
    K, P = z3.Int("k"), z3.Bool("has_pre")
    variables = {"k": K, "has_pre": P, "label": l, "num": n, **{f"r{i + 1}": v for i, v in enumerate(r)}}
    try:
        pat = _source_patterns()
        viol, defs, notes, unmod = [], [], [], []
        for k in range(1, KMAX + 1):
            for p in (0, 1):
                if p and k != 3:
                    continue   # semver pre-releases have exactly three components
                cv = _Conv(assume)
                outs = cv.run("semver_to_pep440", _semver_term(r, l, n, k, p))
                v, same = cv.violation(outs, _pep440_term(r, l, n, k, p))
                viol.append(z3.And(K == k, P == bool(p), v))
                unmod += [z3.And(K == k, P == bool(p), u) for u in cv.unmodelled]
                defs += cv.be.defs
                notes.append(f"k={k},pre={p}: {len(outs)} outcomes, {same} syntactically equal to the expected term, {cv.ss.queries} structural queries")
        base = assume + defs + [K >= 1, K <= KMAX, z3.Implies(P, K == 3)] + _modelled(ctx, assume + defs + [K >= 1, K <= KMAX, z3.Implies(P, K == 3)], unmod, variables)
        _check(ctx, "kernel", assumptions=base, negated_property=z3.Or(*viol),
                  variables=variables, replay=_native_s2p,
                  note=f"patterns {pat}; labels {sorted(_source_labels())}; source {source_sha(CH, ['semver_to_pep440'])}; " + "; ".join(notes))
        used = {n.func.value.id for n in ast.walk(func_node(CH, "semver_to_pep440"))
                if isinstance(n, ast.Call) and isinstance(n.func, ast.Attribute) and n.func.attr == "match" and isinstance(n.func.value, ast.Name)}
        lemma = [(name, pat[name]) for name in sorted(used) if name in pat]
        lemma += [(f"Version stub k={k} pre={p}", _shape_pattern(k, p)) for k in range(1, KMAX + 1) for p in (0, 1)]
        for name, p_ in lemma:
            qs = unique_decomposition_queries(p_)
            _check(ctx, f"unique_decomposition[{name}]", assumptions=[], negated_property=z3.Or(*qs), variables={"k": K, "has_pre": P},
                   replay=None, note=f"{len(qs)} side conditions of the unique-decomposition lemma for {p_!r}")
    except T.Untranslatable as e:
        _untranslatable(ctx, "kernel", e)
        return
    lits = _test_literals(["test_semver_to_pep440_prerelease", "test_semver_to_pep440_stable_passthrough",
                           "test_roundtrip_semver_to_pep440_and_back"]) + ["1.2.3-alpha.1", "1.2-a.1", "1.2.3-a.4\n", "1.2.3.4", "7"]
    for w in _samples(ctx, assume + [K == 3, P], variables, _len_sets(r, n)):
        lits.append(_w_version(w, True)[0])
    _tv_conv(ctx, "s2p", ["semver_to_pep440"], lits)


@smt_obligation(quick=90, thorough=180,
                what="semver_to_pep440(pep440_to_semver(v)) == v for every normalised PEP 440 release / a,b,rc pre-release v "
                     "with 1..4 release components (both function bodies and the regex from the AST; Version() = parsing stub)",
                bounds={"numbers": "every string of 0|[1-9][0-9]* (no length bound)", "release length": "1..4", "labels": "a, b, rc"})
def ob_roundtrip_pep440(ctx):
    z3, T = _T()
    r, l, n, assume = _vars()
    K, P = z3.Int("k"), z3.Bool("has_pre")
    variables = {"k": K, "has_pre": P, "label": l, "num": n, **{f"r{i + 1}": v for i, v in enumerate(r)}}
    try:
        viol, defs, notes, unmod = [], [], [], []
        for k in range(1, KMAX + 1):
            for p in (0, 1):
                cv = _Conv(assume)
                v = _pep440_term(r, l, n, k, p)
                outs = cv.compose("pep440_to_semver", "semver_to_pep440", v)
                vio, same = cv.violation(outs, v)
                viol.append(z3.And(K == k, P == bool(p), vio))
                unmod += [z3.And(K == k, P == bool(p), u) for u in cv.unmodelled]
                defs += cv.be.defs
                notes.append(f"k={k},pre={p}: {len(outs)} outcomes/{same} syntactically equal/{cv.ss.queries} structural queries")
        base = assume + defs + [K >= 1, K <= KMAX]
        base = base + _modelled(ctx, base, unmod, variables)
        _check(ctx, "roundtrip", assumptions=base, negated_property=z3.Or(*viol), variables=variables,
                  replay=_native_rt_pep440, note=f"source {source_sha(CH, ['semver_to_pep440', 'pep440_to_semver'])}; " + "; ".join(notes))
    except T.Untranslatable as e:
        _untranslatable(ctx, "roundtrip", e)
        return
    lits = _test_literals(["test_pep440_to_semver_prerelease", "test_pep440_to_semver_stable_passthrough",
                           "test_roundtrip_pep440_to_semver_and_back"]) + ["1.2", "1.2.3.4", "0", "1.2a1", "1.2.3.4rc2"]
    for w in _samples(ctx, assume + [K >= 1, K <= KMAX], variables, _len_sets(r, n) + [[K == 3, P], [K == 3, z3.Not(P)]]):
        lits.append(_w_version(w, False)[0])
    _tv_conv(ctx, "p2s", ["pep440_to_semver"], lits)
    _tv_conv(ctx, "p2s_s2p", ["pep440_to_semver", "semver_to_pep440"], lits)


@smt_obligation(quick=90, thorough=180,
                what="pep440_to_semver(semver_to_pep440(s)) == s for every semver x.y.z and x.y.z-l.n, l in {a,b,rc} "
                     "(both function bodies and the regex from the AST; Version() = parsing stub)",
                bounds={"numbers": "every string of 0|[1-9][0-9]* (no length bound)", "components": "3", "labels": "a, b, rc"})
def ob_roundtrip_semver(ctx):
    z3, T = _T()
    r, l, n, assume = _vars()
    K, P = z3.Int("k"), z3.Bool("has_pre")
    variables = {"k": K, "has_pre": P, "label": l, "num": n, **{f"r{i + 1}": v for i, v in enumerate(r)}}
    try:
        viol, defs, notes, unmod = [], [], [], []
        for p in (0, 1):
            cv = _Conv(assume)
            s = _semver_term(r, l, n, 3, p)
            outs = cv.compose("semver_to_pep440", "pep440_to_semver", s)
            vio, same = cv.violation(outs, s)
            viol.append(z3.And(P == bool(p), vio))
            unmod += [z3.And(P == bool(p), u) for u in cv.unmodelled]
            defs += cv.be.defs
            notes.append(f"pre={p}: {len(outs)} outcomes/{same} syntactically equal/{cv.ss.queries} structural queries")
        base = assume + defs + [K == 3]
        base = base + _modelled(ctx, base, unmod, variables)
        _check(ctx, "roundtrip", assumptions=base, negated_property=z3.Or(*viol), variables=variables,
                  replay=_native_rt_semver, note=f"source {source_sha(CH, ['semver_to_pep440', 'pep440_to_semver'])}; " + "; ".join(notes))
    except T.Untranslatable as e:
        _untranslatable(ctx, "roundtrip", e)
        return
    lits = _test_literals(["test_roundtrip_semver_to_pep440_and_back", "test_semver_to_pep440_prerelease",
                           "test_semver_to_pep440_stable_passthrough"])
    for w in _samples(ctx, assume + [K == 3], variables, _len_sets(r, n) + [[P], [z3.Not(P)]]):
        lits.append(_w_version(w, True)[0])
    _tv_conv(ctx, "s2p_p2s", ["semver_to_pep440", "pep440_to_semver"], lits)


# ---------------------------------------------------------------------------------------------------------------------
# classification
# ---------------------------------------------------------------------------------------------------------------------
class _AStr:
    """a (non-empty) version string, abstractly: release components, pre-release rank (0 a, 1 b, 2 rc, 3 none), number"""

    def __init__(self, rel, rank, num):
        self.rel, self.rank, self.num = list(rel), rank, num


class _AVer(_AStr):
    pass


def _make_vinterp():
    z3, T = _T()

    def trimmed_len(rel):
        t = z3.IntVal(0)
        for i, c in enumerate(rel):          # last non-zero component decides
            t = z3.If(c != 0, z3.IntVal(i + 1), t)
        return t

    def rel_cmp(a, b):
        """Python tuple comparison of the trailing-zero-trimmed release tuples (packaging._cmpkey): -1 / 0 / 1"""
        ta, tb = trimmed_len(a), trimmed_len(b)
        out = z3.IntVal(0)
        for i in reversed(range(max(len(a), len(b)))):
            ai = a[i] if i < len(a) else z3.IntVal(0)
            bi = b[i] if i < len(b) else z3.IntVal(0)
            out = z3.If(z3.And(i >= ta, i >= tb), 0, z3.If(i >= ta, -1, z3.If(i >= tb, 1, z3.If(ai < bi, -1, z3.If(ai > bi, 1, out)))))
        return out

    def le(a, b):
        c = rel_cmp(a.rel, b.rel)
        return z3.Or(c < 0, z3.And(c == 0, z3.Or(a.rank < b.rank, z3.And(a.rank == b.rank, a.num <= b.num))))

    class VInterp(T.Interp):
        def truth(self, v, guard):
            if isinstance(v, _AStr):
                return True
            return super().truth(v, guard)

        def eval(self, node, env, guard):
            if isinstance(node, ast.BinOp) and isinstance(node.op, ast.Add):
                lft, rgt = self.eval(node.left, env, guard), self.eval(node.right, env, guard)
                if isinstance(lft, T.PyTuple) and isinstance(rgt, T.PyTuple):
                    return T.PyTuple(lft.items + rgt.items)
            if isinstance(node, ast.Subscript):
                v = self.eval(node.value, env, guard)
                if isinstance(v, T.PyTuple):
                    sl = node.slice
                    if isinstance(sl, ast.Slice):
                        lo = None if sl.lower is None else self.eval(sl.lower, env, guard)
                        hi = None if sl.upper is None else self.eval(sl.upper, env, guard)
                        if sl.step is not None or not all(x is None or (isinstance(x, int) and not isinstance(x, bool)) for x in (lo, hi)):
                            raise T.Untranslatable("tuple slice with non-constant bounds")
                        return T.PyTuple(v.items[lo:hi])
                    i = self.eval(sl, env, guard)
                    if not (isinstance(i, int) and not isinstance(i, bool)) or not (-len(v.items) <= i < len(v.items)):
                        raise T.Untranslatable("tuple index not a constant in range")
                    return v.items[i]
            return super().eval(node, env, guard)

        def compare(self, op, lft, rgt):
            if isinstance(lft, _AVer) and isinstance(rgt, _AVer):
                table = {ast.LtE: lambda: le(lft, rgt), ast.GtE: lambda: le(rgt, lft), ast.Lt: lambda: z3.Not(le(rgt, lft)),
                         ast.Gt: lambda: z3.Not(le(lft, rgt)), ast.Eq: lambda: z3.And(le(lft, rgt), le(rgt, lft)),
                         ast.NotEq: lambda: z3.Not(z3.And(le(lft, rgt), le(rgt, lft)))}
                f = table.get(type(op))
                if f is None:
                    raise T.Untranslatable("comparison of versions")
                return f()
            return super().compare(op, lft, rgt)

    def i_version(interp, guard, env, s):
        if not isinstance(s, _AStr):
            raise T.Untranslatable("Version() of something that is not one of the two arguments")
        return _AVer(s.rel, s.rank, s.num)

    be = T.SeqBackend()
    return VInterp(be, intrinsics={"Version": i_version, "attr:release": lambda interp, guard, env, base: T.PyTuple(base.rel)})


def _z3_spec(a: "_AStr", b: "_AStr"):
    """(greater, [grew-first_i for i<3]) written from the statement: zero-padded lexicographic order, then a<b<rc<final,
    then the number"""
    z3, _ = _T()
    n = max(len(a.rel), len(b.rel), 3)
    pa = a.rel + [z3.IntVal(0)] * (n - len(a.rel))
    pb = b.rel + [z3.IntVal(0)] * (n - len(b.rel))
    gt_pre = z3.Or(a.rank > b.rank, z3.And(a.rank == b.rank, a.num > b.num))
    gt = gt_pre
    for i in reversed(range(n)):
        gt = z3.If(pa[i] != pb[i], pa[i] > pb[i], gt)
    first = []
    for i in range(3):
        first.append(z3.And(pa[i] > pb[i], *[z3.Not(pa[j] > pb[j]) for j in range(i)]))
    return gt, first


def _classify_vars():
    z3, _ = _T()
    a = [z3.Int(f"a{i}") for i in range(KMAX)]
    b = [z3.Int(f"b{i}") for i in range(KMAX)]
    ra, na, rb, nb = z3.Int("cur_rank"), z3.Int("cur_num"), z3.Int("prev_rank"), z3.Int("prev_num")
    K1, K2 = z3.Int("k1"), z3.Int("k2")
    assume = [c >= 0 for c in a + b] + [ra >= 0, ra <= 3, rb >= 0, rb <= 3, na >= 0, nb >= 0,
                                          z3.Implies(ra == 3, na == 0), z3.Implies(rb == 3, nb == 0),
                                          K1 >= 1, K1 <= KMAX, K2 >= 1, K2 <= KMAX]
    variables = {"k1": K1, "k2": K2, "cur_rank": ra, "cur_num": na, "prev_rank": rb, "prev_num": nb}
    variables.update({f"a{i}": v for i, v in enumerate(a)})
    variables.update({f"b{i}": v for i, v in enumerate(b)})
    return a, b, ra, na, rb, nb, K1, K2, assume, variables


def _classify_outcomes(cur: "_AStr", prev: "_AStr"):
    interp = _make_vinterp()
    fn = func_node(VS, "detect_change_type")
    params = [x.arg for x in fn.args.args]  # type: ignore[attr-defined]
    return interp.run_function(fn, {params[0]: cur, params[1]: prev})


def _w_pair(w):
    k1, k2 = int(w["k1"]), int(w["k2"])
    cur = [int(w[f"a{i}"]) for i in range(k1)]
    prev = [int(w[f"b{i}"]) for i in range(k2)]
    lab = lambda rank: 0 if int(rank) == 3 else int(rank) + 1  # noqa: E731
    return cur, lab(w["cur_rank"]), int(w["cur_num"]), prev, lab(w["prev_rank"]), int(w["prev_num"])


def _native_classify(w) -> bool:
    cr, cl, cn, pr, pl, pn = _w_pair(w)
    return detect_change_type(_canon(cr, cl, cn), _canon(pr, pl, pn)) in _spec_allowed(cr, cl, cn, pr, pl, pn)


def _parse_class(v: str):
    from packaging.version import Version

    pv = Version(v)
    if pv.epoch or pv.post is not None or pv.dev is not None or pv.local is not None:
        return None
    rank = 3 if pv.pre is None else ["a", "b", "rc"].index(pv.pre[0])
    return list(pv.release), rank, (0 if pv.pre is None else pv.pre[1])


@smt_obligation(quick=60, thorough=120,
                what="detect_change_type (from the AST; Version order = packaging's key on the class): 'none' iff the new version is "
                     "not greater in PEP 440 order; otherwise, if one of the first three release components grew, the result names the "
                     "most significant one that did, and is never 'none'",
                bounds={"components": "every integer >= 0", "release lengths": "1..4 x 1..4", "pre-release": "none / a / b / rc with every number >= 0"})
def ob_classify(ctx):
    z3, T = _T()
    a, b, ra, na, rb, nb, K1, K2, assume, variables = _classify_vars()
    try:
        viol, n_out = [], 0
        for k1 in range(1, KMAX + 1):
            for k2 in range(1, KMAX + 1):
                cur, prev = _AStr(a[:k1], ra, na), _AStr(b[:k2], rb, nb)
                gt, first = _z3_spec(cur, prev)
                for g, kind, val in _classify_outcomes(cur, prev):
                    n_out += 1
                    g = z3.And(K1 == k1, K2 == k2, T.zguard(g))
                    if kind != "return" or not isinstance(val, str):
                        viol.append(g)
                        continue
                    if val == "none":
                        viol.append(z3.And(g, gt))
                    else:
                        viol.append(z3.And(g, z3.Not(gt)))
                        for i in range(3):
                            if val != NAMES[i]:
                                viol.append(z3.And(g, gt, first[i]))
        _check(ctx, "classification", assumptions=assume, negated_property=z3.Or(*viol), variables=variables, replay=_native_classify,
                  note=f"{n_out} guarded outcomes over 16 length pairs; source {source_sha(VS, ['detect_change_type'])}")
    except T.Untranslatable as e:
        _untranslatable(ctx, "classification", e)
        return
    # translation validation: test literals of the repo + solver models, encoding vs the real function in CPython
    pairs = []
    try:
        for frm, to, _exp in parametrize_literals(TESTS_CLI, "test_compute_tag_metadata_change_types"):
            pairs.append((to.lstrip("v"), frm.lstrip("v")))
    except KeyError:
        pass
    pairs += [("1.0.0", "1"), ("1.0.1", "1"), ("1.2.3", "1.2.3rc1"), ("1.10.0", "1.9.0"), ("1.2.3.5", "1.2.3.4"), ("1.2.3a2", "1.2.3a10"), ("0.9", "0.10")]
    extra = [[], [K1 == 4, K2 == 2, a[0] == b[0], a[1] == b[1]], [K1 == 1, K2 == 3, ra == 0, rb == 3, a[0] == b[0]],
             [a[0] == b[0], a[1] == b[1], a[2] == b[2], K1 == 3, K2 == 3, ra < rb], [a[0] > 100, b[0] < a[0]]]
    for w in _samples(ctx, assume, variables, extra):
        cr, cl, cn, pr, pl, pn = _w_pair(w)
        pairs.append((_canon(cr, cl, cn), _canon(pr, pl, pn)))
    for i, (cv, pv) in enumerate(pairs):
        pc, pp = _parse_class(cv), _parse_class(pv)
        if pc is None or pp is None:
            continue
        kind, val = _real(detect_change_type, cv, pv)
        cur = _AStr([z3.IntVal(c) for c in pc[0]], z3.IntVal(pc[1]), z3.IntVal(pc[2]))
        prev = _AStr([z3.IntVal(c) for c in pp[0]], z3.IntVal(pp[1]), z3.IntVal(pp[2]))
        try:
            outs = _classify_outcomes(cur, prev)
        except T.Untranslatable as e:
            _untranslatable(ctx, f"tv_classify[{i}]", e)
            continue
        agree = [T.zguard(g) for g, k2, v2 in outs if k2 == kind and (kind != "return" or v2 == val)]
        ctx.check(f"tv_classify[{i}]", assumptions=[], negated_property=z3.Not(z3.Or(*agree)) if agree else z3.BoolVal(True),
                  variables={}, replay=lambda w: True, cross_check=False,
                  note=f"encoding vs CPython: detect_change_type({cv!r}, {pv!r}) -> {kind} {val!r}")


def replay_known(name: str, witness) -> bool:
    ob, _, q = name.partition(".")
    if q.startswith("tv_") or q.startswith("unique_decomposition"):
        return False
    if ob == "ob_semver_to_pep440":
        return _native_s2p(witness)
    if ob == "ob_roundtrip_pep440":
        return _native_rt_pep440(witness)
    if ob == "ob_roundtrip_semver":
        return _native_rt_semver(witness)
    if ob == "ob_classify":
        return _native_classify(witness)
    return True
