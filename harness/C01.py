"""C01 — a step never runs more invocations at once than its worker limit; every invocation on a distinct slot.

Inductive shape (DESIGN §1.3): started-and-unfinished invocations of a step are in bijection with the entries of
``in_progress`` provided (a) every tick preserves R1 (len<=num_workers, ids distinct, ids in range) and
(b) *slot accounting*: the CommandRunWorker commands a tick emits are exactly the new in_progress keys (plus the
ticking worker's own key for a stale-collect re-run), and an entry leaves in_progress only by the TickStepResult
of its own worker.  One step from an arbitrary REP state covers histories of any length."""
from __future__ import annotations

import vlib.boot  # noqa: F401
from vlib.boot import B
from vlib.ob import obligation
from vlib.world import (
    EVA, EVB, EVC, EvA, EvB, EvC, START, StubPolicy, rep_R1, rep_R2, world_ab, world_ab_valid,
)

from workflows.runtime.control_loop import _reduce_tick, rewind_in_progress
from workflows.runtime.types.commands import CommandRunWorker
from workflows.runtime.types.results import (
    AddCollectedEvent, AddWaiter, DeleteCollectedEvent, DeleteWaiter, StepWorkerFailed, StepWorkerResult,
)
from workflows.runtime.types.ticks import TickAddEvent, TickStepResult, TickWaiterTimeout

ENCODED = [
    "workflows.runtime.control_loop:_reduce_tick",
    "workflows.runtime.control_loop:_process_step_result_tick",
    "workflows.runtime.control_loop:_process_add_event_tick",
    "workflows.runtime.control_loop:_process_waiter_timeout_tick",
    "workflows.runtime.control_loop:_add_or_enqueue_event",
    "workflows.runtime.control_loop:rewind_in_progress",
    "workflows.runtime.types.internal_state:BrokerState.deepcopy",
    "workflows.runtime.types.internal_state:InternalStepWorkerState._deepcopy",
]
ASSUMES = [
    "pre-state satisfies REP (R1 slots distinct/in range, R2 queue non-empty => step at full limit); REP's "
    "preservation is itself an obligation here, its base case is ob_rewind_establishes_rep",
    "user retry policy = StubPolicy(choice): returns None / 0 / positive delay (environment)",
    "event payloads are opaque (pool instances); timestamps are ints",
]
OUTSIDE = ["num_workers > 3, queue length > 2 per step, more than two steps", "asyncio task scheduling itself (the thorough whole-run obligation of C02, ob_whole_run_delivery, also asserts observed concurrency <= num_workers)"]

QMAX = B(2, 3)


def _keys(state, step):
    return sorted(x.worker_id for x in state.workers[step].in_progress)


def _slot_accounting(before, after, cmds, ticking=None) -> bool:
    """RunWorker commands == new in_progress keys (+ own key on a stale-collect re-run); all distinct."""
    for step in ("a", "b"):
        old = _keys(before, step)
        new = _keys(after, step)
        runs = sorted(c.id for c in cmds if isinstance(c, CommandRunWorker) and c.step_name == step)
        for i in range(len(runs) - 1):
            if runs[i] == runs[i + 1]:
                return False
        removed = [ticking[1]] if (ticking is not None and ticking[0] == step) else []
        # keys may only disappear through the ticking worker
        for k in old:
            if k not in new and k not in removed:
                return False
        for r in runs:
            if r not in new:
                return False
            if r in old and r not in removed:
                return False
        for k in new:
            if k not in old and k not in runs:
                return False
    return True


@obligation(quick=90, thorough=300, partitions_quick=[f"evk == {e} and nw == {n}" for e in range(3) for n in (1, 2, 3)],
            partitions_thorough=[f"evk == {e} and nw == {n}" for e in range(3) for n in (1, 2, 3)],
            what="TickAddEvent (plain, targeted, waiter-resolving) preserves R1/R2 and slot accounting",
            bounds={"num_workers": "1..3", "queue": "0..QMAX", "waiter": "none/pending/resolved/timed-out"})
def ob_add_event(nw: int, b0: bool, b1: bool, b2: bool, q: int, wk: int, evk: int, targeted: bool, bb: bool, bq: int) -> bool:
    """
    pre: world_ab_valid(nw, b0, b1, b2, q, bb, bq) and q <= QMAX and bq <= 1
    pre: 0 <= wk <= 3 and 0 <= evk <= 2
    post: _
    """
    st = world_ab(nw, b0, b1, b2, q, wait_kind=wk, b_busy=bb, b_q=bq)
    ev = EVA if evk == 0 else (EVB if evk == 1 else EVC)
    tick = TickAddEvent.model_construct(event=ev, step_name=("a" if targeted else None), attempts=None, first_attempt_at=None,
                                        last_exception=None, last_failed_at=None, recovery_counts={})
    st2, cmds = _reduce_tick(tick, st, 1)
    return rep_R1(st2) and rep_R2(st2) and _slot_accounting(st, st2, cmds)


@obligation(quick=120, thorough=400, partitions_quick=[f"kind == {k}" for k in range(12)],
            partitions_thorough=[f"kind == {k} and nw == {n}" for k in range(12) for n in (1, 2, 3)],
            what="TickStepResult of every result kind — single records and the combinations real steps produce (collect + failure, consumed wait + "
                 "new wait, completed collect + failure, collects on two buffers of which one or both snapshots are stale) — preserves R1/R2 and slot accounting (no slot is started twice by one tick)",
            bounds={"num_workers": "1..3", "queue": "0..QMAX", "result kinds": 12, "policy": "None/0/delay"})
def ob_step_result(nw: int, b0: bool, b1: bool, b2: bool, q: int, wid: int, kind: int, pol: int, live: int, snap: int, s2: bool = False) -> bool:
    """
    pre: world_ab_valid(nw, b0, b1, b2, q) and q <= QMAX
    pre: 0 <= wid <= 2 and (b0 if wid == 0 else (b1 if wid == 1 else b2))
    pre: 0 <= kind <= 11 and 0 <= pol <= 2 and 0 <= snap <= live <= 2 and (kind >= 10 or not s2)
    post: _
    """
    st = world_ab(nw, b0, b1, b2, q, policy=StubPolicy(pol), buf_live=live, buf_snap=snap,
                  wait_kind=(1 if kind in (6, 8) else 0))
    if kind == 0:
        res = [StepWorkerResult(result=None)]
    elif kind == 1:
        res = [StepWorkerResult(result=EVB)]
    elif kind == 2:
        res = [StepWorkerFailed(exception=ValueError("x"), failed_at=1.0)]
    elif kind == 3:
        res = [AddCollectedEvent(event_id="buf", event=EVA)]
    elif kind == 4:
        res = [AddWaiter(waiter_id="w1", event_type=EvC, timeout=None)]
    elif kind == 5:
        res = [DeleteCollectedEvent(event_id="buf"), StepWorkerResult(result=EVB)]
    elif kind == 6:
        res = [DeleteWaiter(waiter_id="w1"), StepWorkerResult(result=None)]
    elif kind == 7:
        # what a collecting step that then raises produces: collect_events recorded its event, then the body failed
        res = [AddCollectedEvent(event_id="buf", event=EVA), StepWorkerFailed(exception=ValueError("x"), failed_at=1.0)]
    elif kind == 8:
        # a waiting step whose earlier wait was consumed and which parks in a second wait
        res = [DeleteWaiter(waiter_id="w1"), AddWaiter(waiter_id="w2", event_type=EvC, timeout=None)]
    elif kind == 9:
        # a collecting step that completed its set and failed afterwards
        res = [DeleteCollectedEvent(event_id="buf"), StepWorkerFailed(exception=ValueError("x"), failed_at=1.0)]
    elif kind == 10:
        # one invocation collecting on two buffer ids: "buf" (live/snapshot sizes symbolic: possibly stale) and a fresh "buf2"
        res = [AddCollectedEvent(event_id="buf", event=EVA), AddCollectedEvent(event_id="buf2", event=EVA)]
    else:
        res = [AddCollectedEvent(event_id="buf2", event=EVA), AddCollectedEvent(event_id="buf", event=EVA)]
    if kind >= 10 and s2:
        # the SECOND buffer is stale too (a sibling recorded its event in both buffers since this invocation's snapshot)
        st.workers["a"].collected_events["buf2"] = [EVB]
    tick = TickStepResult.model_construct(step_name="a", worker_id=wid, event=EVA, result=res)
    st2, cmds = _reduce_tick(tick, st, 1, "r")
    return rep_R1(st2) and rep_R2(st2) and _slot_accounting(st, st2, cmds, ("a", wid))


@obligation(quick=60, thorough=200, what="TickWaiterTimeout (waiter replay) preserves R1/R2 and slot accounting")
def ob_waiter_timeout(nw: int, b0: bool, b1: bool, b2: bool, q: int, wk: int) -> bool:
    """
    pre: world_ab_valid(nw, b0, b1, b2, q) and q <= QMAX
    pre: 0 <= wk <= 3
    post: _
    """
    st = world_ab(nw, b0, b1, b2, q, wait_kind=wk)
    st2, cmds = _reduce_tick(TickWaiterTimeout(step_name="a", waiter_id="w1"), st, 1)
    return rep_R1(st2) and rep_R2(st2) and _slot_accounting(st, st2, cmds)


@obligation(quick=90, thorough=300, partitions_quick=[f"nw == {n}" for n in (1, 2, 3)], partitions_thorough=[f"nw == {n}" for n in (1, 2, 3)],
            what="base case: rewind_in_progress establishes R1/R2 from ANY resumed shape (ids arbitrary, queue arbitrary)")
def ob_rewind_establishes_rep(nw: int, b0: bool, b1: bool, b2: bool, q: int, bb: bool, bq: int) -> bool:
    """
    pre: 1 <= nw <= 3 and 0 <= q <= QMAX and 0 <= bq <= 2
    post: _
    """
    # deliberately NOT REP: a deserialized state may carry any in-progress/queue shape
    st = world_ab(nw, b0, b1, b2, q, b_busy=bb, b_q=bq)
    n_before = len(st.workers["a"].in_progress) + len(st.workers["a"].queue)
    st2, cmds = rewind_in_progress(st, 1)
    n_after = len(st2.workers["a"].in_progress) + len(st2.workers["a"].queue)
    empty = world_ab(nw, False, False, False, 0)
    for ws in empty.workers.values():
        ws.in_progress = []
    # accounting relative to an empty in_progress (rewind restarts everything)
    for ws in st.workers.values():
        ws.in_progress = []
    return rep_R1(st2) and rep_R2(st2) and n_before == n_after and _slot_accounting(st, st2, cmds)
