"""C28 — SQLite schema migrations converge from any earlier schema.

The REAL ``run_migrations`` (through each of its entry points: ``migrate.run_migrations(conn)``, the static
``SqliteWorkflowStore.run_migrations(path)``, the ``SqliteWorkflowStore(path)`` constructor with ``auto_migrate``; and, in the
``nolock`` connection mode, ``migrate.run_migrations`` on a ``SqliteWorkflowStore._open_nolock`` connection and the
``single_connection=True`` constructor) is executed on a per-path tmp database prepared from a symbolic start descriptor:

  kind 0  fresh      an empty database file
  kind 1  prefix k   what an earlier release that shipped only the first k migration files leaves behind: the REAL migrator run
                     with ``iter_migration_files`` truncated to the first k files (k = 0: only the bookkeeping table exists)
  kind 2  legacy k   the pre-``schema_migrations`` layout: the first k migration files executed, ``PRAGMA user_version = k``,
                     no bookkeeping table (this is exactly what the package's own tests/server/test_migrations.py builds)
  kind 3  released prefix k   as kind 1, but built from the migration files AS RELEASED at the pinned commit (a frozen copy under
                     harness/data/sqlite_migrations_released/), not from the tree's current files: a database that a deployed
                     release really left behind.  Editing an already-released migration file (moving a statement from a later
                     file into an earlier one, say) leaves kinds 1/2 self-consistent but strands these databases.
  kind 4  released legacy k   as kind 2 from the frozen released files

and then re-run ``reruns`` more times through a (symbolically chosen, possibly different) entry point.
Post: ``sqlite_master`` (type, name, table, whitespace-normalised SQL) and every table's ``PRAGMA table_info`` equal those of a
fresh database migrated once; ``schema_migrations`` holds exactly one row per version declared by the migration files present in
the current tree; a further run changes neither (``applied_at`` values included)."""
from __future__ import annotations

import vlib.boot  # noqa: F401
from vlib.boot import B
from vlib.ob import obligation
from vlib.paths import VERIF as _VERIF
from vlib.h_stores import TmpDir, pick_int, warm_sqlite

import logging
import os
import pathlib
import sqlite3

from llama_agents.server._store import SQLITE_MIGRATION_SOURCE
from llama_agents.server._store.migration_utils import iter_migration_files, parse_target_version
from llama_agents.server._store.sqlite import migrate as _mig
from llama_agents.server._store.sqlite.sqlite_workflow_store import SqliteWorkflowStore

ENCODED = [
    "llama_agents.server._store.sqlite.migrate:run_migrations",
    "llama_agents.server._store.sqlite.migrate:_bootstrap_schema_migrations",
    "llama_agents.server._store.migration_utils:iter_migration_files",
    "llama_agents.server._store.migration_utils:parse_target_version",
    "llama_agents.server._store.sqlite.sqlite_workflow_store:SqliteWorkflowStore.__init__",
    "llama_agents.server._store.sqlite.sqlite_workflow_store:SqliteWorkflowStore._run_migrations",
    "llama_agents.server._store.sqlite.sqlite_workflow_store:SqliteWorkflowStore.run_migrations",
    "llama_agents.server._store.sqlite.sqlite_workflow_store:SqliteWorkflowStore._open_nolock",
]
ASSUMES = [
    "the input space is tiny and finite: start kind (5) x k (0..number of migration files) x connection mode (2) x entry point of the "
    "first run (3 / 2) x number of further runs (1..RERUNS) x entry point of the further runs (3 / 2); the solver enumerates it completely (one path per "
    "combination) — this is complete enumeration of a small domain THROUGH the solver, not a symbolic argument about SQL: "
    "SQLite executes the DDL concretely inside each path and the DDL semantics are SQLite's (3.40.1 on this box)",
    "an 'earlier schema version' is (a) what the real migrator leaves when only the first k migration files exist, or (b) the "
    "legacy layout built the way the package's own test_migrations.py builds it (first k files executed, PRAGMA user_version=k, "
    "no schema_migrations table); the migration files are read from the current tree on every run, so a newly added file is covered",
    "kinds 3/4 take 'what a deployed release left behind' from a frozen copy of the migration files as shipped at the pinned commit "
    "(harness/data/sqlite_migrations_released/, byte-identical to git aacd163); files added to the tree later are not in the frozen set "
    "and are treated as unreleased (kinds 1/2 still cover them)",
    "the reference schema is the one obtained by migrating a fresh database once in the same path",
    "one database file is only ever opened in ONE connection mode (per-call connections, or the lock-free unix-none VFS of "
    "single_connection=True) — see OUTSIDE",
    "logging is disabled process-wide (LogRecord creation reads the wall clock, which CrossHair makes symbolic); log output is not observed",
    "tmp databases live on /dev/shm (tmpfs) when writable; journal_mode=WAL succeeds there, so the retry/sleep branch of "
    "run_migrations is not taken",
]
OUTSIDE = [
    "a database file migrated through an ordinary connection (which switches the file to journal_mode=WAL persistently) and later "
    "opened with single_connection=True: the unix-none VFS has no shared-memory support, every statement fails with "
    "'OperationalError: unable to open database file' (observed natively; it is a property of mixing the two connection modes on one "
    "file, not of the migration bookkeeping, and neither C28's nor C21's statement speaks about it)",
    "databases that no release could have produced (tables present but neither recorded nor user_version set; partially applied "
    "multi-statement migrations after a crash; user_version larger than the number of shipped migrations)",
    "preservation of row DATA across migrations; several migration packages in one database (sources=[...]); two processes "
    "migrating one file concurrently; the Postgres migrator",
]

warm_sqlite()
# Building a LogRecord reads time.time(), which CrossHair turns into a symbolic float and forks on (run_migrations logs on its
# WAL-fallback and failure branches).  Log output is not an observation of this property.
logging.disable(logging.CRITICAL)

_FILES = iter_migration_files(SQLITE_MIGRATION_SOURCE[1])
NMIG = len(_FILES)            # 4 at the pinned commit; read from the tree so a new migration file extends the bound
_RELEASED_DIR = pathlib.Path(_VERIF) / "harness" / "data" / "sqlite_migrations_released"
_RELEASED = sorted(_RELEASED_DIR.glob("*.sql"))     # frozen copy of the files shipped at the pinned commit (aacd163)
NREL = len(_RELEASED)
assert NREL >= 4, _RELEASED_DIR
RERUNS = B(1, 2)
ENTRIES = 3     # 0 migrate.run_migrations(conn)   1 SqliteWorkflowStore.run_migrations(path) (per-call mode only)   2 store constructor


def _versions():
    """versions declared by the migration files of the current tree, in file order (0 / missing headers are skipped by the migrator)"""
    out = []
    for p in iter_migration_files(SQLITE_MIGRATION_SOURCE[1]):
        v = parse_target_version(p.read_text()) or 0
        if v != 0:
            out.append(v)
    return out


def _conn(path: str, nolock: bool) -> sqlite3.Connection:
    return SqliteWorkflowStore._open_nolock(path) if nolock else sqlite3.connect(path, timeout=30.0)


def _migrate(path: str, entry: int, nolock: bool) -> None:
    """one run of the REAL migrator through entry point `entry` in connection mode `nolock`"""
    if entry == 0:
        conn = _conn(path, nolock)
        try:
            _mig.run_migrations(conn)
            conn.commit()
        finally:
            conn.close()
    elif entry == 1:
        SqliteWorkflowStore.run_migrations(path)          # per-call mode only (pre:)
    elif nolock:
        st = SqliteWorkflowStore(path, single_connection=True)
        assert st._persistent_conn is not None
        st._persistent_conn.close()
    else:
        SqliteWorkflowStore(path)


def _prepare(path: str, kind: int, k: int, nolock: bool) -> None:
    if kind == 0:
        sqlite3.connect(path).close()
        return
    if kind == 1 or kind == 3:
        real = _mig.iter_migration_files
        if kind == 1:
            _mig.iter_migration_files = lambda pkg: real(pkg)[:k]   # an earlier release: only the first k files are shipped
        else:
            _mig.iter_migration_files = lambda pkg: list(_RELEASED[:k])   # ... with the files as they were released
        try:
            conn = _conn(path, nolock)
            try:
                _mig.run_migrations(conn)
                conn.commit()
            finally:
                conn.close()
        finally:
            _mig.iter_migration_files = real
        return
    conn = sqlite3.connect(path)
    try:
        for p in (iter_migration_files(SQLITE_MIGRATION_SOURCE[1]) if kind == 2 else _RELEASED)[:k]:
            conn.executescript(p.read_text())
        conn.execute("PRAGMA user_version=%d" % k)
        conn.commit()
    finally:
        conn.close()


def _norm(sql):
    return None if sql is None else " ".join(sql.split())


def _schema(path: str):
    """(sqlite_master rows with normalised SQL, per-table column descriptions)"""
    conn = sqlite3.connect(path)
    try:
        master = [(t, n, tn, _norm(s)) for (t, n, tn, s) in
                  conn.execute("SELECT type, name, tbl_name, sql FROM sqlite_master ORDER BY type, name").fetchall()]
        cols = []
        for (t, n, _tn, _s) in master:
            if t == "table":
                cols.append((n, [tuple(r) for r in conn.execute('PRAGMA table_info("%s")' % n).fetchall()]))
        return master, cols
    finally:
        conn.close()


def _book(path: str):
    conn = sqlite3.connect(path)
    try:
        return [tuple(r) for r in conn.execute("SELECT package, version, applied_at FROM schema_migrations ORDER BY package, version, applied_at").fetchall()]
    finally:
        conn.close()


@obligation(quick=150, thorough=400,
            partitions_quick=["kind == 0"] + [f"kind == {kd} and k {c} 2" for kd in (1, 2, 3, 4) for c in ("<=", ">")],
            partitions_thorough=["kind == 0"] + [f"kind == {kd} and k == {k}" for kd in (1, 2, 3, 4) for k in range(max(NMIG, NREL) + 1)],
            what="run_migrations from {fresh, first-k-migrations release, legacy user_version=k, the same two built from the frozen AS-RELEASED migration files} through any entry point, then re-run: final schema == fresh-migrated schema, "
                 "schema_migrations has each declared version exactly once, further runs change nothing",
            bounds={"kind": "fresh / prefix / legacy / released prefix / released legacy", "k": "0..NMIG (all migration files of the current tree)", "connection mode": "per-call / single_connection (unix-none VFS)",
                    "entry points": "3 resp. 2 (first run) x 3 resp. 2 (re-runs)", "re-runs": "1..RERUNS"})
def ob_migrations_converge(kind: int, k: int, nolock: bool, e1: int, reruns: int, e2: int) -> bool:
    """
    pre: 0 <= kind <= 4 and 0 <= k and (kind != 0 or k == 0)
    pre: (k <= NMIG if kind <= 2 else k <= NREL)
    pre: 0 <= e1 < ENTRIES and 0 <= e2 < ENTRIES and 1 <= reruns <= RERUNS
    pre: not (nolock and (e1 == 1 or e2 == 1))
    post: _
    """
    kind = pick_int(kind, 0, 4)
    k = pick_int(k, 0, max(NMIG, NREL))
    e1 = pick_int(e1, 0, ENTRIES - 1)
    e2 = pick_int(e2, 0, ENTRIES - 1)
    reruns = pick_int(reruns, 1, RERUNS)
    with TmpDir() as d:
        ref = os.path.join(d, "ref.db")
        sqlite3.connect(ref).close()
        _migrate(ref, 0, False)
        want_schema = _schema(ref)
        want_versions = [("server", v) for v in sorted(_versions())]
        if [r[:2] for r in _book(ref)] != want_versions:
            return False

        path = os.path.join(d, "s.db")
        _prepare(path, kind, k, nolock)
        _migrate(path, e1, nolock)
        got_schema = _schema(path)
        book = _book(path)
        if got_schema != want_schema:
            return False
        if [r[:2] for r in book] != want_versions:      # every version recorded, each exactly once
            return False
        for _ in range(reruns):
            _migrate(path, e2, nolock)
            if _schema(path) != got_schema or _book(path) != book:   # a further run changes nothing
                return False
    return True


# ------------------------------------------------------------------------------------------------ several migration packages
# The DBOS runtime migrates one database with TWO sources: [server, dbos] (llama_agents/dbos/runtime.py).  A database that the plain
# server store created (server migrations complete, dbos ones never applied) and that the DBOS runtime opens later is one of the
# "earlier schema versions" of that deployment.

h_idle_import_error = None
try:
    from vlib import h_idle as _h_idle

    _h_idle.ensure_dbos_importable()
    from llama_agents.dbos._store import SQLITE_MIGRATION_SOURCE as _DBOS_SOURCE
except Exception as _e:  # noqa: BLE001
    _DBOS_SOURCE = None
    h_idle_import_error = repr(_e)

_BOTH = [SQLITE_MIGRATION_SOURCE, _DBOS_SOURCE] if _DBOS_SOURCE is not None else None
NDBOS = len(iter_migration_files(_DBOS_SOURCE[1])) if _DBOS_SOURCE is not None else 0


def _migrate_both(path: str, sources, commit: bool = True) -> None:
    """commit=False is exactly what DBOSRuntime.run_migrations does: sqlite3.connect(db_path); run_migrations(conn, sources); conn.close()"""
    conn = sqlite3.connect(path, timeout=30.0) if commit else sqlite3.connect(path)
    try:
        _mig.run_migrations(conn, sources)
        if commit:
            conn.commit()
    finally:
        conn.close()


def _book_all(path: str):
    conn = sqlite3.connect(path)
    try:
        return [tuple(r) for r in conn.execute("SELECT package, version FROM schema_migrations ORDER BY package, version").fetchall()]
    finally:
        conn.close()


@obligation(quick=150, thorough=300,
            partitions_quick=["kind <= 1", "kind == 2", "kind >= 3"],
            what="two migration packages in one database, as the DBOS runtime runs them (sources = [server, dbos]): from a fresh file, from a "
                 "server-only database at any server version (bookkept or legacy user_version, current or as-released files), or from a "
                 "database where only the first j dbos migrations were applied — run_migrations(conn, [server, dbos]) ends with the schema "
                 "and the bookkeeping rows of a fresh database migrated with both sources — durably, whether the caller commits afterwards or just "
                 "closes the connection as the DBOS runtime does — and a re-run changes nothing",
            bounds={"start": "fresh / server prefix k / legacy k / released prefix k / released legacy k, then dbos prefix j", "k": "0..NMIG", "j": "0..NDBOS"})
def ob_two_sources(kind: int, k: int, j: int, commit: bool = True) -> bool:
    """
    pre: _BOTH is not None
    pre: 0 <= kind <= 4 and 0 <= k and (kind != 0 or k == 0) and (k <= NMIG if kind <= 2 else k <= NREL) and 0 <= j <= NDBOS
    pre: j == 0 or (kind != 0 and k == (NMIG if kind <= 2 else NREL))
    post: _
    """
    kind = pick_int(kind, 0, 4)
    k = pick_int(k, 0, max(NMIG, NREL))
    j = pick_int(j, 0, NDBOS)
    commit = True if commit else False      # False: the caller closes the connection without committing (the DBOS runtime's entry point)
    with TmpDir() as d:
        ref = os.path.join(d, "ref.db")
        sqlite3.connect(ref).close()
        _migrate_both(ref, _BOTH)
        want_schema, want_book = _schema(ref), _book_all(ref)
        path = os.path.join(d, "s.db")
        _prepare(path, kind, k, False)
        if j > 0:
            # an earlier dbos release: server complete, only the first j dbos files shipped
            real = _mig.iter_migration_files
            _mig.iter_migration_files = lambda pkg: real(pkg)[:j] if pkg == _DBOS_SOURCE[1] else real(pkg)
            try:
                _migrate_both(path, _BOTH)
            finally:
                _mig.iter_migration_files = real
        _migrate_both(path, _BOTH, commit)
        got_schema, got_book = _schema(path), _book_all(path)       # read through NEW connections: only what is durable counts
        if got_schema != want_schema or got_book != want_book:
            return False
        _migrate_both(path, _BOTH, commit)
        return _schema(path) == got_schema and _book_all(path) == got_book
