"""C27 — DBOS recovery replays a run to the same execution (the part of it that is this repository's code).

What the statement needs from THIS repository is the journal-directed ``InternalDBOSAdapter.wait_for_next_task`` with the
``TaskJournal`` over ``SqliteJournalCrud``: task completions are recorded in order while a run executes freshly, and a
recovered control loop is handed the tasks in exactly the recorded order however the re-executed tasks happen to finish.
Everything else the statement rests on (memoised step outputs, durable ``recv`` / ``send`` / streams, durable time, workflow
recovery itself) is the third-party DBOS engine, which is not installed here: that half is OUTSIDE and stated as such.

The REAL ``InternalDBOSAdapter`` (``llama_agents/dbos/runtime.py``, imported over name-only shims of dbos / sqlalchemy /
asyncpg), the REAL ``TaskJournal`` and the REAL ``SqliteJournalCrud`` run over a temporary sqlite file whose journal table comes
from the package's own migration SQL, on ``vlib.miniloop.MiniLoop`` (virtual time).  One scenario = three process images:

  A  original process: three tasks (two workers, one pull) are started, a fourth worker is started after the first
     completion; their (distinct) completion instants are symbolic.  The process stops after ``k`` completions were
     recorded (k symbolic, 0..4).
  B  recovery: a fresh adapter over the same journal table, the same tasks re-created (the control loop is deterministic
     given the same completions), finishing in a DIFFERENT symbolic order.  The replayed part must come back in A's order,
     the rest in B's own completion order, recorded behind it.
  C  a second recovery over the journal B left: everything is replayed, with the tasks finishing in the reverse order.

``wait_for_next_task`` is called with ``timeout=None`` or with a 1-second timeout (symbolic): a timeout during replay must
not consume a journal entry.
"""
from __future__ import annotations

import vlib.boot  # noqa: F401
from vlib.boot import B
from vlib.ob import obligation

import asyncio
import os
import sqlite3
import types
from typing import Any, List, Optional, Union

from vlib import h_idle
from vlib.h_idle import concrete
from vlib.h_stores import TmpDir, warm_sqlite
from vlib.miniloop import MiniLoop

h_idle.install_speedups()
h_idle.ensure_dbos_importable()

import llama_agents.dbos.runtime as _rt  # noqa: E402
from llama_agents.dbos.journal.crud import SqliteJournalCrud  # noqa: E402
from llama_agents.dbos.journal.task_journal import TaskJournal  # noqa: E402
from workflows import Context, Workflow, step  # noqa: E402
from workflows.events import Event, StartEvent, StopEvent  # noqa: E402
from workflows.plugins.basic import BasicRuntime, InternalAsyncioAdapter  # noqa: E402
from workflows.runtime.types.named_task import PendingPull, PendingWorker  # noqa: E402

ENCODED = [
    "llama_agents.dbos.runtime:InternalDBOSAdapter.wait_for_next_task",
    "llama_agents.dbos.runtime:InternalDBOSAdapter._get_or_create_journal",
    "llama_agents.dbos.runtime:InternalDBOSAdapter._purge_orphaned_operations",
    "llama_agents.dbos.runtime:InternalDBOSAdapter.is_replaying",
    "llama_agents.dbos.journal.task_journal:TaskJournal.load",
    "llama_agents.dbos.journal.task_journal:TaskJournal.next_expected_key",
    "llama_agents.dbos.journal.task_journal:TaskJournal.record",
    "llama_agents.dbos.journal.task_journal:TaskJournal.advance",
    "llama_agents.dbos.journal.task_journal:TaskJournal.purge_stale",
    "llama_agents.dbos.journal.crud:SqliteJournalCrud",
    "workflows.runtime.types.named_task:find_by_key",
    "workflows.runtime.types.named_task:get_key",
]
ASSUMES = [
    "dbos, sqlalchemy and asyncpg are NAME-ONLY shims (/verif/shims): llama_agents/dbos/runtime.py imports, "
    "@DBOS.step()/@DBOS.workflow() return the function unchanged, every other use raises a BaseException; the adapter is built "
    "with db_path=<tmp sqlite file> and no pool, exactly the sqlite branch of _get_or_create_journal",
    "ENVIRONMENT STUB for the DBOS context: runtime.get_local_dbos_context() returns an object whose function_id is a fixed number; "
    "DBOS's system table operation_outputs exists with (workflow_uuid, function_id) columns and a few rows",
    "the journal table is created from the package's own sqlite migration SQL (0001_init.sql of llama_agents/dbos/_store)",
    "a recovered control loop re-creates the same named tasks in the same rounds (it is a deterministic function of the "
    "completions it is handed — that determinism is property C11); what differs in a recovery is only WHEN each task finishes",
    "completion instants within one process image are pairwise distinct (asyncio.wait hands back a SET when several tasks finish "
    "in one loop iteration and the adapter takes set.pop(): which one is recorded is then arbitrary — recorded all the same, but "
    "not reproducible between the solver run and the native replay)",
    "asyncio scheduling = vlib.miniloop.MiniLoop (FIFO ready queue, virtual clock)",
]
OUTSIDE = [
    "the DBOS engine itself: memoisation of step outputs, durable recv/send/streams, _durable_time, workflow recovery and "
    "executor leases — so 'produces the same ticks and published events' and 'reaches the same result' are decided here only as "
    "far as they follow from the completion order (the control loop being a deterministic fold of it: C11)",
    "PostgresJournalCrud (asyncpg); more than 4 tasks / 3 process images; a process stop between asyncio.wait returning and "
    "journal.record (nothing was recorded: the recovery treats that completion as fresh)",
]

warm_sqlite()

KW = 10   # journal entries of the whole-run workflow are cut at 0..KW (it records fewer than that: larger k = nothing cut)
_MIG = os.path.join(h_idle.DBOS_DIR, "_store", "sqlite", "migrations", "0001_init.sql")
RUN = "run1"
KEYS = ["a:0", "b:0", "__pull__:0", "c:0"]
PERMS = [(0, 1, 2), (0, 2, 1), (1, 0, 2), (1, 2, 0), (2, 0, 1), (2, 1, 0)]
FID = 3


def _make_db(path: str) -> None:
    conn = sqlite3.connect(path)
    try:
        with open(_MIG) as f:
            conn.executescript(f.read())
        conn.execute("CREATE TABLE IF NOT EXISTS operation_outputs (workflow_uuid TEXT, function_id INTEGER, output TEXT)")
        for fid in range(1, 7):
            conn.execute("INSERT INTO operation_outputs VALUES (?, ?, ?)", (RUN, fid, "x"))
        conn.commit()
    finally:
        conn.close()


def _rows(path: str) -> List[Any]:
    conn = sqlite3.connect(path)
    try:
        return [tuple(r) for r in conn.execute("SELECT seq_num, task_key FROM workflow_journal WHERE run_id = ? ORDER BY seq_num", (RUN,))]
    finally:
        conn.close()


async def _image(path: str, delays: List[int], late: int, stop_after: Optional[int], tmo: Optional[int], log: List[str],
                 flags: List[Any]) -> None:
    """One process image: a fresh adapter over the journal at `path`; tasks 0..2 started in the first round, task 3 (worker c)
    in the round after the first completion; task i finishes `delays[i]` after it was started (task 3: `late`)."""
    ad = _rt.InternalDBOSAdapter(RUN, engine=None, db_path=path)  # type: ignore[arg-type]

    async def body(d: int, key: str) -> str:
        await asyncio.sleep(d)
        return key

    pending: List[Any] = [PendingWorker("a", 0, body(delays[0], KEYS[0])), PendingWorker("b", 0, body(delays[1], KEYS[1])),
                          PendingPull(0, body(delays[2], KEYS[2]))]
    running: List[Any] = []
    started_late = False
    guard = 0
    while (stop_after is None or len(log) < stop_after) and len(log) < 4 and guard < 40:
        guard += 1
        if ad._journal is not None:                    # (created lazily by the first wait)
            flags.append((len(log), ad.is_replaying()))
        try:
            res = await ad.wait_for_next_task(running, pending, timeout=tmo)
        except asyncio.CancelledError:
            # nobody cancelled this image: the adapter let a cancellation of one of the tasks it waits for escape (or cancelled one itself)
            log.append("?adapter-raised-CancelledError")
            break
        running = running + list(res.started)
        pending = []
        if res.completed is None:
            continue                                   # timed out: nothing may have been consumed
        done = [nt for nt in running if nt.task is res.completed]
        if len(done) != 1:
            log.append("?unknown-task")
            break
        log.append(done[0].key)
        running = [nt for nt in running if nt.task is not res.completed]
        if not started_late:
            started_late = True
            pending = [PendingWorker("c", 0, body(late, KEYS[3]))]
    if ad._journal is not None:
        flags.append((len(log), ad.is_replaying()))
    for nt in running:                                 # the process stops: whatever still runs is gone
        nt.task.cancel()
    for p in pending:
        p.coro.close()
    await asyncio.sleep(0)


def _scenario(pa: int, la: int, pb: int, lb: int, k: int, tm: bool) -> List[str]:
    """returns the list of reasons the scenario violates the statement (empty = holds)"""
    bad: List[str] = []
    saved = _rt.get_local_dbos_context
    _rt.get_local_dbos_context = lambda: types.SimpleNamespace(function_id=FID)
    try:
        with TmpDir() as d:
            path = os.path.join(d, "dbos.sqlite")
            _make_db(path)
            tmo = 1 if tm else None
            # distinct instants: the three first-round tasks finish at 1 + 2*rank, the late one at an even offset after
            # the first completion (so it never ties with a first-round task)
            da = [1 + 2 * PERMS[pa].index(i) for i in range(3)]
            db = [1 + 2 * PERMS[pb].index(i) for i in range(3)]
            log_a: List[str] = []
            log_b: List[str] = []
            log_c: List[str] = []
            fl_a: List[Any] = []
            fl_b: List[Any] = []
            fl_c: List[Any] = []

            loop = MiniLoop()
            loop.run_until_complete(_image(path, da, 2 * la + 1, k, tmo, log_a, fl_a))
            rows_a = _rows(path)
            if [r[1] for r in rows_a] != log_a or [r[0] for r in rows_a] != list(range(len(log_a))):
                bad.append(f"A: journal rows {rows_a} != completions handed to the control loop {log_a}")
            if len(log_a) != k:
                bad.append(f"A: {len(log_a)} completions before the stop, wanted {k}")

            loop = MiniLoop()
            loop.run_until_complete(_image(path, db, 2 * lb + 1, None, tmo, log_b, fl_b))
            if log_b[:k] != log_a:
                bad.append(f"B: replayed part {log_b[:k]} != recorded order {log_a}")
            if sorted(log_b) != sorted(KEYS):
                bad.append(f"B: completions {log_b} are not each task exactly once")
            rows_b = _rows(path)
            if [r[1] for r in rows_b] != log_b or [r[0] for r in rows_b] != list(range(len(log_b))):
                bad.append(f"B: journal rows {rows_b} != completions handed to the control loop {log_b}")

            # second recovery: everything finishes in the reverse of the recorded order
            dc = [0, 0, 0]
            lc = 0
            if sorted(log_b) == sorted(KEYS):
                first3 = [x for x in log_b if x != KEYS[3]]
                for rank, key in enumerate(reversed(first3)):
                    dc[KEYS.index(key)] = 1 + 2 * rank
            loop = MiniLoop()
            loop.run_until_complete(_image(path, dc, lc, None, tmo, log_c, fl_c))
            if log_c != log_b:
                bad.append(f"C: second recovery handed {log_c}, journal says {log_b}")
            if _rows(path) != rows_b:
                bad.append(f"C: a pure replay changed the journal: {_rows(path)} != {rows_b}")
            # is_replaying() (what makes the server runtime skip re-publishing / status writes) is true exactly while recorded
            # completions are left to hand out
            for name, fl, recorded in (("A", fl_a, 0), ("B", fl_b, k), ("C", fl_c, len(log_b))):
                wrong = [(n, f) for (n, f) in fl if f != (n < recorded)]
                if wrong:
                    bad.append(f"{name}: is_replaying() wrong at (completions handed out, flag) {wrong} with {recorded} recorded")
    finally:
        _rt.get_local_dbos_context = saved
    return bad


def _debug(tag: str, bad: List[str]) -> None:
    if bad and os.environ.get("VERIF_DEBUG"):
        import sys

        sys.stderr.write(f"[{tag}] " + "\n    ".join(bad) + "\n")


@obligation(quick=300, thorough=600,
            partitions_quick=[f"k == {k}" for k in range(5)],
            partitions_thorough=[f"k == {k} and tm == {t}" for k in range(5) for t in (True, False)],
            what="journal-directed wait_for_next_task over the real TaskJournal + SqliteJournalCrud: a process records k completions "
                 "and stops; a recovery whose re-created tasks finish in ANY other order is handed the first k completions in the "
                 "recorded order, the rest in its own order and recorded behind them (rows contiguous, each task once); a second "
                 "recovery with the tasks finishing in reverse replays the whole journal unchanged; a timed-out wait consumes nothing",
            bounds={"tasks": "3 in the first round (2 workers, 1 pull) + 1 worker started after the first completion",
                    "completion orders": "all 6 x 2 in the original process, all 6 x 2 in the recovery", "stop after k completions": "0..4",
                    "timeout": "None / 1 s", "process images": 3})
def ob_journal_directed_order(pa: int, la: int, pb: int, lb: int, k: int, tm: bool) -> bool:
    """
    pre: 0 <= pa <= 5 and 0 <= pb <= 5 and 0 <= la <= LMAX and 0 <= lb <= LMAX and 0 <= k <= 4
    post: _
    """
    pa = concrete(pa, 0, 5)
    pb = concrete(pb, 0, 5)
    la = concrete(la, 0, LMAX)
    lb = concrete(lb, 0, LMAX)
    k = concrete(k, 0, 4)
    tm = bool(tm)
    bad = _scenario(pa, la, pb, lb, k, tm)
    _debug(f"journal pa={pa} la={la} pb={pb} lb={lb} k={k} tm={tm}", bad)
    return not bad


LMAX = B(1, 2)


# ------------------------------------------------------------------------------------------------ whole control loop
# The REAL control loop (Workflow.run -> BasicRuntime -> control_loop -> step workers) with the journal-directed wait of the
# REAL InternalDBOSAdapter in place of the asyncio adapter's: everything DBOS itself would do (mailbox, streams, time) stays
# the in-memory asyncio adapter = ENVIRONMENT STUB for the engine; re-executing a deterministic step stands for DBOS handing
# back its memoised output.

class EvA(Event):
    pass


class EvB(Event):
    pass


class EvC(Event):
    pass


class Done(Event):
    who: str


class FanWF(Workflow):
    """fan-out to three workers with image-specific durations, order-sensitive join"""

    def __init__(self, durations: Any, **kw: Any) -> None:
        super().__init__(**kw)
        self.d = durations
        self.calls: List[str] = []

    @step
    async def fan(self, ctx: Context, ev: StartEvent) -> Union[EvA, EvB, EvC, None]:
        self.calls.append("fan")
        ctx.send_event(EvB())
        ctx.send_event(EvC())
        return EvA()

    @step
    async def wa(self, ctx: Context, ev: EvA) -> Done:
        await asyncio.sleep(self.d[0])
        return Done(who="a")

    @step
    async def wb(self, ctx: Context, ev: EvB) -> Done:
        await asyncio.sleep(self.d[1])
        return Done(who="b")

    @step
    async def wc(self, ctx: Context, ev: EvC) -> Done:
        await asyncio.sleep(self.d[2])
        return Done(who="c")

    @step(num_workers=1)
    async def join(self, ctx: Context, ev: Done) -> Optional[StopEvent]:
        got = ctx.collect_events(ev, [Done, Done, Done])
        if got is None:
            return None
        return StopEvent(result="".join(g.who for g in got))


def _describe(tick: Any) -> Any:
    t = getattr(tick, "type", type(tick).__name__)
    if t == "step_result":
        return (t, tick.step_name, tick.worker_id, type(tick.event).__name__,
                tuple(type(getattr(r, "result", None)).__name__ + ":" + str(getattr(getattr(r, "result", None), "who", "")) for r in tick.result))
    if t == "add_event":
        return (t, type(tick.event).__name__, getattr(tick.event, "who", ""), tick.step_name)
    return (t,)


class _JournalAdapter(InternalAsyncioAdapter):
    """the asyncio adapter with the DBOS adapter's journal-directed wait (and is_replaying) grafted on; records ticks"""

    def __init__(self, base: InternalAsyncioAdapter, dbos_adapter: Any, ticks: List[Any]) -> None:
        self.__dict__.update(base.__dict__)
        self._dbos = dbos_adapter
        self._ticks = ticks

    async def wait_for_next_task(self, running: Any, pending: Any, timeout: Any = None) -> Any:
        return await _rt.InternalDBOSAdapter.wait_for_next_task(self._dbos, running, pending, timeout)

    def is_replaying(self) -> bool:
        return self._dbos.is_replaying()

    async def on_tick(self, tick: Any) -> None:
        self._ticks.append(_describe(tick))
        await super().on_tick(tick)


class _JournalRuntime(BasicRuntime):
    def __init__(self, path: str, ticks: List[Any]) -> None:
        super().__init__()
        self._path, self._ticks = path, ticks

    def get_internal_adapter(self, workflow: Any) -> Any:
        dbos_adapter = _rt.InternalDBOSAdapter(RUN, engine=None, db_path=self._path)  # type: ignore[arg-type]
        return _JournalAdapter(super().get_internal_adapter(workflow), dbos_adapter, self._ticks)


def _run_image(path: str, durations: List[int]) -> Any:
    """one process image: a fresh runtime/adapter/workflow object over the journal at `path`, run to completion"""
    ticks: List[Any] = []
    out: List[Any] = []

    async def main() -> None:
        wf = FanWF(durations, timeout=None, runtime=_JournalRuntime(path, ticks))
        out.append(await wf.run(run_id=RUN))

    MiniLoop().run_until_complete(main())
    return ticks, out[0]


def _truncate(path: str, k: int) -> None:
    conn = sqlite3.connect(path)
    try:
        conn.execute("DELETE FROM workflow_journal WHERE run_id = ? AND seq_num >= ?", (RUN, k))
        conn.commit()
    finally:
        conn.close()


def _worker_order(keys: List[str]) -> str:
    return "".join(k[1] for k in keys if k in ("wa:0", "wb:0", "wc:0"))


def _whole_scenario(pa: int, pb: int, k: int) -> List[str]:
    bad: List[str] = []
    saved = _rt.get_local_dbos_context
    _rt.get_local_dbos_context = lambda: types.SimpleNamespace(function_id=FID)
    try:
        with TmpDir() as d:
            path = os.path.join(d, "dbos.sqlite")
            _make_db(path)
            da = [1 + 2 * PERMS[pa].index(i) for i in range(3)]
            db = [1 + 2 * PERMS[pb].index(i) for i in range(3)]
            ticks_a, res_a = _run_image(path, da)                 # the uninterrupted run
            rows_a = [r[1] for r in _rows(path)]
            want_a = "".join("abc"[i] for i in PERMS[pa])
            if res_a != want_a or _worker_order(rows_a) != want_a:
                bad.append(f"A: result {res_a!r} / journal {rows_a} do not reflect the completion order {want_a}")
            k = min(k, len(rows_a))
            _truncate(path, k)                                    # the process had stopped after k recorded completions
            ticks_b, res_b = _run_image(path, db)                 # recovery, other finishing order
            rows_b = [r[1] for r in _rows(path)]
            if rows_b[:k] != rows_a[:k]:
                bad.append(f"B: journal prefix rewritten: {rows_b[:k]} != {rows_a[:k]}")
            if sorted(rows_b) != sorted(rows_a):
                bad.append(f"B: journal {rows_b} is not the uninterrupted run's multiset {rows_a}")
            if res_b != _worker_order(rows_b):
                bad.append(f"B: result {res_b!r} != order of the journal {rows_b}")
            # the replayed part: ticks up to and including the last replayed step-result tick are the uninterrupted run's
            def upto(ticks: List[Any], n: int) -> List[Any]:
                seen, out = 0, []
                for t in ticks:
                    if seen >= n:
                        break
                    out.append(t)
                    if t[0] == "step_result":
                        seen += 1
                return out
            nw = len([x for x in rows_a[:k] if not x.startswith("__pull__")])   # worker completions among the k recorded ones
            if upto(ticks_b, nw) != upto(ticks_a, nw):
                bad.append(f"B: replayed ticks {upto(ticks_b, nw)} != uninterrupted {upto(ticks_a, nw)}")
            if k >= len(rows_a) and (ticks_b != ticks_a or res_b != res_a):
                bad.append(f"B: full replay differs: result {res_b!r} vs {res_a!r}")
            dc = [0, 0, 0]
            order_b = _worker_order(rows_b)
            if sorted(order_b) == ["a", "b", "c"]:
                for rank, who in enumerate(reversed(order_b)):
                    dc["abc".index(who)] = 1 + 2 * rank
            ticks_c, res_c = _run_image(path, dc)                 # second recovery: pure replay, reverse finishing order
            if ticks_c != ticks_b or res_c != res_b:
                bad.append(f"C: pure replay gave result {res_c!r} / ticks {ticks_c}, recorded run {res_b!r} / {ticks_b}")
            if [r[1] for r in _rows(path)] != rows_b:
                bad.append("C: a pure replay changed the journal")
    finally:
        _rt.get_local_dbos_context = saved
    return bad


@obligation(quick=300, thorough=600,
            partitions_quick=[f"pa == {p} and k {c}" for p in range(6) for c in ("<= 4", ">= 5")],
            partitions_thorough=[f"pa == {p} and k == {k}" for p in range(6) for k in range(KW + 1)],
            what="the REAL control loop with the journal-directed wait of the real InternalDBOSAdapter (journal on sqlite): a fan-out / "
                 "order-sensitive join workflow runs uninterrupted (any of 6 worker completion orders); the journal is cut after k "
                 "recorded completions; a recovery with any other worker timing reproduces the uninterrupted run's ticks for the "
                 "replayed part, keeps the journal prefix, finishes with the result its journal implies (the uninterrupted result when "
                 "everything was recorded); a second recovery with reverse timing reproduces ticks, result and journal exactly",
            bounds={"workflow": "fan -> 3 workers -> join (7 task completions, 2 mailbox pulls)", "completion orders": "6 x 6", "cut k": "0..KW",
                    "process images": 3})
def ob_recovered_run_same_execution(pa: int, pb: int, k: int) -> bool:
    """
    pre: 0 <= pa <= 5 and 0 <= pb <= 5 and 0 <= k <= KW
    post: _
    """
    pa = concrete(pa, 0, 5)
    pb = concrete(pb, 0, 5)
    k = concrete(k, 0, KW)
    bad = _whole_scenario(pa, pb, k)
    _debug(f"whole pa={pa} pb={pb} k={k}", bad)
    return not bad


# ----------------------------------------------------------------------------------------------- long journals
import llama_agents.dbos.journal.crud as _crud27  # noqa: E402
from llama_agents.dbos.journal.task_journal import TaskJournal as _TaskJournal27  # noqa: E402
from vlib.h_stores import pick_int as _pick_int27, untraced as _untraced27  # noqa: E402


def _sizes27() -> List[int]:
    """journal lengths to read back: small ones, and every length around a multiple of any size-like integer constant of the crud module (a
    page / batch size, if the reader has one) and around 256 / 500 / 1000"""
    consts = sorted({v for k, v in vars(_crud27).items() if isinstance(v, int) and not isinstance(v, bool) and 2 <= v <= 2000})
    out = {1, 2, 3}
    for p in consts + [256, 500, 1000]:
        for m in (1, 2):
            out.update({m * p - 1, m * p, m * p + 1, m * p + 2})
    return sorted(x for x in out if 1 <= x <= 2100)


_N27 = _sizes27()
NSEL27 = len(_N27)


@obligation(quick=300, thorough=600,
            what="a LONG journal (a run that processed hundreds of completions before the process stopped): the recovery's TaskJournal.load() "
                 "over the real SqliteJournalCrud hands back every recorded completion exactly once, in recorded order (neighbouring entries "
                 "differ, so a skipped, repeated or shifted entry is a different completion order); the last three entries are written through "
                 "the real TaskJournal.record, the bulk before them is inserted directly (the writer is covered by the other obligations)",
            bounds={"journal length": "1..3 and around 1x / 2x of {256, 500, 1000} and of every size-like integer constant of the crud module"})
def ob_long_journal_read_back(sel: int) -> bool:
    """
    pre: 0 <= sel < NSEL27
    post: _
    """
    n = _N27[_pick_int27(sel, 0, NSEL27 - 1)]
    with _untraced27():
        keys = ["%s:%d" % ("ab"[i % 2], i) for i in range(n)]
        with TmpDir() as d:
            path = os.path.join(d, "dbos.sqlite")
            _make_db(path)
            bulk = max(0, n - 3)
            conn = sqlite3.connect(path)
            try:
                conn.executemany("INSERT INTO workflow_journal (run_id, seq_num, task_key) VALUES (?, ?, ?)", [(RUN, i, keys[i]) for i in range(bulk)])
                conn.executemany("INSERT INTO workflow_journal (run_id, seq_num, task_key) VALUES (?, ?, ?)", [("other", i, "z:%d" % i) for i in range(3)])
                conn.commit()
            finally:
                conn.close()

            async def main() -> bool:
                writer = _TaskJournal27(RUN, _crud27.SqliteJournalCrud(path))
                await writer.load()
                if writer._entries != keys[:bulk]:
                    return False
                while writer.is_replaying():
                    writer.advance()
                for k in keys[bulk:]:
                    await writer.record(k)
                reader = _TaskJournal27(RUN, _crud27.SqliteJournalCrud(path))
                await reader.load()
                got = []
                while reader.is_replaying():
                    got.append(reader.next_expected_key())
                    reader.advance()
                return got == keys

            return MiniLoop().run_until_complete(main())
