"""C20 — concurrent state updates are never lost.

Two or three real asyncio tasks on ``vlib.miniloop.MiniLoop`` (virtual time, FIFO ready queue) update ONE store
through its public API; each task sleeps until its symbolic start instant ``t_i`` and then performs one operation:
``set(path, v)``, ``set_state(m)``, ``clear()`` or an ``edit_state`` block that reads, awaits ``asyncio.sleep(d_i)``
(symbolic duration) in the middle and writes back what it read (+1).  The instants are symbolic ints: the solver
enumerates every ordering (ties included) of starts and wake-ups.  The final state must equal the result of SOME
serial order of the same operations (<= 6 orders, computed on a plain dict written from the statement; one
edit_state block = one operation).  Both stores: InMemoryStateStore and SqliteStateStore (fresh migrated DB file per
call, constructed as SqliteWorkflowStore.create_state_store does)."""
from __future__ import annotations

import vlib.boot  # noqa: F401
from vlib.boot import B, drive
from vlib.ob import obligation

import asyncio
from typing import Any, Dict, List

from vlib import h_state
from vlib.h_state import TState, SqliteEnv, TChild, cint, deq, to_plain, untraced
from vlib.miniloop import MiniLoop

from workflows.context.state_store import DictState, InMemoryStateStore

ENCODED = [
    "workflows.context.state_store:InMemoryStateStore.set_state",
    "workflows.context.state_store:InMemoryStateStore.set",
    "workflows.context.state_store:InMemoryStateStore.get",
    "workflows.context.state_store:InMemoryStateStore.clear",
    "workflows.context.state_store:InMemoryStateStore.edit_state",
    "workflows.context.state_store:InMemoryStateStore._lock",
    "llama_agents.server._store.sqlite.sqlite_state_store:SqliteStateStore.set_state",
    "llama_agents.server._store.sqlite.sqlite_state_store:SqliteStateStore.set",
    "llama_agents.server._store.sqlite.sqlite_state_store:SqliteStateStore.get",
    "llama_agents.server._store.sqlite.sqlite_state_store:SqliteStateStore.clear",
    "llama_agents.server._store.sqlite.sqlite_state_store:SqliteStateStore.edit_state",
    "llama_agents.server._store.sqlite.sqlite_state_store:SqliteStateStore._lock",
    "llama_agents.server._store.sqlite.sqlite_state_store:SqliteStateStore._load_state",
    "llama_agents.server._store.sqlite.sqlite_state_store:SqliteStateStore._save_state",
]
ASSUMES = [
    "scheduler = vlib.miniloop.MiniLoop: asyncio's FIFO ready queue and timer heap with a virtual clock; real "
    "asyncio.Task / Lock / sleep / gather run on it; interleaving happens only at await points (single event loop), "
    "which is the statement's quantifier ('all interleavings of concurrent store operations at their await points')",
    "start instants t_i and edit durations d_i are small ints (0..TMAX); every symbolic instant is forked to its "
    "concrete value (cint) before the loop runs, so the solver enumerates all orderings, ties included; the loop and "
    "the stores then run with CrossHair's opcode tracing suspended (they only see concrete values)",
    "SqliteStateStore's async methods do not suspend except on its asyncio.Lock (sqlite3 is called synchronously, no "
    "executor), so one event loop sees every interleaving there is; several processes / connections are outside",
    "serial reference: plain dict; set = assign key, set_state = replace, clear = type defaults, edit_state block = "
    "atomic read-modify-write",
    "sqlite_state_store._utc_now pinned; DB image from the real migrations (see C19)",
]
OUTSIDE = ["more than 3 concurrent tasks", "instants > TMAX", "multi-process / multi-connection access to the same run",
           "exceptions or cancellation inside an edit_state block"]

h_state.ensure_template()

TMAX = B(2, 3)
ST_MEM, ST_SQL = 0, 1
OP_SET, OP_SET_STATE, OP_EDIT, OP_CLEAR, OP_SET_PARENT = 0, 1, 2, 3, 4
NOPS = B(3, 4)


def _const(i: int) -> int:
    return 10 * (i + 1)


# ---- reference (from the statement): one operation applied atomically to a plain dict ---------------------------


def ref_apply(state: Dict[str, Any], typed: bool, kind: int, i: int) -> Dict[str, Any]:
    c = _const(i)
    if kind == OP_SET:
        out = dict(state)
        out["a" if typed else "x"] = c
        return out
    if kind == OP_SET_STATE:
        if typed:
            return {"a": c, "b": [i], "c": {}, "n": 7}
        return {"x": c, "z": i}
    if kind == OP_CLEAR:
        return {"a": None, "b": [], "c": {}, "n": 7} if typed else {}
    if kind == OP_SET_PARENT:      # typed only: a state of the PARENT type replaces the parent's fields, child-only fields stay
        out = dict(state)
        out["a"], out["b"] = c, [i]
        return out
    out = dict(state)
    if typed:
        out["n"] = out["n"] + 1
        out["b"] = list(out["b"]) + [c]
    else:
        out["x"] = out.get("x", 0) + 1
        out["y"] = out.get("y", 0) + c
    return out


def _perms(n: int) -> List[List[int]]:
    if n == 2:
        return [[0, 1], [1, 0]]
    return [[0, 1, 2], [0, 2, 1], [1, 0, 2], [1, 2, 0], [2, 0, 1], [2, 1, 0]]


def serial_results(init: Dict[str, Any], typed: bool, kinds: List[int]) -> List[Dict[str, Any]]:
    out = []
    for order in _perms(len(kinds)):
        s = dict(init)
        for i in order:
            s = ref_apply(s, typed, kinds[i], i)
        out.append(s)
    return out


# ---- the real operations ------------------------------------------------------------------------------------------


async def _op(store: Any, typed: bool, kind: int, i: int, t: int, d: int) -> None:
    await asyncio.sleep(t)
    c = _const(i)
    if kind == OP_SET:
        await store.set("a" if typed else "x", c)
    elif kind == OP_SET_STATE:
        await store.set_state(TChild(a=c, b=[i]) if typed else DictState(x=c, z=i))
    elif kind == OP_CLEAR:
        await store.clear()
    elif kind == OP_SET_PARENT:
        await store.set_state(TState(a=c, b=[i]))
    else:
        async with store.edit_state() as s:
            if typed:
                n, b = s.n, list(s.b)
            else:
                x, y = s.get("x", 0), s.get("y", 0)
            await asyncio.sleep(d)  # the block is suspended here while other tasks run
            if typed:
                s.n = n + 1
                s.b = b + [c]
            else:
                s["x"] = x + 1
                s["y"] = y + c


def run_concurrently(st: int, typed: bool, kinds: List[int], ts: List[int], ds: List[int], per_task_store: bool = False, churn: int = 0,
                     shared_conn: bool = False) -> bool:
    init_plain: Dict[str, Any] = {"a": None, "b": [], "c": {}, "n": 7} if typed else {"x": 0, "y": 0}
    with SqliteEnv() as env:
        if st == ST_MEM:
            store: Any = InMemoryStateStore(TChild() if typed else DictState(x=0, y=0))
        else:
            store = env.store(TChild if typed else None)
            drive(store.set_state(TChild() if typed else DictState(x=0, y=0)))

        # per_task_store: every task works through its OWN store object for the run, which is what steps of one run get from the server
        # runtime over a SQLite workflow store (one create_state_store(run_id) per step invocation's adapter)
        stores = [env.store(TChild if typed else None) if (per_task_store and st == ST_SQL) else store for _ in kinds]
        if shared_conn and per_task_store and st == ST_SQL:
            # the AgentCore configuration: one SqliteWorkflowStore(single_connection=True) hands its connection to every state store it creates
            from llama_agents.server._store.sqlite.sqlite_workflow_store import SqliteWorkflowStore

            import os

            # its own database file, created by the store's own migrations through the lock-free connection
            ws = SqliteWorkflowStore(os.path.join(os.path.dirname(env.db), "single.db"), single_connection=True)
            stores = [ws.create_state_store("run-1", TChild if typed else None) for _ in kinds]
            store = ws.create_state_store("run-1", TChild if typed else None)
            drive(store.set_state(TChild() if typed else DictState(x=0, y=0)))

        async def late_store(i: int) -> Any:
            """churn > 0: the i-th task's store object is only created when the task starts (a step invocation's adapter is), and before
            that `churn` OTHER runs of the same database have used their state stores (a busy server)"""
            await asyncio.sleep(ts[i])
            for k in range(churn):
                other = env.store(None, run_id="other-%d-%d" % (i, k))
                other._lock  # noqa: B018 - what every operation of that run does first
            mine = env.store(TChild if typed else None)
            await _op(mine, typed, kinds[i], i, 0, ds[i])

        async def main() -> Any:
            if churn and st == ST_SQL:
                tasks = [asyncio.ensure_future(late_store(i)) for i in range(len(kinds))]
                await asyncio.gather(*tasks)
                return await store.get_state()
            tasks = [asyncio.ensure_future(_op(stores[i], typed, kinds[i], i, ts[i], ds[i])) for i in range(len(kinds))]
            await asyncio.gather(*tasks)
            return await store.get_state()

        final = to_plain(MiniLoop().run_until_complete(main()))
    for r in serial_results(init_plain, typed, kinds):
        if deq(final, r):
            return True
    return False


def lands_inside(ke: int, te: int, de: int, kw: int, tw: int) -> bool:
    """Task (ke, te, de) is an edit_state block and the unlocked writer (kw, tw) — set_state or clear — starts while
    the block is suspended (closed interval: ties are scheduler-order dependent).  Pure int arithmetic for `exclude`."""
    return ke == 2 and (kw == 1 or kw == 3) and te <= tw and tw <= te + de


@obligation(quick=150, thorough=600, partitions_quick=[f"st == {s}" for s in (0, 1)],
            partitions_thorough=[f"st == {s} and typed == {t}" for s in (0, 1) for t in (0, 1)],
            what="two concurrent tasks (set / set_state / edit_state with a suspension inside [/ clear]) on one store: the "
                 "final state equals one of the 2 serial results",
            bounds={"stores": 2, "state": "DictState (thorough: + inherited typed model)", "op kinds": "3 / 4", "instants": "0..TMAX (2 / 3)"})
def ob_two_tasks(st: int, typed: int, k0: int, k1: int, t0: int, t1: int, d0: int, d1: int) -> bool:
    """
    pre: 0 <= st <= 1 and 0 <= typed <= B(0, 1) and 0 <= k0 < NOPS and 0 <= k1 < NOPS
    pre: 0 <= t0 <= TMAX and 0 <= t1 <= TMAX and 0 <= d0 <= TMAX and 0 <= d1 <= TMAX
    pre: (k0 == 2 or d0 == 0) and (k1 == 2 or d1 == 0)
    post: _
    """
    st, typed = cint(st, 0, 1), cint(typed, 0, 1)
    kinds = [cint(k0, 0, 3), cint(k1, 0, 3)]
    ts = [cint(t0, 0, 3), cint(t1, 0, 3)]
    ds = [cint(d0, 0, 3), cint(d1, 0, 3)]
    with untraced():
        return run_concurrently(st, typed == 1, kinds, ts, ds)


@obligation(quick=150, thorough=600, partitions_quick=[f"k0 == {k}" for k in range(3)],
            partitions_thorough=[f"k0 == {k} and k1 == {j}" for k in range(4) for j in range(4)],
            what="SQLite store, two concurrent tasks that each reach the run's state through their OWN SqliteStateStore object (the server "
                 "runtime creates one per step invocation: SqliteWorkflowStore.create_state_store(run_id)): the final state equals one of "
                 "the 2 serial results",
            bounds={"store": "SqliteStateStore x 2 objects, one database, one run; optionally 300 other runs active in between; optionally both on the one connection of a single_connection=True workflow store", "op kinds": "3 / 4", "instants": "0..TMAX (2 / 3)"})
def ob_two_store_objects(k0: int, k1: int, t0: int, t1: int, d0: int, d1: int, busy: bool = False, shared: bool = False) -> bool:
    """
    pre: 0 <= k0 < NOPS and 0 <= k1 < NOPS
    pre: 0 <= t0 <= TMAX and 0 <= t1 <= TMAX and 0 <= d0 <= TMAX and 0 <= d1 <= TMAX
    pre: (k0 == 2 or d0 == 0) and (k1 == 2 or d1 == 0)
    post: _
    """
    kinds = [cint(k0, 0, 3), cint(k1, 0, 3)]
    ts = [cint(t0, 0, 3), cint(t1, 0, 3)]
    ds = [cint(d0, 0, 3), cint(d1, 0, 3)]
    busy = True if busy else False
    shared = True if shared else False
    with untraced():
        # busy: a few hundred other runs of the database use their state between the two tasks' store objects being created
        # shared: the two objects come from one SqliteWorkflowStore(single_connection=True) and use its connection
        return run_concurrently(ST_SQL, False, kinds, ts, ds, per_task_store=True, churn=(300 if busy and not shared else 0), shared_conn=shared)


@obligation(quick=150, thorough=300, partitions_quick=[f"st == {s}" for s in (0, 1)],
            what="typed child state: an edit_state block that writes child-only fields (suspended inside) against set_state with a state of the "
                 "PARENT type (merge: parent fields replaced, child-only fields kept) and against set / set_state(child): the final state "
                 "equals one of the 2 serial results",
            bounds={"stores": 2, "other op": "set / set_state(child) / set_state(parent)", "instants": "0..TMAX"})
def ob_parent_state_vs_edit(st: int, kw: int, t0: int, t1: int, d0: int) -> bool:
    """
    pre: 0 <= st <= 1 and 0 <= kw <= 2 and 0 <= t0 <= TMAX and 0 <= t1 <= TMAX and 0 <= d0 <= TMAX
    post: _
    """
    st, kw = cint(st, 0, 1), cint(kw, 0, 2)
    other = [OP_SET, OP_SET_STATE, OP_SET_PARENT][kw]
    ts = [cint(t0, 0, 3), cint(t1, 0, 3)]
    d0 = cint(d0, 0, 3)
    with untraced():
        return run_concurrently(st, True, [OP_EDIT, other], ts, [d0, 0])


@obligation(quick=150, thorough=900, partitions_quick=[f"st == {s} and k0 == {k}" for s in (0, 1) for k in range(3)],
            partitions_thorough=[f"st == {s} and k0 == {k} and typed == {t}" for s in (0, 1) for k in range(4) for t in (0, 1)],
            what="three concurrent tasks: the final state equals one of the 6 serial results",
            bounds={"stores": 2, "op kinds": "3 / 4", "instants": "quick 0..1 (edit durations 0..2), thorough 0..2"})
def ob_three_tasks(st: int, typed: int, k0: int, k1: int, k2: int, t0: int, t1: int, t2: int, d0: int, d1: int, d2: int) -> bool:
    """
    pre: 0 <= st <= 1 and 0 <= typed <= B(0, 1) and 0 <= k0 < NOPS and 0 <= k1 < NOPS and 0 <= k2 < NOPS
    pre: 0 <= t0 <= B(1, 2) and 0 <= t1 <= B(1, 2) and 0 <= t2 <= B(1, 2) and 0 <= d0 <= 2 and 0 <= d1 <= 2 and 0 <= d2 <= 2
    pre: (k0 == 2 or d0 == 0) and (k1 == 2 or d1 == 0) and (k2 == 2 or d2 == 0)
    post: _
    """
    st, typed = cint(st, 0, 1), cint(typed, 0, 1)
    kinds = [cint(k0, 0, 3), cint(k1, 0, 3), cint(k2, 0, 3)]
    ts = [cint(t0, 0, 2), cint(t1, 0, 2), cint(t2, 0, 2)]
    ds = [cint(d0, 0, 2), cint(d1, 0, 2), cint(d2, 0, 2)]
    with untraced():
        return run_concurrently(st, typed == 1, kinds, ts, ds)


# ---------------------------------------------------------------------------------------------------------------
# a task STARTED from inside an edit_state block is an ordinary task afterwards
def _spawn_scenario(st: int, da: int, tc: int, kc: int, tb: int, db: int) -> bool:
    """task A (instant 0) opens an edit_state block, starts task C from inside it (ensure_future: C gets a copy of A's context), adds 10 to
    y and leaves the block after da; C sleeps tc and then writes x (kc 0: set('x', 100); 1: an edit_state block x += 1 without suspension);
    task B at tb opens an edit_state block, reads x, is suspended for db, writes x = read + 1."""
    with SqliteEnv() as env:
        if st == ST_MEM:
            store: Any = InMemoryStateStore(DictState(x=0, y=0))
        else:
            store = env.store(None)
            drive(store.set_state(DictState(x=0, y=0)))
        children: List[Any] = []

        async def task_c() -> None:
            await asyncio.sleep(tc)
            if kc == 0:
                await store.set("x", 100)
            else:
                async with store.edit_state() as s:
                    s["x"] = s.get("x", 0) + 1

        async def task_a() -> None:
            async with store.edit_state() as s:
                y = s.get("y", 0)
                children.append(asyncio.ensure_future(task_c()))
                await asyncio.sleep(da)
                s["y"] = y + 10

        async def task_b() -> None:
            await asyncio.sleep(tb)
            async with store.edit_state() as s:
                x = s.get("x", 0)
                await asyncio.sleep(db)
                s["x"] = x + 1

        async def main() -> Any:
            await asyncio.gather(asyncio.ensure_future(task_a()), asyncio.ensure_future(task_b()))
            await asyncio.gather(*children)
            return await store.get_state()

        final = to_plain(MiniLoop().run_until_complete(main()))
    want_x = [101, 100] if kc == 0 else [2]          # set: C then B / B then C ; edit: both increments
    return final.get("y") == 10 and final.get("x") in want_x


@obligation(quick=150, thorough=400, partitions_quick=[f"st == {s} and kc == {k}" for s in (0, 1) for k in (0, 1)],
            partitions_thorough=[f"st == {s} and kc == {k} and tb == {t}" for s in (0, 1) for k in (0, 1) for t in (0, 1, 2)],
            what="a task STARTED from inside an edit_state block (it inherits a copy of the block's context) and living on after the block: its "
                 "later write (set, or an edit_state block of its own) excludes another task's suspended edit_state block like any other "
                 "writer's — the final state is that of a serial order of the three operations, on both stores",
            bounds={"stores": 2, "block A": "duration 0..1", "child's write": "set / edit_state, 0..3 after it was started",
                    "block B": "start 0..2, suspended 0..2"})
def ob_task_started_inside_a_block(st: int, da: int, tc: int, kc: int, tb: int, db: int) -> bool:
    """
    pre: 0 <= st <= 1 and 0 <= da <= 1 and 0 <= tc <= 3 and 0 <= kc <= 1 and 0 <= tb <= 2 and 0 <= db <= 2
    post: _
    """
    st, da, tc, kc, tb, db = cint(st, 0, 1), cint(da, 0, 1), cint(tc, 0, 3), cint(kc, 0, 1), cint(tb, 0, 2), cint(db, 0, 2)
    with untraced():
        return _spawn_scenario(st, da, tc, kc, tb, db)
