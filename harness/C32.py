"""C32 — generated deployment ids are valid DNS-1035 labels of at most 63 characters, derived from the name's
lowercase alphanumerics, with a random suffix when the name has fewer than three of them.

``k8s_client.py`` needs ``kubernetes`` at module scope, so ``find_deployment_id`` / ``_append_random_suffix`` are
LIFTED BY AST from the current file (vlib.h_tools.lift) and the DNS-1035 regex is read by AST from
``llama_agents/core/schema/deployments.py``.  Decomposition (each piece decided by a solver over that source):

  name --lower()--> d --three re.sub--> s --prefix "d-", [:63].rstrip("-"), suffix logic--> id

* ob_sanitiser (Engine S, CrossHair, ANY string d of length <= 3 / 4): the statements between ``name.lower()`` and
  the first ``if`` (the three ``re.sub``), executed symbolically: output over [a-z0-9-], no leading / trailing /
  double hyphen, and its [a-z0-9] projection equals that of d.
* ob_tail_dns1035 (Engine T, bounded-array back end, symbolic length 0..80): the WHOLE function body is translated
  by vlib.py2smt from the current AST; the result of the third ``re.sub`` is a fresh string constrained by
  ob_sanitiser's postcondition; ``random.choices/choice`` are fresh characters constrained to their alphabets;
  ``validate_deployment_id`` is a fresh boolean per call; the retry loop is unrolled.  Every returned id matches the
  regex of deployments.py (position-set encoding of the regex over the array) — which implies length <= 63.
* ob_tail_derivation (Engine T, same encoding): every returned id is a prefix of P+s (P = "d-" iff s starts with a
  digit) reaching min(|P+s|, 63)-1, or such a prefix (>= min(|P+s|,57)-1 long) + "-" + the 5 drawn hex digits, or —
  only when s is empty — the 5 drawn digits with a letter forced in front; a suffix is present whenever the name has fewer
  than three alphanumerics (= non-hyphen characters of s); no suffix when it has three or more, none is forced, and the first
  availability check succeeds.
* ob_end_to_end (Engine S): the whole lifted function on names assembled from a pool of characters (upper case,
  digits, hyphen, space, non-ASCII incl. characters whose lower() is special) — ties the pieces together
  (``lower()``, the split point) and checks the statement directly on short names.

What is derived from the current AST and what is written by hand
  from the AST (regenerated every run): every statement of find_deployment_id after the three ``re.sub`` and the whole
  of _append_random_suffix (vlib.py2smt.Interp: assignments, ifs, the for/range loop, slices, rstrip, f-string, join,
  isalpha/isdigit, the inlined call), max_length / randomness / to_take (plain ints of the source), the two alphabets
  (the literals passed to random.choices / random.choice), the DNS-1035 regex (deployments.py), the sanitiser
  statements executed by ob_sanitiser, the translation-validation inputs (the repo's test literals).
  by hand (specification side, from the statement): the sanitiser postcondition ``_Enc.facts`` / ``_facts`` (proved by
  ob_sanitiser on the real statements for short strings, assumed for longer ones, and re-checked against the real
  sanitiser's output on every translation-validation literal), ``_spec_ps`` and the shapes of ob_tail_derivation
  (63, 5 hex digits), ``_check_id`` / ``_ref_sanitised``.  Stubs: ``_Random`` / ``validate_deployment_id`` hand the
  draws and availability answers of a model to the lifted code BY CALL ORDINAL; the encoding indexes its draw /
  availability variables by the same ordinals (hidden path state ``__draws__`` / ``__avail__`` of the interpreter,
  carried through inlined calls).  That correspondence is what ``translation_validation[k,r]`` checks on every run:
  repo test literals x {no retry, forced suffix + retry, retries up to the unroll bound, forced suffix accepted}.
"""
from __future__ import annotations

import vlib.boot  # noqa: F401
from vlib.boot import B, drive

import ast
import re
from typing import Any, Dict, List

import z3

from vlib import py2smt as T
from vlib.h_tools import cbool, cint, func_node, lift, module_ast, regex_literal, repo_path, source_sha, untraced
from vlib.ob import obligation, smt_obligation

K8S = repo_path("packages", "llama-agents-control-plane", "src", "llama_agents", "control_plane", "k8s_client.py")
DEPL = repo_path("packages", "llama-agents-core", "src", "llama_agents", "core", "schema", "deployments.py")
TESTS = repo_path("packages", "llama-agents-control-plane", "tests", "test_find_deployment_id.py")

ENCODED = ["llama_agents.core.schema.deployments:validate_dns_1035_label"]  # + the two lifted functions (hashed in notes)
ASSUMES = [
    "find_deployment_id / _append_random_suffix are lifted by AST from the current k8s_client.py (module needs kubernetes); "
    "validate_deployment_id (a cluster lookup) = a fresh boolean per call; random.choices / random.choice = arbitrary "
    "characters of the alphabet they are given",
    "sanitiser facts are established by CrossHair for every string d (the result of name.lower(), over-approximated by ANY "
    "string) of length <= 3 (quick) / 4 (thorough) and ASSUMED for longer strings by ob_tail_* (the three substitutions "
    "act character-locally: per-character class map, run collapse, end trim)",
    "ob_tail_*: the retry loop `for i in range(1, 100)` is unrolled UNROLL times (2 quick / 4 thorough); every later "
    "iteration executes the same statement on the same loop-invariant base id with fresh draws",
    "ob_tail_*: the j-th random.choices call of a path reads draw j, random.choice reads the letter of the latest draw, the "
    "j-th validate_deployment_id call reads answer j — the same ordinals the native stubs use; the interpreter joins paths "
    "that fall through a statement with equal ordinals by if-then-else (state merging), others stay forked; both are "
    "validated each run against the lifted real function (translation_validation[*])",
    "composition lemma (not solver-checked): if id (minus its random suffix) is a prefix of P+s and proj(s) = proj(name.lower()), "
    "then id's [a-z0-9] projection is a prefix of the name's lowercase alphanumerics, possibly after the letter d",
    "Engine T character model: code points as integers; str.isalpha / isdigit are only encoded for ASCII (a safety "
    "condition of the query requires the tested character to be ASCII)",
]
OUTSIDE = [
    "sanitised strings longer than 80 characters (names whose processed form is longer; the [:63] cut makes longer tails irrelevant, "
    "but the bounded encoding stops there)",
    "the ValueError after 99 unavailable candidates (environment-driven); explicit_id / reserved-id handling in create_deployment",
    "unspecified: when the suffix is appended to a 57-character cut ending in '-', the id contains '--' (still DNS-1035)",
]

UNROLL = B(2, 4)
SMAX = 80
# NB partition lists are computed in the runner's parent process, where B() only has the right value if VERIF_TIER was
# exported before vlib.boot was imported (it was not in the first runner: the thorough partitions then silently covered
# the quick bounds only).  They are therefore written from explicit per-tier constants, never from B().
LMAX_Q, LMAX_T = 3, 4
LMAX = B(LMAX_Q, LMAX_T)


# ----------------------------------------------------------------------------------------------------------------------
# lifting
# ----------------------------------------------------------------------------------------------------------------------
class _Random:
    """stub of the ``random`` module used by the lifted code: draws are dictated by the harness"""

    def __init__(self, hexes: List[str], alphas: List[str]):
        self.hexes, self.alphas, self.n = list(hexes), list(alphas), 0

    def choices(self, population, k=1):
        h = self.hexes[min(self.n, len(self.hexes) - 1)]
        self.n += 1
        assert len(h) == k and all(c in population for c in h), "stub draw outside the alphabet"
        return list(h)

    def choice(self, seq):
        a = self.alphas[min(max(self.n - 1, 0), len(self.alphas) - 1)]
        assert a in seq, "stub draw outside the alphabet"
        return a


def _lifted(hexes: List[str], alphas: List[str], avail: List[bool]) -> Dict[str, Any]:
    calls: List[str] = []

    async def validate_deployment_id(deployment_id: str) -> bool:
        calls.append(deployment_id)
        i = len(calls) - 1
        return avail[i] if i < len(avail) else True

    ns: Dict[str, Any] = {"re": re, "random": _Random(hexes, alphas), "validate_deployment_id": validate_deployment_id,
                          "__calls__": calls}
    return lift(K8S, ["_append_random_suffix", "find_deployment_id"], ns)


def _split():
    """(head_stmt, tail_stmts, first_if_index, pre_stmts) of find_deployment_id's body: head = the first assignment
    from ``name`` (``deployment_id = name.lower()``), tail = the assignments up to the first ``if``."""
    fn = func_node(K8S, "find_deployment_id")
    body = list(fn.body)  # type: ignore[attr-defined]
    first_if = next(i for i, s in enumerate(body) if isinstance(s, ast.If))
    head = None
    for i, s in enumerate(body[:first_if]):
        if isinstance(s, ast.Assign) and any(isinstance(n, ast.Name) and n.id == "name" for n in ast.walk(s.value)):
            head = i
            break
    if head is None:
        raise T.Untranslatable("no statement derives the id from `name` before the first if")
    for s in body[:first_if]:
        if not isinstance(s, ast.Assign):
            raise T.Untranslatable("unexpected statement before the first if")
    var = body[head].targets[0].id  # type: ignore[attr-defined]
    return body, head, first_if, var


def _make_tail():
    body, head, first_if, var = _split()
    stmts = body[:head] + body[head + 1:first_if]
    fn = ast.FunctionDef(name="_tail", args=ast.arguments(posonlyargs=[], args=[ast.arg(arg=var)], kwonlyargs=[], kw_defaults=[], defaults=[]),
                         body=stmts + [ast.Return(value=ast.Name(id=var, ctx=ast.Load()))], decorator_list=[], type_params=[])
    mod = ast.fix_missing_locations(ast.Module(body=[fn], type_ignores=[]))
    ns: Dict[str, Any] = {"re": re}
    exec(compile(mod, "<lifted find_deployment_id: sanitiser statements>", "exec"), ns)  # noqa: S102
    return ns["_tail"]


try:
    _TAIL = _make_tail()
    _TAIL_ERR = ""
except T.Untranslatable as _e:   # the current source no longer has the "assignments, then the first if" shape: Engine T reports
    _TAIL = None                 # `untranslatable` (inconclusive); the Engine-S obligations below still run the whole function
    _TAIL_ERR = str(_e)
_DNS_PATTERN = regex_literal(DEPL, "_DNS_1035_RE")


def _proj(s: str) -> str:
    out = ""
    for c in s:
        if ("a" <= c <= "z") or ("0" <= c <= "9"):
            out += c
    return out


def _facts(s: str) -> bool:
    for c in s:
        if not (c == "-" or ("a" <= c <= "z") or ("0" <= c <= "9")):
            return False
    if len(s) > 0 and (s[0] == "-" or s[len(s) - 1] == "-"):
        return False
    return "--" not in s


# partitions: by length; the longest length additionally by the position of the first character relative to the
# classes the sanitiser distinguishes (five contiguous code-point ranges that cover every character)
def _classes(i: int) -> List[str]:
    return [f"d[{i}] < '0'", f"'0' <= d[{i}] <= '9'", f"'9' < d[{i}] < 'a'", f"'a' <= d[{i}] <= 'z'", f"d[{i}] > 'z'"]


_SAN_PARTS_Q = [f"len(d) == {k}" for k in range(LMAX_Q)] + [f"len(d) == {LMAX_Q} and {c}" for c in _classes(0)]
_SAN_PARTS_T = [f"len(d) == {k}" for k in range(LMAX_T)] + [
    f"len(d) == {LMAX_T} and {c0} and {c1}" for c0 in _classes(0) for c1 in _classes(1)]


@obligation(quick=240, thorough=900, partitions_quick=_SAN_PARTS_Q, partitions_thorough=_SAN_PARTS_T,
            what="sanitiser statements (three re.sub) on ANY string d: output over [a-z0-9-], no leading/trailing/double "
                 "hyphen, same [a-z0-9] projection as d",
            bounds={"len(d)": "0..LMAX (3 quick / 4 thorough), arbitrary Unicode code points"})
def ob_sanitiser(d: str) -> bool:
    """
    pre: len(d) <= LMAX
    post: _
    """
    if _TAIL is None:   # sanitiser statements not isolable in the current source: judge the whole lifted function on d instead
        ns = _lifted(["c0ffe", HEX1], ["e", "f"], [True, True])
        return _label_ok(drive(ns["find_deployment_id"](d, False)))
    s = _TAIL(d)
    return _facts(s) and _proj(s) == _proj(d)


# ----------------------------------------------------------------------------------------------------------------------
# end to end on pooled characters (Engine S)
# ----------------------------------------------------------------------------------------------------------------------
POOL = ["a", "Z", "7", "-", "é", "K", " ", "_", "İ"]   # é, KELVIN SIGN (lower() == 'k'), İ (lower() is 2 chars)
NPOOL_Q, NPOOL_T = 6, 9
ELEN_Q, ELEN_T = 3, 4
TOP_Q, TOP_T = 6, 5    # names of the maximal length ELEN use the first TOP pool characters (9**4 * 8 paths are out of budget)
NPOOL = B(NPOOL_Q, NPOOL_T)
ELEN = B(ELEN_Q, ELEN_T)
NPOOL_TOP = B(TOP_Q, TOP_T)
HEXD = "0123456789abcdef"
HEX1 = "b1234"   # second draw of the end-to-end stub


def _ref_sanitised(name: str) -> str:
    """reference, from the statement: lowercase; every maximal run of non-[a-z0-9] becomes one '-'; trim '-'"""
    out = ""
    for c in name.lower():
        if ("a" <= c <= "z") or ("0" <= c <= "9"):
            out += c
        elif not out.endswith("-"):
            out += "-"
    return out.strip("-")


def _label_ok(rid: str) -> bool:
    """DNS-1035 label written from RFC 1035 2.3.1, character by character — independent of the repository's regex (whose `$`
    under re.match also accepts one trailing line feed)"""
    if not (1 <= len(rid) <= 63):
        return False
    for c in rid:
        if not (c == "-" or ("a" <= c <= "z") or ("0" <= c <= "9")):
            return False
    return ("a" <= rid[0] <= "z") and rid[-1] != "-"


def _check_id(name: str, force: bool, avail0: bool, hex0: str, alpha0: str, rid: str) -> bool:
    from llama_agents.core.schema.deployments import validate_dns_1035_label

    if len(rid) > 63 or not _label_ok(rid):
        return False
    try:
        validate_dns_1035_label(rid)
    except ValueError:
        return False
    alnum = _proj(name.lower())
    san = _ref_sanitised(name)
    base = ("d-" + san) if (san and not san[0].isalpha()) else san
    has_suffix = (len(rid) >= 5 and rid[-5:] in (hex0, alpha0 + hex0[1:], HEX1)) and (len(rid) == 5 or rid[-6] == "-")
    stem = rid if not has_suffix else rid[:-6] if len(rid) > 5 else ""
    # derived from the name's lowercase alphanumerics (possibly after the letter d of the "d-" prefix)
    p = _proj(stem)
    if not (alnum.startswith(p) or ("d" + alnum).startswith(p)):
        return False
    if len(alnum) >= 3 and len(p) < 3:
        return False
    if len(alnum) < 3 and not has_suffix:         # fewer than three alphanumerics in the NAME => random suffix (the statement, literally:
        return False                               # separators and the "d-" prefix pad the id without adding to the name)
    if len(alnum) >= 3 and not force and avail0 and has_suffix and stem != rid:
        return False                               # nothing forces a suffix here
    return True


@obligation(quick=240, thorough=900,
            partitions_quick=[f"n == {k}" for k in range(ELEN_Q)] + [f"n == {ELEN_Q} and i0 == {c}" for c in range(TOP_Q)],
            partitions_thorough=[f"n == {k}" for k in range(ELEN_T - 1)] + [f"n == {ELEN_T - 1} and i0 == {c}" for c in range(NPOOL_T)]
            + [f"n == {ELEN_T} and i0 == {c} and i1 {d}" for c in range(TOP_T) for d in ("<= 2", ">= 3")],
            what="whole lifted find_deployment_id on names assembled from a character pool (upper case, digit, hyphen, space, "
                 "non-ASCII, special lower()): valid DNS-1035 label <= 63, derived from the lowercase alphanumerics, suffix when short",
            bounds={"name length": "0..ELEN (3 quick / 4 thorough)",
                    "pool": "6 quick / 9 thorough characters (names of length ELEN: the first 6 quick / 5 thorough)",
                    "first hex draw": "digit or letter", "availability": "first check free/taken", "force_suffix": "both"})
def ob_end_to_end(n: int, i0: int, i1: int, i2: int, i3: int, force: bool, avail0: bool, hdigit: bool) -> bool:
    """
    pre: 0 <= n <= ELEN and 0 <= i0 < NPOOL and 0 <= i1 < NPOOL and 0 <= i2 < NPOOL and 0 <= i3 < NPOOL
    pre: (n > 0 or i0 == 0) and (n > 1 or i1 == 0) and (n > 2 or i2 == 0) and (n > 3 or i3 == 0)
    pre: n < ELEN or (i0 < NPOOL_TOP and i1 < NPOOL_TOP and i2 < NPOOL_TOP and i3 < NPOOL_TOP)
    post: _
    """
    n = cint(n, 0, ELEN)
    idx = [cint(i, 0, NPOOL - 1) for i in (i0, i1, i2, i3)]
    force, avail0, hdigit = cbool(force), cbool(avail0), cbool(hdigit)
    with untraced():
        name = "".join(POOL[k] for k in idx[:n])
        hex0 = "7c0fe" if hdigit else "c0ffe"
        ns = _lifted([hex0, HEX1], ["e", "f"], [avail0, True])
        rid = drive(ns["find_deployment_id"](name, force))
        return _check_id(name, force, avail0, hex0, "e", rid)


@obligation(quick=200, thorough=600,
            partitions_quick=[f"h == {h} and lead == {l}" for h in range(3) for l in range(2)],
            partitions_thorough=[f"h == {h} and lead == {l} and p % 3 == {m}" for h in range(3) for l in range(2) for m in range(3)],
            what="whole lifted find_deployment_id on LONG names whose shape is symbolic: [digits]? + p letters + h separators + r more letters, "
                 "with p chosen around the 63-character cut and the 57-character suffix cut (so a separator can land exactly on either cut): the "
                 "returned id is a valid DNS-1035 label <= 63 derived from the name — independent of the Engine-T translation",
            bounds={"letters before the separators p": "52..64", "separators h": "0..2 (mixed kinds)", "letters after r": "0..3", "leading digits": "0 / 2",
                    "first hex draw": "digit or letter", "availability": "first check free/taken", "force_suffix": "both"})
def ob_long_names(p: int, h: int, r: int, lead: int, force: bool, avail0: bool, hdigit: bool) -> bool:
    """
    pre: 52 <= p <= 64 and 0 <= h <= 2 and 0 <= r <= 3 and 0 <= lead <= 1
    post: _
    """
    p, h, r, lead = cint(p, 52, 64), cint(h, 0, 2), cint(r, 0, 3), cint(lead, 0, 1)
    force, avail0, hdigit = cbool(force), cbool(avail0), cbool(hdigit)
    with untraced():
        name = ("20" if lead else "") + "a" * p + " _"[:h] + "b" * r
        hex0 = "7c0fe" if hdigit else "c0ffe"
        ns = _lifted([hex0, HEX1], ["e", "f"], [avail0, True])
        rid = drive(ns["find_deployment_id"](name, force))
        return _check_id(name, force, avail0, hex0, "e", rid)


WS_POOL = ["\n", "\r\n", "\t", " ", "\x0b", "\x0c", "\x1c", "\x85", "\u2028", "\n\n", "\r", ""]
STEMS = ["my-service", "a", "ab", "abc", "7up", "rag--app", "A-b"]


@obligation(quick=240, thorough=600,
            partitions_quick=[f"st == {k}" for k in range(len(STEMS))],
            what="whole lifted find_deployment_id on names that are an (almost) valid label with line ends / control / Unicode "
                 "white space in front, behind or inside: the returned id is a DNS-1035 label by the character-level definition "
                 "(not by the repository's own regex, whose `$` tolerates a trailing line feed), derived from the name",
            bounds={"stem": "7 pooled stems (valid, short, digit-first, double hyphen, upper case)", "white space": "behind the stem: 12 pooled runs "
                    "(LF, CRLF, TAB, space, VT, FF, FS, NEL, LS, LF LF, CR, none); in front: LS, LF LF, CR, none; after the first character: LF LF, CR, none",
                    "first hex draw": "digit or letter", "availability": "first check free/taken", "force_suffix": "both"})
def ob_line_ends(st: int, w0: int, w1: int, w2: int, force: bool, avail0: bool, hdigit: bool) -> bool:
    """
    pre: 0 <= st < 7 and 0 <= w0 < 4 and 0 <= w1 < 12 and 0 <= w2 < 3
    post: _
    """
    st, w0, w1, w2 = cint(st, 0, 6), cint(w0, 0, 3) + 8, cint(w1, 0, 11), cint(w2, 0, 2) + 9
    force, avail0, hdigit = cbool(force), cbool(avail0), cbool(hdigit)
    with untraced():
        stem = STEMS[st]
        name = WS_POOL[w0] + stem[:1] + WS_POOL[w2] + stem[1:] + WS_POOL[w1]
        hex0 = "7c0fe" if hdigit else "c0ffe"
        ns = _lifted([hex0, HEX1], ["e", "f"], [avail0, True])
        rid = drive(ns["find_deployment_id"](name, force))
        return _check_id(name, force, avail0, hex0, "e", rid)


# ----------------------------------------------------------------------------------------------------------------------
# Engine T
# ----------------------------------------------------------------------------------------------------------------------
class _Enc:
    """translation of the current find_deployment_id / _append_random_suffix into guarded outcomes over a symbolic
    sanitised string ``s`` (length 0..SMAX), draws and availability answers indexed by call ordinal"""

    def __init__(self, unroll: int) -> None:
        be = T.ArrBackend()
        self.be = be
        self.unroll = unroll
        ncalls = unroll + 1
        self.hex = [[z3.Int(f"hex{j}_{t}") for t in range(5)] for j in range(ncalls)]
        self.alpha = [z3.Int(f"alpha{j}") for j in range(ncalls)]
        self.avail = [z3.Bool(f"avail{j}") for j in range(unroll + 1)]
        self.force = z3.Bool("force")
        self.n = z3.Int("n")
        self.chars = [z3.Int(f"c{i}") for i in range(SMAX)]
        # s is an uninterpreted array read through ground equalities s[i] == c_i (no 80-deep store chain under the
        # symbolic-index reads that concat produces)
        arr = z3.Array("s", z3.IntSort(), z3.IntSort())
        be.defs.extend(z3.Select(arr, i) == c for i, c in enumerate(self.chars))
        self.s = T.BStr(self.n, arr)
        self.subs: List[Any] = []
        self.alphabets: Dict[str, str] = {}

        def in_alphabet(c, alphabet: str):
            return z3.Or(*[c == ord(x) for x in alphabet])

        self.stub_facts: List[Any] = []
        self.draws_used = 0

        def i_choices(interp, guard, env, population, k=1):
            if not isinstance(population, str) or k != 5:
                raise T.Untranslatable("random.choices shape")
            # ``__draws__`` / ``__avail__``: ordinals of the stub calls made so far ON THIS PATH.  They are hidden path
            # state of the interpreter (``__`` prefix): carried into inlined calls and back out (py2smt.eval_forking), so
            # the 2nd call of _append_random_suffix reads the 2nd draw — exactly what the native stub _Random does.
            j = env.get("__draws__", 0)
            env["__draws__"] = j + 1
            if j >= len(self.hex):
                raise T.Untranslatable("more draws than unrolled")
            if self.alphabets.setdefault("choices", population) != population:
                raise T.Untranslatable("random.choices called with different alphabets")
            self.draws_used = max(self.draws_used, j + 1)
            return [be.from_chars([c]) for c in self.hex[j]]

        def i_choice(interp, guard, env, seq):
            if not isinstance(seq, str):
                raise T.Untranslatable("random.choice shape")
            j = env.get("__draws__", 0) - 1
            if j < 0:
                raise T.Untranslatable("random.choice before any random.choices (stub ordinals undefined)")
            if self.alphabets.setdefault("choice", seq) != seq:
                raise T.Untranslatable("random.choice called with different alphabets")
            return be.from_chars([self.alpha[j]])

        def i_validate(interp, guard, env, candidate):
            j = env.get("__avail__", 0)
            env["__avail__"] = j + 1
            if j >= len(self.avail):
                raise T.Untranslatable("more availability checks than unrolled")
            return self.avail[j]

        fn = func_node(K8S, "find_deployment_id")
        sfx = func_node(K8S, "_append_random_suffix")
        body, head, first_if, var = _split()
        # the sanitiser statements are executed by ob_sanitiser; here their result is the symbolic string s
        self.sanitiser_patterns = []
        post_sanitiser: List[Any] = []   # assignments between the last re.sub and the first `if`: they read the SANITISED id
        for st in body[head + 1:first_if]:
            v = st.value
            is_sub = (isinstance(v, ast.Call) and isinstance(v.func, ast.Attribute) and v.func.attr == "sub"
                      and isinstance(v.func.value, ast.Name) and v.func.value.id == "re"
                      and all(isinstance(a, ast.Constant) for a in v.args[:2]))
            if is_sub and not post_sanitiser and isinstance(st.targets[0], ast.Name) and st.targets[0].id == var:
                self.sanitiser_patterns.append((v.args[0].value, v.args[1].value))
            elif not is_sub and isinstance(st.targets[0], ast.Name) and st.targets[0].id != var:
                post_sanitiser.append(st)            # translated below, with the id bound to the symbolic sanitised string
            else:
                raise T.Untranslatable("statement before the first `if` is neither re.sub(<literal>, <literal>, id) into the id nor "
                                       "a later assignment to another variable")
        interp = T.Interp(be, functions={"_append_random_suffix": sfx},
                          intrinsics={"random.choices": i_choices, "random.choice": i_choice,
                                      "validate_deployment_id": i_validate}, unroll=unroll, merge=True)
        env0: Dict[str, Any] = {}
        for st in body[:head]:
            for g, kind, val, e in interp.stmt(st, env0, True):
                env0 = e
        env0[var] = self.s
        env0["force_suffix"] = self.force
        env0["name"] = T.Opaque("name")
        for st in post_sanitiser:
            for g, kind, val, e in interp.stmt(st, env0, True):
                env0 = e
        self.outcomes = [(g, kind, val) for g, kind, val, _e in interp.block(body[first_if:], env0, True)]
        # assumptions
        cls = lambda c: z3.Or(z3.And(c >= 97, c <= 122), z3.And(c >= 48, c <= 57), c == 45)  # noqa: E731
        facts = [self.n >= 0, self.n <= SMAX]
        for i, c in enumerate(self.chars):
            facts.append(z3.Implies(i < self.n, cls(c)))
            if i + 1 < SMAX:
                facts.append(z3.Implies(i + 1 < self.n, z3.Not(z3.And(c == 45, self.chars[i + 1] == 45))))
        facts.append(z3.Implies(self.n > 0, self.chars[0] != 45))
        facts.append(z3.And(*[z3.Implies(self.n == i + 1, self.chars[i] != 45) for i in range(SMAX)]))
        self.facts = facts
        # the alphabets are the literals the CURRENT source passes to random.choices / random.choice (captured by the
        # intrinsics above); a stub the source never calls stays unconstrained (it is never read)
        if "choices" not in self.alphabets:
            raise T.Untranslatable("the translated code never draws a random suffix (random.choices not reached)")
        for row in self.hex:
            for c in row:
                self.stub_facts.append(in_alphabet(c, self.alphabets["choices"]))
        if "choice" in self.alphabets:
            for a in self.alpha:
                self.stub_facts.append(in_alphabet(a, self.alphabets["choice"]))

    def assumptions(self):
        return list(self.be.defs) + self.facts + self.stub_facts

    def variables(self):
        v: Dict[str, Any] = {"n": self.n, "force": self.force}
        for j, a in enumerate(self.avail):
            v[f"avail{j}"] = a
        for j, row in enumerate(self.hex):
            for t, c in enumerate(row):
                v[f"hex{j}_{t}"] = c
            v[f"alpha{j}"] = self.alpha[j]
        for i, c in enumerate(self.chars):
            v[f"c{i}"] = c
        return v

    def returned(self):
        return [(T.zguard(g), val) for g, kind, val in self.outcomes if kind == "return"]

    def bad_outcomes(self):
        """outcomes that are neither a return of a string nor the loop cutoff (e.g. an unexpected raise)"""
        bad = []
        for g, kind, val in self.outcomes:
            if kind == "return" and isinstance(val, T.BStr):
                continue
            if kind == "cutoff":
                continue
            bad.append(T.zguard(g))
        return bad

    def unsafe(self):
        return [z3.Not(c) for c in self.be.safety]


def _witness_run(w: Dict[str, Any], unroll: int):
    """replay a model natively through the lifted real function; returns (name, id, hexes, alphas, avail)"""
    n = int(w["n"])
    s = "".join(chr(int(w[f"c{i}"])) for i in range(n))
    hexes = ["".join(chr(int(w[f"hex{j}_{t}"])) for t in range(5)) for j in range(unroll + 1)]
    alphas = [chr(int(w[f"alpha{j}"])) for j in range(unroll + 1)]
    avail = [bool(w[f"avail{j}"]) for j in range(unroll + 1)] + [True]
    ns = _lifted(hexes, alphas, avail)
    rid = drive(ns["find_deployment_id"](s, bool(w["force"])))
    return s, rid, hexes, alphas, avail


def _native_dns(w, unroll=None) -> bool:
    from llama_agents.core.schema.deployments import validate_dns_1035_label

    _s, rid, *_ = _witness_run(w, unroll or UNROLL)
    try:
        validate_dns_1035_label(rid)
    except ValueError:
        return False
    return len(rid) <= 63


def _native_derivation(w, unroll=None) -> bool:
    s, rid, hexes, alphas, avail = _witness_run(w, unroll or UNROLL)
    ps = ("d-" + s) if (s and s[0].isdigit()) else s
    shapes = []
    if ps.startswith(rid) and len(rid) >= min(len(ps), 63) - 1:
        shapes.append("plain")
    for h in hexes:
        if len(rid) >= 7 and rid.endswith("-" + h) and ps.startswith(rid[:-6]) and len(rid) - 6 >= min(len(ps), 57) - 1:
            shapes.append("suffix")
    for h, a in zip(hexes, alphas):
        if len(ps) == 0 and rid in (h, a + h[1:]) and rid[0].isalpha():
            shapes.append("only-suffix")
    if not shapes:
        return False
    na = len(_proj(s))                                # the name's lowercase alphanumerics (s has the same projection: ob_sanitiser)
    if na < 3 and "plain" in shapes and not ("suffix" in shapes or "only-suffix" in shapes):
        return False
    if na >= 3 and not w["force"] and avail[0] and "plain" not in shapes:
        return False
    return True


def _reach(ctx, enc: "_Enc", name: str, cond, note: str) -> None:
    """vacuity guard for one case of the encoding: ``cond`` has to be satisfiable together with the assumptions (the
    query itself is trivially unsat; an unreachable case comes back ``vacuous`` and the obligation is not discharged)"""
    ctx.check(f"reach[{name}]", assumptions=enc.assumptions() + [cond], negated_property=z3.BoolVal(False),
              variables={"n": enc.n}, replay=None, cross_check=False, note="reachability: " + note)


def _test_literals() -> List[str]:
    """first arguments of the find_deployment_id(...) calls of the repo's own test file (read by AST) + boundary strings"""
    names: List[str] = []
    try:
        tree = module_ast(TESTS)
    except OSError:
        tree = ast.Module(body=[], type_ignores=[])
    for node in ast.walk(tree):
        if isinstance(node, ast.Call) and isinstance(node.func, ast.Attribute) and node.func.attr == "find_deployment_id":
            if node.args and isinstance(node.args[0], ast.Constant) and isinstance(node.args[0].value, str):
                if node.args[0].value not in names:
                    names.append(node.args[0].value)
    for extra in ["9" * 70, "a" * 62 + "-b", "a" * 56 + "-bcdefgh", "", "7", "x"]:
        if extra not in names:
            names.append(extra)
    return names


# (force_suffix, answers of the availability checks): no retry / forced suffix + one retry (two draws: one before the
# loop, one inside) / as many retries as the unrolled loop admits (the last unrolled iteration returns) / forced suffix
# accepted at once
def _tv_runs(unroll: int):
    return [(False, [True]), (True, [False, True]), (False, [False] * (unroll - 1) + [True]), (True, [True])]


def _translation_validation(ctx, enc: "_Enc") -> None:
    """evaluate the encoding on the repo's own test literals (and boundary strings) with fixed draws and availability
    answers, and compare with the lifted real function run natively on the same name, draws and answers.  A mismatch
    (``sat``) is reported by the runner as HARNESS-ERROR; the real sanitiser's output on the literal also has to satisfy
    the sanitiser facts the queries assume (else the query is ``vacuous`` = not discharged)."""
    be = enc.be
    ncalls = enc.unroll + 1
    for k, name in enumerate(_test_literals()):
        s = _TAIL(name.lower())
        if len(s) > SMAX:
            continue
        for r, (force, answers) in enumerate(_tv_runs(enc.unroll)):
            hexes = ["7c0fe", "c0ffe", "0dead", "beef1", "12345"][:ncalls]
            alphas = ["e", "f", "a", "b", "c"][:ncalls]
            avail = (answers + [True] * ncalls)[:ncalls]
            ns = _lifted(hexes, alphas, avail)
            try:
                expected = drive(ns["find_deployment_id"](name, force))
            except Exception as e:  # noqa: BLE001 - the real code raised: the encoding must not return a string there
                expected = e
            fix = [enc.n == len(s), enc.force == force]
            fix += [enc.chars[i] == ord(c) for i, c in enumerate(s)]
            for j in range(ncalls):
                fix += [enc.hex[j][t] == ord(hexes[j][t]) for t in range(5)]
                fix.append(enc.alpha[j] == ord(alphas[j]))
                fix.append(enc.avail[j] == avail[j])
            if isinstance(expected, str):
                agree = []
                for g, val in enc.returned():
                    same = z3.And(val.n == len(expected), *[val.at(i) == ord(c) for i, c in enumerate(expected)])
                    agree.append(z3.And(g, same))
                agree_f = z3.And(z3.Or(*agree), *[z3.Not(b) for b in enc.bad_outcomes() + enc.unsafe()])
            else:
                agree_f = z3.Or(*(enc.bad_outcomes() + enc.unsafe()))
            ctx.check(f"translation_validation[{k},{r}]", assumptions=list(be.defs) + enc.facts + fix,
                      negated_property=z3.Not(agree_f), variables={"n": enc.n},
                      replay=lambda w: True, cross_check=False,
                      note=f"encoding vs lifted real function on {name[:20]!r} force={force} avail={answers} -> {expected!r}")


@smt_obligation(quick=120, thorough=300,
                what="from any sanitised string of symbolic length 0..80: every id returned by the rest of find_deployment_id "
                     "(prefix, [:63].rstrip('-'), <3 => suffix, suffix arithmetic, forced letter) matches the DNS-1035 regex of "
                     "deployments.py (hence <= 63 characters); the translated code never indexes out of range",
                bounds={"sanitised length": "0..80", "retry loop": "unrolled UNROLL times", "draws": "any characters of the alphabets"})
def ob_tail_dns1035(ctx):
    enc = _Enc(UNROLL)
    nodes = T.parse_regex(_DNS_PATTERN)
    R, link, some = enc.be.merge(enc.returned())
    viol = [z3.And(some, z3.Not(enc.be.matches(R, nodes)))]
    viol += enc.bad_outcomes() + enc.unsafe()
    note = f"regex {_DNS_PATTERN!r}; sanitiser statements {enc.sanitiser_patterns}; lifted source {source_sha(K8S, ['find_deployment_id', '_append_random_suffix'])}; {len(enc.outcomes)} guarded outcomes"
    ctx.check("dns1035", assumptions=enc.assumptions() + link, negated_property=z3.Or(*viol), variables=enc.variables(),
              replay=_native_dns, note=note)
    rets = enc.returned()
    if len(rets) < 2:
        raise T.Untranslatable("fewer than two return outcomes: the retry loop was not translated")
    for i, (g, _val) in enumerate(rets):
        _reach(ctx, enc, f"return{i}", g, f"return outcome {i} of {len(rets)} is taken by some input")
    _reach(ctx, enc, "cut", z3.And(some, R.n == 63), "some returned id is 63 characters long")
    _translation_validation(ctx, enc)


def _spec_ps(enc: "_Enc") -> T.BStr:
    """P + s written from the statement: 'd-' in front iff s starts with a digit"""
    pref = z3.And(enc.n > 0, enc.chars[0] >= 48, enc.chars[0] <= 57)
    arr = z3.K(z3.IntSort(), z3.IntVal(0))
    for i in range(SMAX + 2):
        with_p = z3.IntVal(ord("d")) if i == 0 else (z3.IntVal(45) if i == 1 else enc.chars[i - 2])
        plain = enc.chars[i] if i < SMAX else z3.IntVal(0)
        arr = z3.Store(arr, i, z3.If(pref, with_p, plain))
    return T.BStr(enc.n + z3.If(pref, 2, 0), arr)


def _min(a, b):
    return z3.If(a < b, a, b)


@smt_obligation(quick=120, thorough=300,
                what="derivation: every returned id is a (long enough) prefix of P+s, optionally followed by '-' + the five drawn "
                     "hex digits, or the drawn digits alone when s is empty; suffix present when the name has fewer than three "
                     "alphanumerics; absent when it has at least three, nothing forces one and the first availability check succeeds",
                bounds={"sanitised length": "0..80", "retry loop": "unrolled UNROLL times"})
def ob_tail_derivation(ctx):
    enc = _Enc(UNROLL)
    be = enc.be
    ps = _spec_ps(enc)
    # number of alphanumerics of the name = number of non-hyphen characters of s (s has the name's [a-z0-9] projection: ob_sanitiser)
    nalnum = z3.Sum(*[z3.If(z3.And(i < enc.n, c != 45), 1, 0) for i, c in enumerate(enc.chars)])
    viol = []
    seen: Dict[str, List[Any]] = {"plain": [], "suffix": [], "only-suffix": []}
    for g, r in enc.returned():
        plain = z3.And(r.n <= ps.n, be.eq_prefix(r, ps, r.n), r.n >= _min(ps.n, z3.IntVal(63)) - 1)
        sfx = []
        for j in range(enc.unroll + 1):
            x = r.n - 6
            tail_ok = z3.And(r.at(x) == 45, *[r.at(x + 1 + t) == enc.hex[j][t] for t in range(5)])
            sfx.append(z3.And(x >= 1, x <= ps.n, be.eq_prefix(r, ps, x), tail_ok, x >= _min(ps.n, z3.IntVal(57)) - 1))
            seen["suffix"].append(z3.And(g, sfx[-1]))
            first = z3.If(z3.And(enc.hex[j][0] >= 48, enc.hex[j][0] <= 57), enc.alpha[j], enc.hex[j][0])
            sfx.append(z3.And(ps.n == 0, r.n == 5, r.at(0) == first, *[r.at(t) == enc.hex[j][t] for t in range(1, 5)]))
            seen["only-suffix"].append(z3.And(g, sfx[-1]))
        seen["plain"].append(z3.And(g, plain))
        has_sfx = z3.Or(*sfx)
        ok = z3.And(z3.Or(plain, has_sfx),
                    z3.Implies(nalnum < 3, has_sfx),
                    z3.Implies(z3.And(nalnum >= 3, z3.Not(enc.force), enc.avail[0]), plain))
        viol.append(z3.And(g, z3.Not(ok)))
    viol += enc.bad_outcomes() + enc.unsafe()
    ctx.check("derivation", assumptions=enc.assumptions(), negated_property=z3.Or(*viol), variables=enc.variables(),
              replay=_native_derivation, note=f"{len(enc.outcomes)} guarded outcomes")
    for shape, conds in seen.items():
        _reach(ctx, enc, shape, z3.Or(*conds) if conds else z3.BoolVal(False), f"some returned id has the shape '{shape}'")


def replay_known(name: str, witness) -> bool:
    if name.endswith("dns1035"):
        return _native_dns(witness)
    if name.endswith("derivation"):
        return _native_derivation(witness)
    return True
