"""C24 — handler stores answer queries consistently (memory == SQLite == conjunction-of-filters) and the memory store
retains all non-terminal handlers plus the ``max_completed`` most recently completed ones.

ob_matches_query_spec     real ``_matches_query`` vs the conjunction spec, handler fields and query values symbolic
ob_sqlite_memory_diff     real SqliteWorkflowStore (``_build_filters`` + SQL, tmp file) vs real MemoryWorkflowStore vs the spec
                          on op scripts (upserts, status update / re-upsert, query or delete, final listing)
ob_eviction / ob_eviction3  real MemoryWorkflowStore(max_completed=m) under symbolic op scripts, checked after every op"""
from __future__ import annotations

import vlib.boot  # noqa: F401
from vlib.boot import B, drive
from vlib.ob import obligation
from vlib.h_stores import TmpDir, handler_key, pick_int, warm_sqlite

import os
from datetime import datetime, timezone

from llama_agents.server._store.abstract_workflow_store import HandlerQuery, PersistentHandler
from llama_agents.server._store.memory_workflow_store import MemoryWorkflowStore, _matches_query
from llama_agents.server._store.sqlite.sqlite_workflow_store import SqliteWorkflowStore
from workflows.events import StopEvent

ENCODED = [
    "llama_agents.server._store.memory_workflow_store:_matches_query",
    "llama_agents.server._store.memory_workflow_store:MemoryWorkflowStore.query",
    "llama_agents.server._store.memory_workflow_store:MemoryWorkflowStore.update",
    "llama_agents.server._store.memory_workflow_store:MemoryWorkflowStore.delete",
    "llama_agents.server._store.memory_workflow_store:MemoryWorkflowStore._evict_oldest_completed",
    "llama_agents.server._store.sqlite.sqlite_workflow_store:SqliteWorkflowStore._build_filters",
    "llama_agents.server._store.sqlite.sqlite_workflow_store:SqliteWorkflowStore.query",
    "llama_agents.server._store.sqlite.sqlite_workflow_store:SqliteWorkflowStore.update",
    "llama_agents.server._store.sqlite.sqlite_workflow_store:SqliteWorkflowStore.delete",
    "llama_agents.server._store.sqlite.sqlite_workflow_store:_row_to_persistent_handler",
    "llama_agents.server._store.abstract_workflow_store:AbstractWorkflowStore.update_handler_status",
]
ASSUMES = [
    "ob_matches_query_spec: field values are abstract tokens (symbolic ints standing for ids / names / statuses; run_id may "
    "be None); _matches_query only applies len / in / == / is-None to them, so the token type does not matter",
    "ob_sqlite_memory_diff: SQLite, pydantic and json execute concretely; values come from a pool (three handlers with a "
    "chosen equality pattern: shared workflow name, one NULL run_id, one idle) and the solver enumerates which filters are "
    "present, their shape (empty / hit / hit+other / miss) and the script; the oracle is the conjunction of filters applied "
    "to a harness-side copy of what was written",
    "delete with NO filter is outside the statement ('a delete with at least one filter'); it is excluded from the differential "
    "(the two stores differ there: memory deletes everything, SQLite nothing)",
    "eviction: 'most recently completed' = order of the latest terminal update of each distinct stored handler; a handler that "
    "is re-upserted as running or deleted is no longer a completed one",
]
OUTSIDE = ["Postgres / agent-data stores", "more than 3 handlers, filter lists longer than 2, scripts longer than the stated bounds",
           "max_completed > 2 or None", "eviction's clean-up of events / ticks / state of the evicted run"]

warm_sqlite()

T0 = datetime(2026, 1, 1, tzinfo=timezone.utc)


# ------------------------------------------------------------------------------------------------ Ob1
def _lst(mode, a, b):
    if mode == 0:
        return None
    if mode == 1:
        return []
    if mode == 2:
        return [a]
    return [a, b]


def _spec1(val, lst) -> bool:
    """one filter of the statement: absent = no constraint; otherwise the value must be one of the listed (empty list: none)"""
    if lst is None:
        return True
    for x in lst:
        if val == x:
            return True
    return False


ACTIVE = B(2, 5)   # how many of the five filters (four lists + is_idle) may be present at once


@obligation(quick=120, thorough=400,
            partitions_quick=["m1 == 0 and m2 == 0", "m1 == 0 and m2 != 0", "m1 != 0 and m2 == 0", "m1 != 0 and m2 != 0 and m1 < 3", "m1 == 3 and m2 != 0"],
            partitions_thorough=[f"m1 == {a} and m2 == {b}" for a in range(4) for b in range(4)],
            what="_matches_query == conjunction of the given filters; an empty list matches nothing; lists of 0..2 values, symbolic equality pattern",
            bounds={"filters present at once": "0..ACTIVE of 5 (4 lists + is_idle)", "list length": "0..2", "values": "symbolic tokens", "run_id": "token or None"})
def ob_matches_query_spec(hid: int, wf: int, rid: int, rid_none: bool, st: int, idle: bool, m1: int, a1: int, b1: int,
                          m2: int, a2: int, b2: int, m3: int, a3: int, b3: int, m4: int, a4: int, b4: int, mi: int) -> bool:
    """
    pre: 0 <= m1 <= 3 and 0 <= m2 <= 3 and 0 <= m3 <= 3 and 0 <= m4 <= 3 and 0 <= mi <= 2
    pre: (m1 != 0) + (m2 != 0) + (m3 != 0) + (m4 != 0) + (mi != 0) <= ACTIVE
    post: _
    """
    h = PersistentHandler.model_construct(
        handler_id=hid, workflow_name=wf, status=st, run_id=(None if rid_none else rid), error=None, result=None,
        started_at=None, updated_at=None, completed_at=None, idle_since=(T0 if idle else None))
    q = HandlerQuery(handler_id_in=_lst(m1, a1, b1), run_id_in=_lst(m2, a2, b2), workflow_name_in=_lst(m3, a3, b3),  # type: ignore[arg-type]
                     status_in=_lst(m4, a4, b4), is_idle=(None if mi == 0 else (mi == 1)))  # type: ignore[arg-type]
    want = (_spec1(h.handler_id, q.handler_id_in) and _spec1(h.run_id, q.run_id_in) and _spec1(h.workflow_name, q.workflow_name_in)
            and _spec1(h.status, q.status_in) and (q.is_idle is None or q.is_idle == (h.idle_since is not None)))
    return _matches_query(h, q) == want


# ------------------------------------------------------------------------------------------------ Ob2
# three handlers with a chosen equality pattern: h0/h2 share the workflow name, h2 has no run id, h1 is idle
_POOL = [
    {"hid": "h0", "wf": "w0", "rid": "r0", "status": "running", "idle": False},
    {"hid": "h1", "wf": "w1", "rid": "r1", "status": "completed", "idle": True},
    {"hid": "h2", "wf": "w0", "rid": None, "status": "failed", "idle": False},
]
_FIELDS = ["hid", "rid", "wf", "status"]


def _to_handler(d) -> PersistentHandler:
    return PersistentHandler(handler_id=d["hid"], workflow_name=d["wf"], status=d["status"], run_id=d["rid"],
                             idle_since=(T0 if d["idle"] else None), result=d.get("result"))


def _filter_values(field: str, mode: int):
    """mode 0: [] ; 1: [value of h0] ; 2: [value of h0, value of h1] ; 3: [a value nobody has] ; 4: [value of h1]"""
    v0, v1 = _POOL[0][field], _POOL[1][field]
    if mode == 0:
        return []
    if mode == 1:
        return [v0]
    if mode == 2:
        return [v0, v1]
    if mode == 3:
        return ["cancelled" if field == "status" else "zz"]
    return [v1]


def _build_query(f1: int, mo1: int, f2: int, mo2: int):
    """f in 0..3: list filter on _FIELDS[f]; 4: is_idle filter (mode even = True); 5: no filter.  Returns (HandlerQuery, dict)."""
    flt = {}
    for f, mo in ((f1, mo1), (f2, mo2)):
        if f == 5:
            continue
        if f == 4:
            flt["idle"] = (mo % 2 == 0)
        else:
            flt[_FIELDS[f]] = _filter_values(_FIELDS[f], mo)
    q = HandlerQuery(handler_id_in=flt.get("hid"), run_id_in=flt.get("rid"), workflow_name_in=flt.get("wf"),
                     status_in=flt.get("status"), is_idle=flt.get("idle"))
    return q, flt


def _spec_match(d, flt) -> bool:
    for k, v in flt.items():
        if k == "idle":
            if v != d["idle"]:
                return False
        elif d[k] not in v:
            return False
    return True


def _listing(store, q):
    return sorted(handler_key(h) for h in drive(store.query(q)))


def _model_key(d):
    r = d.get("result")
    return (d["hid"], d["wf"], d["status"], d["rid"], d.get("error"), d["idle"], None if r is None else (type(r).__name__, r.result))


MODES = B(4, 5)
OP1 = B(2, 3)


@obligation(quick=150, thorough=500,
            partitions_quick=[f"is_delete == {d} and f1 {c}" for d in (True, False) for c in ("== 0", "== 1", ">= 2")],
            partitions_thorough=[f"is_delete == {d} and op1 == {o} and f1 == {f}" for d in (True, False) for o in (0, 1, 2) for f in range(6)
                                 if not (d and f == 5)],   # f1 == 5 forces f2 == 5, excluded for deletes by the pre
            what="script: upsert h0,h1,h2 ; optional status update / re-upsert ; query or delete with 0..2 filters ; final listing — SQLite == memory == conjunction spec",
            bounds={"filters": "any 0..2 of {handler_id, run_id, workflow_name, status, is_idle}", "list shape": "MODES shapes (empty, hit, hit+other, miss, other)",
                    "middle op": "none / update_handler_status(completed, result) / re-upsert h0 with other name+idle (quick: status update only before queries on status / is_idle / no filter; re-upsert thorough only)", "last op": "query / delete"})
def ob_sqlite_memory_diff(f1: int, mo1: int, f2: int, mo2: int, op1: int, is_delete: bool) -> bool:
    """
    pre: 0 <= f1 <= f2 <= 5 and 0 <= mo1 < MODES and 0 <= mo2 < MODES and 0 <= op1 < OP1
    pre: (f1 != 5 or mo1 == 0) and (f2 != 5 or mo2 == 0) and (f1 != 4 or mo1 <= 1) and (f2 != 4 or mo2 <= 1)
    pre: not (is_delete and f1 == 5 and f2 == 5)
    pre: OP1 == 3 or op1 == 0 or (f1 >= 3 and not is_delete)
    post: _
    """
    f1, f2 = pick_int(f1, 0, 5), pick_int(f2, 0, 5)
    mo1, mo2 = pick_int(mo1, 0, MODES - 1), pick_int(mo2, 0, MODES - 1)
    op1 = pick_int(op1, 0, OP1 - 1)
    model = [dict(d) for d in _POOL]
    with TmpDir() as tmp:
        sq = SqliteWorkflowStore(os.path.join(tmp, "s.db"))
        mem = MemoryWorkflowStore()
        for st in (sq, mem):
            for d in _POOL:
                drive(st.update(_to_handler(d)))
            if op1 == 1:
                drive(st.update_handler_status("r0", status="completed", result=StopEvent(result="x")))
            elif op1 == 2:
                drive(st.update(_to_handler(dict(_POOL[0], wf="w1", idle=True))))
        if op1 == 1:
            model[0].update(status="completed", result=StopEvent(result="x"))
        elif op1 == 2:
            model[0].update(wf="w1", idle=True)
        q, flt = _build_query(f1, mo1, f2, mo2)
        want = sorted(_model_key(d) for d in model if _spec_match(d, flt))
        if is_delete:
            n_sq = drive(sq.delete(q))
            n_mem = drive(mem.delete(q))
            if n_sq != len(want) or n_mem != len(want):
                return False
            rest = sorted(_model_key(d) for d in model if not _spec_match(d, flt))
            return _listing(sq, HandlerQuery()) == rest and _listing(mem, HandlerQuery()) == rest
        got_sq = _listing(sq, q)
        got_mem = _listing(mem, q)
        everything = sorted(_model_key(d) for d in model)
        return got_sq == want and got_mem == want and _listing(sq, HandlerQuery()) == everything and _listing(mem, HandlerQuery()) == everything


@obligation(quick=120, thorough=300, partitions_quick=["is_delete", "not is_delete"], partitions_thorough=["is_delete", "not is_delete"],
            what="a list filter is a SET of admissible values: a value listed more than once (ids gathered from several sources) changes nothing — "
                 "query returns each matching handler once, delete removes it once and counts it once; SQLite == memory == conjunction spec",
            bounds={"filter field": "handler_id / run_id / workflow_name / status", "list": "[v0, v0] / [v0, v1, v0] / [miss, miss] / [v1, v1, v1]",
                    "second filter": "none / is_idle", "last op": "query / delete"})
def ob_repeated_filter_values(f: int, shape: int, idle: int, is_delete: bool) -> bool:
    """
    pre: 0 <= f <= 3 and 0 <= shape <= 3 and 0 <= idle <= 2
    post: _
    """
    f, shape, idle = pick_int(f, 0, 3), pick_int(shape, 0, 3), pick_int(idle, 0, 2)
    field = _FIELDS[f]
    v0, v1 = _POOL[0][field], _POOL[1][field]
    miss = "cancelled" if field == "status" else "zz"
    vals = [[v0, v0], [v0, v1, v0], [miss, miss], [v1, v1, v1]][shape]
    flt = {field: vals}
    if idle:
        flt["idle"] = idle == 1
    q = HandlerQuery(handler_id_in=flt.get("hid"), run_id_in=flt.get("rid"), workflow_name_in=flt.get("wf"), status_in=flt.get("status"),
                     is_idle=flt.get("idle"))
    model = [dict(d) for d in _POOL]
    want = sorted(_model_key(d) for d in model if _spec_match(d, flt))
    rest = sorted(_model_key(d) for d in model if not _spec_match(d, flt))
    with TmpDir() as tmp:
        sq = SqliteWorkflowStore(os.path.join(tmp, "s.db"))
        mem = MemoryWorkflowStore()
        for st in (sq, mem):
            for d in _POOL:
                drive(st.update(_to_handler(d)))
        for st in (sq, mem):
            if is_delete:
                try:
                    n = drive(st.delete(q))
                except Exception:
                    return False
                if n != len(want) or _listing(st, HandlerQuery()) != rest:
                    return False
            else:
                got = [handler_key(h) for h in drive(st.query(q))]
                if sorted(got) != want or len(got) != len(set(got)):
                    return False
    return True


# ------------------------------------------------------------------------------------------------ Ob3 eviction
def _dup_terminal(nh: int, n: int, ops) -> bool:
    """some handler receives two or more terminal updates within the first n ops (op code = kind * nh + handler, kind 1 = terminal)"""
    for h in range(nh):
        c = 0
        for i in range(len(ops)):
            if i < n and ops[i] == nh + h:
                c += 1
        if c >= 2:
            return True
    return False


def _eviction_script(nh: int, m: int, n: int, ops) -> bool:
    m = pick_int(m, 0, 2)
    n = pick_int(n, 1, len(ops))
    st = MemoryWorkflowStore(max_completed=m)
    live = {}      # handler id -> "running" | "terminal"   (what the statement says must be stored)
    order = []     # stored terminal handlers, least recently completed first
    for i in range(n):
        o = pick_int(ops[i], 0, 3 * nh - 1)
        kind, hi = o // nh, o % nh
        hid = "h%d" % hi
        if kind == 0:
            drive(st.update(PersistentHandler(handler_id=hid, workflow_name="w", status="running", run_id="r%d" % hi)))
            live[hid] = "running"
            if hid in order:
                order.remove(hid)
        elif kind == 1:
            drive(st.update(PersistentHandler(handler_id=hid, workflow_name="w", status=("completed", "failed", "cancelled")[i % 3], run_id="r%d" % hi)))
            live[hid] = "terminal"
            if hid in order:
                order.remove(hid)
            order.append(hid)
            while len(order) > m:
                del live[order.pop(0)]
        else:
            drive(st.delete(HandlerQuery(handler_id_in=[hid])))
            live.pop(hid, None)
            if hid in order:
                order.remove(hid)
        stored = {h.handler_id: ("running" if h.status == "running" else "terminal") for h in drive(st.query(HandlerQuery()))}
        if stored != live:
            return False
    return True


EV_N = B(3, 6)


@obligation(quick=150, thorough=900, partitions_quick=[f"m == {m}" for m in (0, 1, 2)],
            partitions_thorough=[f"m == {m} and o0 == {a} and o1 {c}" for m in (0, 1, 2) for a in range(6) for c in ("< 3", ">= 3")],
            what="MemoryWorkflowStore(max_completed=m): after every op, stored = all non-terminal handlers + the m most recently completed distinct handlers (2 handler ids)",
            bounds={"max_completed": "0..2", "ops": "1..EV_N of {upsert running, terminal update, delete} x 2 handlers (incl. repeated terminal update, re-upsert as running)"})
def ob_eviction(m: int, n: int, o0: int, o1: int, o2: int, o3: int, o4: int, o5: int) -> bool:
    """
    pre: 0 <= m <= 2 and 1 <= n <= EV_N
    pre: 0 <= o0 <= 5 and 0 <= o1 <= 5 and 0 <= o2 <= 5 and 0 <= o3 <= 5 and 0 <= o4 <= 5 and 0 <= o5 <= 5
    pre: (n > 1 or o1 == 0) and (n > 2 or o2 == 0) and (n > 3 or o3 == 0) and (n > 4 or o4 == 0) and (n > 5 or o5 == 0)
    post: _
    """
    return _eviction_script(2, m, n, [o0, o1, o2, o3, o4, o5][:EV_N])


EV3_N = B(3, 4)


@obligation(quick=150, thorough=900, partitions_quick=[f"m == {m}" for m in (0, 1, 2)],
            partitions_thorough=[f"m == {m} and o0 == {a} and o1 {c}" for m in (0, 1, 2) for a in (0, 3, 6) for c in ("< 3", "in (3, 4, 5)", ">= 6")],
            what="same as ob_eviction with 3 handler ids (two older completions competing with a newer one)",
            bounds={"max_completed": "0..2", "ops": "1..EV3_N of {upsert running, terminal update, delete} x 3 handlers; first op on h0 (ids are interchangeable)"})
def ob_eviction3(m: int, n: int, o0: int, o1: int, o2: int, o3: int) -> bool:
    """
    pre: 0 <= m <= 2 and 1 <= n <= EV3_N
    pre: 0 <= o0 <= 8 and 0 <= o1 <= 8 and 0 <= o2 <= 8 and 0 <= o3 <= 8
    pre: (n > 1 or o1 == 0) and (n > 2 or o2 == 0) and (n > 3 or o3 == 0)
    pre: o0 % 3 == 0
    post: _
    """
    return _eviction_script(3, m, n, [o0, o1, o2, o3][:EV3_N])


_RE_OPS = [3, 4, 5, 0, 6]   # terminal h0 / h1 / h2, re-upsert h0 as running, delete h0


@obligation(quick=200, thorough=600, partitions_quick=[f"o0 == {a} and m == {m}" for a in range(3) for m in (1, 2)],
            partitions_thorough=[f"o0 == {a} and o1 == {b} and m == {m}" for a in range(3) for b in range(5) for m in (1, 2)],
            what="re-completion histories (3 handler ids, max_completed 1..2): scripts of 5 (thorough 6) ops over {complete h0/h1/h2, re-upsert h0 as "
                 "running, delete h0}: repeated terminal updates move a handler to the back, a handler that was re-opened or deleted and completes "
                 "again counts as a fresh completion; after every op stored = non-terminal + the m most recently completed",
            bounds={"max_completed": "1..2", "ops": "5 (quick) / 6 (thorough) from 5 op codes, first op a completion"})
def ob_eviction_recompletion(m: int, o0: int, o1: int, o2: int, o3: int, o4: int, o5: int) -> bool:
    """
    pre: 1 <= m <= 2 and 0 <= o0 <= 2 and 0 <= o1 <= 4 and 0 <= o2 <= 4 and 0 <= o3 <= 4 and 0 <= o4 <= 4 and 0 <= o5 <= 4
    pre: RE_N >= 6 or o5 == 0
    post: _
    """
    ops = [_RE_OPS[pick_int(o, 0, 4)] for o in (o0, o1, o2, o3, o4, o5)][:RE_N]
    return _eviction_script(3, m, RE_N, ops)


RE_N = B(5, 6)


# ------------------------------------------------------------------------------------------------ the idle marker can be set AND cleared


@obligation(quick=150, thorough=400, partitions_quick=[f"o0 == {a}" for a in range(5)], partitions_thorough=[f"o0 == {a} and o1 == {b}" for a in range(5) for b in range(5)],
            what="idle marker life cycle on one handler: scripts of 3 (thorough 4) ops over {upsert idle / upsert not idle / update_handler_status("
                 "idle_since=t) / update_handler_status(idle_since=None) / update_handler_status(status only: marker untouched)}: after every op "
                 "query(is_idle=True) and query(is_idle=False) give the same answer on SQLite, on the memory store and in the model, and a delete "
                 "filtered on is_idle removes exactly the matching handler",
            bounds={"ops": "3 (quick) / 4 (thorough) from 5 op codes", "final delete": "is_idle True / False"})
def ob_idle_marker_lifecycle(o0: int, o1: int, o2: int, o3: int, del_idle: bool) -> bool:
    """
    pre: 0 <= o0 <= 4 and 0 <= o1 <= 4 and 0 <= o2 <= 4 and 0 <= o3 <= 4 and (IDLE_N >= 4 or o3 == 0)
    post: _
    """
    ops = [pick_int(o, 0, 4) for o in (o0, o1, o2, o3)][:IDLE_N]
    del_idle = True if del_idle else False
    idle = False          # model: the marker of handler h0 (created not idle)
    with TmpDir() as tmp:
        sq = SqliteWorkflowStore(os.path.join(tmp, "s.db"))
        mem = MemoryWorkflowStore()
        stores = (sq, mem)
        for st in stores:
            drive(st.update(PersistentHandler(handler_id="h0", workflow_name="w", status="running", run_id="r0")))
            drive(st.update(PersistentHandler(handler_id="h9", workflow_name="w", status="running", run_id="r9", idle_since=T0)))  # a bystander that stays idle
        for o in ops:
            for st in stores:
                if o == 0:
                    drive(st.update(PersistentHandler(handler_id="h0", workflow_name="w", status="running", run_id="r0", idle_since=T0)))
                elif o == 1:
                    drive(st.update(PersistentHandler(handler_id="h0", workflow_name="w", status="running", run_id="r0", idle_since=None)))
                elif o == 2:
                    drive(st.update_handler_status("r0", idle_since=T0))
                elif o == 3:
                    drive(st.update_handler_status("r0", idle_since=None))
                else:
                    drive(st.update_handler_status("r0", status="running"))
            if o in (0, 2):
                idle = True
            elif o in (1, 3):
                idle = False
            for st in stores:
                yes = sorted(h.handler_id for h in drive(st.query(HandlerQuery(is_idle=True))))
                no = sorted(h.handler_id for h in drive(st.query(HandlerQuery(is_idle=False))))
                if yes != (["h0", "h9"] if idle else ["h9"]) or no != ([] if idle else ["h0"]):
                    return False
        for st in stores:
            n = drive(st.delete(HandlerQuery(status_in=["running"], is_idle=del_idle)))
            left = sorted(h.handler_id for h in drive(st.query(HandlerQuery())))
            gone = (["h0", "h9"] if idle else ["h9"]) if del_idle else ([] if idle else ["h0"])
            if n != len(gone) or left != sorted(x for x in ("h0", "h9") if x not in gone):
                return False
    return True


IDLE_N = B(3, 4)
