"""C04 — every run that finishes has exactly one outcome (result / step failure / cancellation / timeout) and its
published stream ends with exactly one terminal event of the matching kind, nothing after it, so stream consumers
terminate.

(1) reducer: the command list of any tick contains at most one exit command; if one, exactly one terminal publish of
    the matching class precedes it and no publish follows it; is_running' is False except for cancellation;
(2) runner: the real _process_tick executes that list in order, returns/raises the matching outcome, publishes nothing
    after the terminal event and drops pending workers;  (3) no outcome without terminal event, also when the user
    retry policy misbehaves;  (4) the real stream_published_events yields exactly the prefix up to and including the
    first StopEvent instance;  (5, thorough) whole runs with workers racing a StopEvent."""
from __future__ import annotations

import vlib.boot  # noqa: F401
from vlib.boot import B, drive
from vlib.h_idle import install_speedups
from vlib.h_handlers import conc  # noqa: F401  (imported at module level: registers its CrossHair patch before the analysis starts)
from vlib.ob import obligation
from vlib.world import (
    EVA, EVB, EVC, MYSTOP, STOP, EvA, EvB, EvC, MyStop, StartEvent, StubPolicy, broker, in_progress, step_config, worker_state, world_ab,
    world_ab_valid,
)

from workflows import Context, Workflow, step  # noqa: F401  (module scope: step annotations are resolved against it)
from workflows.errors import WorkflowCancelledByUser, WorkflowTimeoutError
from workflows.events import (
    Event,
    StopEvent, WorkflowCancelledEvent, WorkflowFailedEvent, WorkflowTimedOutEvent,
)
from workflows.runtime.control_loop import _ControlLoopRunner, _reduce_tick
from workflows.runtime.types.commands import (
    CommandCompleteRun, CommandFailWorkflow, CommandHalt, CommandPublishEvent, indicates_exit,
)
from workflows.runtime.types.plugin import InternalRunAdapter
from workflows.runtime.types.results import AddCollectedEvent, StepWorkerFailed, StepWorkerResult
from workflows.runtime.types.ticks import (
    TickAddEvent, TickCancelRun, TickIdleCheck, TickStepResult, TickTimeout, TickWaiterTimeout,
)

install_speedups()  # tooling only (logging off, native reflection of workflow classes); see vlib.h_idle

ENCODED = [
    "workflows.runtime.control_loop:_reduce_tick",
    "workflows.runtime.control_loop:_process_step_result_tick",
    "workflows.runtime.control_loop:_process_cancel_run_tick",
    "workflows.runtime.control_loop:_process_timeout_tick",
    "workflows.runtime.control_loop:_ControlLoopRunner._process_tick",
    "workflows.runtime.control_loop:_ControlLoopRunner.process_command",
    "workflows.runtime.control_loop:_ControlLoopRunner.cleanup_tasks",
    "workflows.plugins.basic:ExternalAsyncioAdapter.stream_published_events",
]
ASSUMES = [
    "pre-state satisfies REP (C01)", "adapter = recording stub (environment); no worker task is running in the runner-level obligations "
    "(worker_tasks empty) so cleanup_tasks never suspends",
    "user retry policy = StubPolicy: None / 0 / delay / raises",
    "TickIdleRelease (idle release is not one of the four outcomes of the statement) is outside the obligations",
]
OUTSIDE = ["steps that swallow cancellation and write to the stream afterwards", "DBOS adapter", "num_workers > 2"]

_ERR = ValueError("boom")


def _tick(tk: int, kind: int):
    if tk == 0:
        return TickCancelRun()
    if tk == 1:
        return TickTimeout(timeout=3.0)
    if tk == 2:
        return TickAddEvent.model_construct(event=(EVA if kind % 2 == 0 else EVC), step_name=None, attempts=None, first_attempt_at=None,
                                            last_exception=None, last_failed_at=None, recovery_counts={})
    if tk == 3:
        return TickWaiterTimeout(step_name="a", waiter_id="w1") if kind % 2 == 0 else TickIdleCheck()
    if kind == 0:
        res = [StepWorkerResult.model_construct(result=STOP)]
    elif kind == 1:
        res = [StepWorkerResult.model_construct(result=MYSTOP)]
    elif kind == 2:
        res = [StepWorkerFailed.model_construct(exception=_ERR, failed_at=2.0)]
    elif kind == 3:
        res = [StepWorkerResult.model_construct(result=EVB)]
    elif kind == 4:
        res = [StepWorkerResult.model_construct(result=None)]
    else:
        res = [AddCollectedEvent.model_construct(event_id="buf", event=EVA)]
    return TickStepResult.model_construct(step_name="a", worker_id=0, event=EVA, result=res)


def _terminal_kind(ev) -> int:
    """0 none, 1 result, 2 failed, 3 cancelled, 4 timed out (exact classes of the statement)."""
    if isinstance(ev, WorkflowFailedEvent):
        return 2
    if isinstance(ev, WorkflowCancelledEvent):
        return 3
    if isinstance(ev, WorkflowTimedOutEvent):
        return 4
    if isinstance(ev, StopEvent):
        return 1
    return 0


def _exit_kind(cmd) -> int:
    if isinstance(cmd, CommandCompleteRun):
        return 1
    if isinstance(cmd, CommandFailWorkflow):
        return 2
    if isinstance(cmd, CommandHalt):
        if isinstance(cmd.exception, WorkflowCancelledByUser):
            return 3
        if isinstance(cmd.exception, WorkflowTimeoutError):
            return 4
    return 0


@obligation(quick=120, thorough=400,
            partitions_quick=[f"tk == {t}" for t in range(4)] + [f"tk == 4 and kind == {k}" for k in range(6)],
            partitions_thorough=[f"tk == {t} and nw == {n}" for t in range(4) for n in (1, 2)] + [f"tk == 4 and kind == {k} and nw == {n}" for k in range(6) for n in (1, 2)],
            what="reducer: at most one exit command per tick; it is preceded by exactly one terminal publish of the matching class "
                 "(the very StopEvent / exception it carries), nothing is published after it, is_running' False except cancel",
            bounds={"num_workers": "1..2", "queue": "0..2", "ticks": "cancel/timeout/add/waiter-timeout/idle-check/step-result x6", "policy": "None/0/delay/raises"})
def ob_exit_shape(nw: int, b0: bool, b1: bool, q: int, wk: int, tk: int, kind: int, pol: int, bb: bool, bq: int) -> bool:
    """
    pre: 1 <= nw <= 2 and world_ab_valid(nw, b0, b1, False, q, bb, bq) and q <= 2 and bq <= 1
    pre: 0 <= wk <= 3 and 0 <= tk <= 4 and 0 <= kind <= 5 and 0 <= pol <= 3
    pre: tk != 4 or b0
    post: _
    """
    st = world_ab(nw, b0, b1, False, q, wait_kind=wk, policy=StubPolicy(pol), b_busy=bb, b_q=bq, buf_live=1, buf_snap=0)
    st2, cmds = _reduce_tick(_tick(tk, kind), st, 3, "r")
    exits = [i for i, c in enumerate(cmds) if indicates_exit(c)]
    terminals = [i for i, c in enumerate(cmds) if isinstance(c, CommandPublishEvent) and _terminal_kind(c.event) != 0]
    if not exits:
        # no outcome: no terminal event may be published and the run stays as it was
        return not terminals and (st2.is_running == st.is_running)
    if len(exits) != 1 or len(terminals) != 1:
        return False
    ei, ti = exits[0], terminals[0]
    if ti > ei:
        return False
    for j in range(ti + 1, len(cmds)):
        if isinstance(cmds[j], CommandPublishEvent):
            return False
    ek = _exit_kind(cmds[ei])
    if ek == 0 or ek != _terminal_kind(cmds[ti].event):
        return False
    if ek == 1 and cmds[ei].result is not cmds[ti].event:
        return False
    if ek == 2 and (cmds[ei].exception is not _ERR or cmds[ti].event.exception is not _ERR):
        return False
    if ek == 3:
        return st2.is_running == st.is_running
    return st2.is_running is False


@obligation(quick=120, thorough=300, partitions_quick=[f"pol == {p}" for p in range(4)],
            what="reducer, step failure in a workflow WITH @catch_error handlers (wildcard handler, recovery budget symbolic: unused, partly "
                 "used, spent; the failing step an ordinary step or the handler itself): whenever the tick ends the run, the exit command is "
                 "preceded by exactly one terminal publish of the matching class carrying the same exception; whenever it does not, nothing "
                 "terminal is published",
            bounds={"max_recoveries": "1..2", "recoveries already used by the lineage": "0..3", "policy": "None/0/delay/raises", "failing step": "s1 / handler"})
def ob_exit_shape_with_handlers(m: int, rc: int, pol: int, in_handler: bool, has_hw: bool) -> bool:
    """
    pre: 1 <= m <= 2 and 0 <= rc <= 3 and 0 <= pol <= 3
    pre: has_hw or not in_handler
    post: _
    """
    from workflows.events import StepFailedEvent
    from workflows.representation.validate import _collect_catch_error_handlers

    cfgs = {"s1": step_config([StartEvent, EvA], 1, StubPolicy(pol)), "s2": step_config([EvB], 1, None)}
    if has_hw:
        cfgs["hw"] = step_config([StepFailedEvent], 1, None, role="catch_error", for_steps=None, max_recoveries=m)
    handlers, hfs = _collect_catch_error_handlers(cfgs)
    failing = "hw" if in_handler else "s1"
    ev = EVA
    if in_handler:
        ev = StepFailedEvent(step_name="s1", exception=ValueError("first"), input_event=EVA, attempts=1, elapsed_seconds=0.0,
                             failed_at=__import__("datetime").datetime(2025, 1, 1, tzinfo=__import__("datetime").timezone.utc))
    ips = {n: [] for n in cfgs}
    ips[failing] = [in_progress(failing, ev, 0, recovery_counts=({"hw": rc} if rc else {}))]
    st = broker({n: worker_state(c, [], ips[n], {}, []) for n, c in cfgs.items()}, handlers=handlers, handler_for_step=hfs)
    tick = TickStepResult.model_construct(step_name=failing, worker_id=0, event=ev,
                                          result=[StepWorkerFailed.model_construct(exception=_ERR, failed_at=1.0)])
    st2, cmds = _reduce_tick(tick, st, 3, "r")
    exits = [i for i, c in enumerate(cmds) if indicates_exit(c)]
    terminals = [i for i, c in enumerate(cmds) if isinstance(c, CommandPublishEvent) and _terminal_kind(c.event) != 0]
    if not exits:
        return not terminals and st2.is_running == st.is_running
    if len(exits) != 1 or len(terminals) != 1 or terminals[0] > exits[0]:
        return False
    for j in range(terminals[0] + 1, len(cmds)):
        if isinstance(cmds[j], CommandPublishEvent):
            return False
    if _exit_kind(cmds[exits[0]]) != 2 or _terminal_kind(cmds[terminals[0]].event) != 2:
        return False
    return cmds[exits[0]].exception is cmds[terminals[0]].event.exception and st2.is_running is False


class _Adapter(InternalRunAdapter):
    def __init__(self) -> None:
        self.published: list = []
        self.ticks: list = []
        self.closed = 0

    @property
    def run_id(self) -> str:
        return "r"

    async def write_to_event_stream(self, event) -> None:
        self.published.append(event)

    async def get_now(self) -> float:
        return 3

    async def send_event(self, tick) -> None:
        raise vlib.boot.HarnessError("unexpected")

    async def wait_receive(self, timeout_seconds=None):
        raise vlib.boot.HarnessError("unexpected")

    async def on_tick(self, tick) -> None:
        self.ticks.append(tick)

    async def close(self) -> None:
        self.closed += 1

    def get_state_store(self):
        return None


def _runner(state, adapter) -> _ControlLoopRunner:
    r = _ControlLoopRunner.__new__(_ControlLoopRunner)
    r.workflow = None
    r.adapter = adapter
    r.context = None
    r.step_workers = {}
    r.state = state
    r.worker_tasks = set()
    r.tick_buffer = []
    r.scheduled_wakeups = []
    r._wakeup_sequence = 0
    r._pull_sequence = 0
    r._task_keys = {}
    r._idle_check_pending = False
    r._pending_workers = []
    return r


@obligation(quick=120, thorough=400,
            partitions_quick=[f"tk == {t}" for t in range(4)] + [f"tk == 4 and kind == {k}" for k in range(6)],
            partitions_thorough=[f"tk == {t} and nw == {n}" for t in range(4) for n in (1, 2)] + [f"tk == 4 and kind == {k} and nw == {n}" for k in range(6) for n in (1, 2)],
            what="runner: the real _process_tick returns a result or raises ONLY after publishing exactly one terminal event of the "
                 "matching kind as the last publication; otherwise publishes no terminal event; also when the user policy raises",
            bounds={"num_workers": "1..2", "queue": "0..1", "policy": "None/0/delay/raises"})
def ob_runner_outcome(nw: int, b0: bool, b1: bool, q: int, wk: int, tk: int, kind: int, pol: int) -> bool:
    """
    pre: 1 <= nw <= 2 and world_ab_valid(nw, b0, b1, False, q) and q <= 1
    pre: 0 <= wk <= 3 and 0 <= tk <= 4 and 0 <= kind <= 5 and 0 <= pol <= 3
    pre: tk != 4 or b0
    post: _
    """
    st = world_ab(nw, b0, b1, False, q, wait_kind=wk, policy=StubPolicy(pol), buf_live=1, buf_snap=0)
    ad = _Adapter()
    r = _runner(st, ad)
    outcome = 0
    result = None
    try:
        result = drive(r._process_tick(_tick(tk, kind)))
        if result is not None:
            outcome = 1
    except WorkflowCancelledByUser:
        outcome = 3
    except WorkflowTimeoutError:
        outcome = 4
    except ValueError as e:
        outcome = 2 if e is _ERR else 9
    except RuntimeError:
        outcome = 9  # the run died with something that is none of the four outcomes
    terms = [e for e in ad.published if _terminal_kind(e) != 0]
    if outcome == 0:
        return not terms
    if outcome == 9:
        return False
    if len(terms) != 1 or ad.published[-1] is not terms[0] or _terminal_kind(terms[0]) != outcome:
        return False
    if outcome == 1 and result is not terms[0]:
        return False
    return not r._pending_workers and ad.closed >= 1


@obligation(quick=90, thorough=300, partitions_quick=[f"n == {k}" for k in range(1, 5)], partitions_thorough=[f"n == {k} and tkind == {t}" for k in range(1, 5) for t in range(5)],
            what="the real ExternalAsyncioAdapter.stream_published_events (what handler.stream_events() reads) "
            "yields exactly the published prefix up to and including the first StopEvent instance, then stops - whether the consumer starts "
            "while the run is live or only after it has finished",
            bounds={"published events": "1..4", "terminal position": "0..3", "terminal class": "Stop/MyStop/Failed/Cancelled/TimedOut"})
def ob_stream_ends(n: int, pos: int, tkind: int, extra_after: bool, late: bool = False) -> bool:
    """
    pre: 1 <= n <= 4 and 0 <= pos < n and 0 <= tkind <= 4
    post: _
    """
    import asyncio

    from vlib.miniloop import MiniLoop
    from workflows.plugins.basic import AsyncioAdapterQueues, BasicRuntime, ExternalAsyncioAdapter
    from workflows.runtime.types.internal_state import BrokerState

    if tkind == 0:
        term = StopEvent(result=1)
    elif tkind == 1:
        term = MyStop()
    elif tkind == 2:
        term = WorkflowFailedEvent(step_name="a", exception=_ERR, attempts=1, elapsed_seconds=0.0)
    elif tkind == 3:
        term = WorkflowCancelledEvent()
    else:
        term = WorkflowTimedOutEvent(timeout=1.0, active_steps=[])
    seq = []
    for i in range(n):
        seq.append(term if i == pos else EvB())
    if extra_after:
        seq.append(EvC())
    got: list = []

    async def main():
        rt = BasicRuntime()
        q = AsyncioAdapterQueues(run_id="r", init_state=None)  # type: ignore[arg-type]
        rt._queues["r"] = q

        async def done():
            return term

        q.complete = asyncio.ensure_future(done())
        ext = ExternalAsyncioAdapter(rt, q)
        for e in seq:
            q.publish_queue.put_nowait(e)
        if late:
            await q.complete          # the consumer only starts reading after the run has finished (e.g. `await handler` first)
        async for e in ext.stream_published_events():
            got.append(e)

    MiniLoop().run_until_complete(main())
    return len(got) == pos + 1 and all(got[i] is seq[i] for i in range(pos + 1))


# ------------------------------------------------------------------ thorough: whole runs

@obligation(quick=None, thorough=900,
            partitions_thorough=[f"mode == {m} and c0 == {a}" for m in range(4) for a in range(3)],
            what="whole run on MiniLoop (real run() loop): two workers race; outcome in {StopEvent, step failure, cancel, timeout}; the "
                 "published stream has exactly one terminal event, of the matching kind, and it is the last publication",
            bounds={"schedule decisions": 5, "workers": 2})
def ob_whole_run_terminal(mode: int, c0: int, c1: int, c2: int, c3: int, c4: int) -> bool:
    """
    pre: 0 <= mode <= 3
    pre: 0 <= c0 <= 2 and 0 <= c1 <= 2 and 0 <= c2 <= 2 and 0 <= c3 <= 2 and 0 <= c4 <= 2
    post: _
    """
    import asyncio

    from vlib.sched import Env, SymAdapter, SymRuntime, run_loop
    from workflows import Context, Workflow, step
    from workflows.events import Event

    env = Env([c0, c1, c2, c3, c4])
    published: list = []

    class RecAdapter(SymAdapter):
        async def write_to_event_stream(self, event) -> None:
            published.append(event)
            await super().write_to_event_stream(event)

    class Rt(SymRuntime):
        def get_internal_adapter(self, workflow):
            return RecAdapter(super().get_internal_adapter(workflow), self.env)

    class W(Workflow):
        @step
        async def start(self, ctx: Context, ev: StartEvent) -> SibEv | None:
            ctx.send_event(SibEv(i=0))
            ctx.send_event(SibEv(i=1))
            return None

        @step(num_workers=2)
        async def work(self, ctx: Context, ev: SibEv) -> StopEvent | None:
            await env.gate(ev.i)
            ctx.write_event_to_stream(SibEv(i=10 + ev.i))
            if mode == 1 and ev.i == 0:
                raise ValueError("boom")
            if mode >= 2:
                await env.gate(("hold", ev.i))
                return None
            return StopEvent(result=ev.i)

    outcome: list = []

    async def main():
        h = W(timeout=(5 if mode == 3 else None), runtime=Rt(env)).run(run_id="r")
        if mode == 2:
            for _ in range(30):
                await asyncio.sleep(0)
            await h.cancel_run(timeout=1)
        try:
            outcome.append(("result", await h))
        except WorkflowCancelledByUser:
            outcome.append(("cancel", None))
        except WorkflowTimeoutError:
            outcome.append(("timeout", None))
        except ValueError:
            outcome.append(("failed", None))

    run_loop(main)
    terms = [e for e in published if _terminal_kind(e) != 0]
    want = {"result": 1, "failed": 2, "cancel": 3, "timeout": 4}[outcome[0][0]]
    return len(outcome) == 1 and len(terms) == 1 and published[-1] is terms[0] and _terminal_kind(terms[0]) == want


class SibEv(Event):
    """module level: step annotations are resolved against the module scope"""

    i: int


@obligation(quick=240, thorough=900,
            partitions_quick=[f"mode == {m} and c0 == {a}" for m in range(4) for a in range(3)],
            partitions_thorough=[f"mode == {m} and c0 == {a} and c1 == {b}" for m in range(4) for a in range(3) for b in range(3)],
            what="whole run (real run() loop on the virtual-time loop): the run ends — a worker returns a StopEvent, a worker fails without retry, "
                 "cancel_run arrives, or the run's timeout elapses — while a sibling is still in flight and writes to the stream WHEN IT IS "
                 "CANCELLED (try/finally, except CancelledError): exactly one terminal event of the matching kind, nothing published after it",
            bounds={"schedule decisions": "3 (quick) / 5 (thorough), 3 options each", "workers": 2, "sibling": "streams on cancellation: in finally / in except CancelledError + re-raise / swallows the cancellation / unwinds slowly (2 s)"})
def ob_stop_vs_sibling_cleanup(c0: int, c1: int, c2: int, c3: int, c4: int, style: int, mode: int = 0) -> bool:
    """
    pre: 0 <= c0 <= 2 and 0 <= c1 <= 2 and 0 <= c2 <= 2 and 0 <= c3 <= 2 and 0 <= c4 <= 2 and 0 <= style <= 3 and 0 <= mode <= 3
    pre: THOROUGH_SIB or (c3 == 0 and c4 == 0)
    post: _
    """
    import asyncio

    from vlib.sched import Env, SymAdapter, SymRuntime, run_loop
    from workflows import Context, Workflow, step
    from workflows.events import Event

    style, c0, c1, c2, c3, c4 = conc(style, 0, 3), conc(c0, 0, 2), conc(c1, 0, 2), conc(c2, 0, 2), conc(c3, 0, 2), conc(c4, 0, 2)
    mode = conc(mode, 0, 3)   # how the run ends: 0 a StopEvent, 1 a step failure (no retry), 2 cancel_run from outside, 3 the run's timeout
    env = Env([c0, c1, c2, c3, c4])  # concrete by now: every solver decision is taken before the scenario starts
    published: list = []

    class RecAdapter(SymAdapter):
        async def write_to_event_stream(self, event) -> None:
            published.append(event)
            await super().write_to_event_stream(event)

    class Rt(SymRuntime):
        def get_internal_adapter(self, workflow):
            return RecAdapter(super().get_internal_adapter(workflow), self.env)

    class W(Workflow):
        @step
        async def start(self, ctx: Context, ev: StartEvent) -> SibEv | None:
            ctx.send_event(SibEv(i=0))
            ctx.send_event(SibEv(i=1))
            return None

        @step(num_workers=2)
        async def work(self, ctx: Context, ev: SibEv) -> StopEvent | None:
            if ev.i == 0:
                await env.gate(0)
                if mode == 1:
                    raise RuntimeError("boom")
                return StopEvent(result=0)
            if style == 3:
                try:
                    await env.gate(1)
                finally:
                    await asyncio.shield(asyncio.sleep(2))      # a slow clean-up: the sibling needs longer to unwind than the runner waits for it
                return None
            if style == 0:
                try:
                    await env.gate(1)
                finally:
                    ctx.write_event_to_stream(SibEv(i=21))
                return None
            try:
                await env.gate(1)
            except asyncio.CancelledError:
                ctx.write_event_to_stream(SibEv(i=21))
                if style == 1:
                    raise
            return None

    outcome: list = []

    async def main():
        h = W(timeout=(5 if mode == 3 else None), runtime=Rt(env)).run(run_id="r")
        if mode == 2:
            for _ in range(12):
                await asyncio.sleep(0)
            await h.cancel_run(timeout=1)
        try:
            outcome.append((1, await h))
        except WorkflowCancelledByUser:
            outcome.append((3, None))
        except WorkflowTimeoutError:
            outcome.append((4, None))
        except RuntimeError as e:
            outcome.append((2 if str(e) == "boom" else 0, e))
        except Exception as e:  # noqa: BLE001
            outcome.append((0, e))
        for _ in range(20):  # let every straggler run: nothing may reach the stream after the terminal event
            await asyncio.sleep(0)

    run_loop(main)
    terms = [e for e in published if _terminal_kind(e) != 0]
    if len(outcome) != 1 or outcome[0][0] == 0:
        return False
    if mode == 0 and outcome[0][0] != 1:
        return False
    return len(terms) == 1 and published[-1] is terms[0] and _terminal_kind(terms[0]) == outcome[0][0]


THOROUGH_SIB = B(False, True)


# ------------------------------------------------------------------ the same run_id again
class _AgainWF(Workflow):
    """one step; how the run ends is decided by the start event: 0 StopEvent(result=tag), 1 the step raises"""

    @step
    async def only(self, ev: StartEvent) -> StopEvent:
        if ev.how == 1:
            raise ValueError("boom " + ev.tag)
        return StopEvent(result=ev.tag)


@obligation(quick=120, thorough=300, partitions_quick=[f"how_a == {a} and how_b == {b}" for a in (0, 1) for b in (0, 1)],
            partitions_thorough=[f"how_a == {a} and how_b == {b} and consumed == {c}" for a in (0, 1) for b in (0, 1) for c in (False, True)],
            what="a second run started under the run_id of a FINISHED run of the same runtime (the first handler still referenced, its stream "
                 "consumed or not): either the runtime refuses it, or the second run's stream is its own — exactly one terminal event, the one "
                 "of the second run's outcome, nothing of the first run in it, nothing after it",
            bounds={"outcomes": "StopEvent / step failure, for each run", "first run's stream": "consumed / not consumed"})
def ob_same_run_id_again(how_a: int, how_b: int, consumed: bool) -> bool:
    """
    pre: 0 <= how_a <= 1 and 0 <= how_b <= 1
    post: _
    """
    import asyncio

    from vlib.miniloop import MiniLoop
    from workflows.plugins.basic import BasicRuntime

    how_a, how_b = conc(how_a, 0, 1), conc(how_b, 0, 1)
    consumed = True if consumed else False
    out: dict = {}

    async def main():
        rt = BasicRuntime()
        wf = _AgainWF(timeout=None, runtime=rt)
        ha = wf.run(run_id="same", how=how_a, tag="A")
        first: list = []
        if consumed:
            async for e in ha.stream_events():
                first.append(e)
        try:
            await ha
        except Exception:  # noqa: BLE001
            pass
        out["keep"] = ha                     # the application still holds the first handler
        try:
            hb = wf.run(run_id="same", how=how_b, tag="B")
        except RuntimeError:
            out["refused"] = True
            return
        got: list = []

        async def watch():
            async for e in hb.stream_events():
                got.append(e)

        wt = asyncio.ensure_future(watch())
        try:
            out["result"] = ("result", await asyncio.wait_for(hb, timeout=20))
        except asyncio.TimeoutError:
            out["result"] = ("HUNG", None)
        except Exception as e:  # noqa: BLE001
            out["result"] = ("error", str(e))
        try:
            await asyncio.wait_for(wt, timeout=20)
        except asyncio.TimeoutError:
            out["stream"] = "HUNG"
        out["got"] = got

    MiniLoop().run_until_complete(main())
    if out.get("refused"):
        return True
    if out.get("stream") == "HUNG" or out.get("result", ("HUNG", None))[0] == "HUNG":
        return False
    got = out["got"]
    terminal = [e for e in got if isinstance(e, (StopEvent, WorkflowFailedEvent, WorkflowCancelledEvent, WorkflowTimedOutEvent))]
    if len(terminal) != 1 or got[-1] is not terminal[0]:
        return False
    t = terminal[0]
    if how_b == 0:
        return isinstance(t, StopEvent) and t.result == "B" and out["result"] == ("result", "B")
    return isinstance(t, WorkflowFailedEvent) and "boom B" in str(t.exception) and out["result"][0] == "error" and "boom B" in out["result"][1]
