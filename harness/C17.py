"""C17 — WorkflowClient.get_workflow_events (auto-reconnecting SSE reader) yields every event after a numeric
cursor exactly once, in sequence order, and ``last_sequence`` equals the sequence of the event being yielded.

What runs: the REAL ``WorkflowClient.get_workflow_events`` (its ``reader`` coroutine, ``EventStream._iterate``)
unmodified on MiniLoop.  The client is built through its public constructor with ``httpx_client=`` a scripted object
(the httpx boundary).  Behind that boundary sits the REAL server-side handler: ``_WorkflowAPI._stream_events`` and
``_WorkflowAPI._resolve_event_stream`` (incl. the nested ``format_stream`` that produces ``id: N\\ndata: {...}\\n\\n``),
lifted by AST from the current ``_api.py`` (it needs starlette at import; only the names Request / HTTPException /
StreamingResponse are stand-ins), reading a REAL ``MemoryWorkflowStore`` (``append_event`` / ``subscribe_events``).

Symbolic: the cursor, how many events exist, how many connection faults happen (<= max_reconnect_attempts), and for
each fault either "connect error" or the CHARACTER OFFSET of the response body at which the connection dies (a line
whose terminating newline was not received is never delivered — exactly what ``aiter_lines`` does on an aborted read),
so drops between frames, after ``id:`` but before ``data:``, and after ``data:`` but before the blank line are all
covered; in the live variant also the instants at which the run appends further events, and heart-beat comments.
"""
from __future__ import annotations

import vlib.boot  # noqa: F401
from vlib.boot import B
from vlib.ob import obligation

import asyncio
from types import SimpleNamespace
from typing import Any, List, Optional

import httpx

from vlib import h_idle
from vlib.h_idle import HTTPException, Request, VirtualClocks
from vlib.miniloop import MiniLoop

import llama_agents.server._store.abstract_workflow_store as _abs_store_mod
import llama_agents.server._store.memory_workflow_store as _mem_store_mod
from llama_agents.client.client import WorkflowClient
from llama_agents.client.protocol.serializable_events import EventEnvelopeWithMetadata
from llama_agents.server._store.abstract_workflow_store import PersistentHandler
from llama_agents.server._store.memory_workflow_store import MemoryWorkflowStore
from workflows.events import Event, InternalDispatchEvent, StopEvent

ENCODED = [
    "llama_agents.client.client:WorkflowClient.get_workflow_events",
    "llama_agents.client.client:EventStream._iterate",
    "llama_agents.client.client:EventStream.aclose",
    "llama_agents.client.client:WorkflowClient._get_client",
    "llama_agents.client.client:_raise_for_status_with_body",
    "llama_agents.server._store.memory_workflow_store:MemoryWorkflowStore.subscribe_events",
    "llama_agents.server._store.memory_workflow_store:MemoryWorkflowStore.query_events",
    "llama_agents.server._store.memory_workflow_store:MemoryWorkflowStore.append_event",
    "harness.C17:_Api._stream_events",          # lifted by AST from the current _api.py (incl. nested format_stream)
    "harness.C17:_Api._resolve_event_stream",   # lifted by AST from the current _api.py
]
ASSUMES = [
    "httpx boundary = ScriptedClient: .stream(...) is an async context manager; entering it either raises "
    "httpx.ConnectError (fault kind -1) or calls the REAL lifted _WorkflowAPI._stream_events with the request's "
    "query params/headers; the response exposes status_code / raise_for_status / aiter_lines (httpx's own LineDecoder) / aiter_text",
    "a fault is 'connect error' or 'the connection dies after d complete lines': aiter_lines delivers a line once its "
    "terminating '\\n' was received and raises httpx.ReadError instead of the first line whose newline was not; a "
    "partial line is never delivered (httpx LineDecoder keeps it in its buffer and the exception skips flush()); "
    "ob_cut_at_any_character runs the same check with the fault as a symbolic CHARACTER offset; frames contain only "
    "'\\n' line ends (checked against the f-string in format_stream by AST at import)",
    "starlette names Request/HTTPException/StreamingResponse are data carriers (vlib.h_idle); HTTP status of an "
    "HTTPException raised by the handler becomes the response status (204 / 404)",
    "total number of faults <= max_reconnect_attempts (the statement's 'up to the reconnect limit')",
    "event payloads are small concrete JSON objects; store/append timestamps read the virtual clock",
]
OUTSIDE = [
    "httpx's own byte->text->line decoding and chunking (incl. its splitting on U+2028/U+0085 inside a payload), real sockets, TLS, proxies",
    "after_sequence='now' (the statement is about a numeric cursor)", "more than TMAX events / more than MRA faults",
    "stores other than MemoryWorkflowStore", "an event stream of a run that never terminates",
]

TMAX = B(3, 4)     # events in the run (sequences 0..t-1, the last one is the StopEvent)
MRA = B(2, 3)      # max_reconnect_attempts and number of faults
CUT = 4000         # upper bound for a cut offset (a body is < 1000 characters here)
T2 = B(2, 4)       # events when there are two or more faults
NDI = B(1, 2)      # faults in ob_internal_filter
NDL = B(1, 2)      # faults in ob_live_log
GFREE = B(False, True)  # live log: independent gaps (thorough) or one gap value for all appends (quick)
LMAX = 21          # live log: 3 frames x 3 lines + up to 2 heart-beats (4 lines) per gap

# ---- the real server handler, regenerated from the current source on every run
_API = h_idle.lift_api_methods(["_resolve_event_stream", "_stream_events"])


# the line model above assumes this exact frame shape; a format change must be noticed, not silently mis-modelled
_FRAME = h_idle.sse_frame_format_in_source()
if _FRAME != "id: {sequence}\ndata: {payload}\n\n":
    raise vlib.boot.HarnessError(f"SSE frame shape in _api.py format_stream changed: {_FRAME!r}")


class Ev(Event):
    n: int
    text: str = ""


class Internal(InternalDispatchEvent):
    n: int


class _Api:
    """`self` for the lifted _WorkflowAPI methods: exactly the two attributes they read."""

    _resolve_event_stream = _API["_resolve_event_stream"]
    _stream_events = _API["_stream_events"]

    def __init__(self, store: MemoryWorkflowStore, heartbeat: Optional[float]) -> None:
        self._service = SimpleNamespace(store=store)
        self._sse_heartbeat_interval = heartbeat


# how a dropped connection surfaces in the reader: httpx's own transport errors (httpcore-based transports), or the builtin ConnectionError
# family / a decoding error (in-process ASGI transport, custom transports, a compressed stream that is cut)
_DROP_KINDS = [lambda: httpx.ReadError("connection dropped"), lambda: httpx.RemoteProtocolError("peer closed connection"),
               lambda: ConnectionResetError("connection reset by peer"), lambda: BrokenPipeError("broken pipe"),
               lambda: httpx.DecodingError("incomplete compressed stream"), lambda: ConnectionAbortedError("aborted")]
_DROP: List[int] = [0]


def _drop_exception() -> Exception:
    return _DROP_KINDS[_DROP[0]]()


class _Resp:
    """The response object of one connection.  `keep` = number of complete lines the connection delivers before it
    dies (None: healthy); `cut` = the same fault given as a CHARACTER offset into the body (a line is delivered iff its
    terminating newline lies within the first `cut` characters)."""

    def __init__(self, status: int, body: Any, keep: Optional[int], cut: Optional[int] = None) -> None:
        self.status_code = status
        self._body = body
        self._keep = keep
        self._cut = cut
        self.lines_delivered = 0

    def raise_for_status(self) -> "_Resp":
        if self.status_code >= 400:
            raise httpx.HTTPStatusError("status", request=None, response=None)  # type: ignore[arg-type]
        return self

    async def _delivered(self):
        """what the network delivers: the body text cut into "\n"-terminated pieces, up to the fault"""
        off = 0
        buf = ""
        async for chunk in self._body:
            text = buf + chunk
            parts = text.split("\n")
            buf = parts.pop()
            for ln in parts:
                off = off + len(ln) + 1  # offset just after this line's newline
                if self._keep is not None and self.lines_delivered >= self._keep:
                    raise _drop_exception()
                if self._cut is not None and off > self._cut:
                    raise _drop_exception()
                self.lines_delivered += 1
                yield ln + "\n"
        if buf:
            yield buf

    async def aiter_text(self):
        async for piece in self._delivered():
            yield piece

    async def aiter_lines(self):
        # httpx's own line splitting (it also splits at \r, \x0b, \x0c, \x1c-\x1e, \x85, U+2028, U+2029), not a plain "\n" split
        from httpx._decoders import LineDecoder

        dec = LineDecoder()
        async for piece in self._delivered():
            for line in dec.decode(piece):
                yield line
        for line in dec.flush():
            yield line

    async def aclose(self) -> None:
        if self._body is not None:
            await self._body.aclose()


class _Conn:
    def __init__(self, client: "ScriptedClient", url: str, params: Any, headers: Any) -> None:
        self.c = client
        self.url = url
        self.params = params
        self.headers = headers
        self.resp: Optional[_Resp] = None

    async def __aenter__(self) -> _Resp:
        fault = self.c.next_fault()
        self.c.requests.append(self.params["after_sequence"])
        if fault is not None and fault < 0:
            raise httpx.ConnectError("connection refused")
        await asyncio.sleep(0)  # the request crosses the network
        req = Request({"handler_id": self.url.rsplit("/", 1)[1]}, dict(self.params), dict(self.headers or {}))
        try:
            sr = await self.c.api._stream_events(req)
        except HTTPException as e:
            self.resp = _Resp(e.status_code, None, None)
            return self.resp
        if self.c.by_chars:
            self.resp = _Resp(200, sr.body_iterator, None, cut=fault)
        else:
            self.resp = _Resp(200, sr.body_iterator, fault)
        return self.resp

    async def __aexit__(self, *exc: Any) -> bool:
        if self.resp is not None:
            await self.resp.aclose()
        return False


class ScriptedClient:
    """Stands in for httpx.AsyncClient at `WorkflowClient(httpx_client=...)`."""

    def __init__(self, api: _Api, faults: List[int], by_chars: bool = False) -> None:
        self.api = api
        self.faults = list(faults)
        self.by_chars = by_chars
        self.requests: List[str] = []

    def next_fault(self) -> Optional[int]:
        if self.faults:
            return self.faults.pop(0)
        return None

    def stream(self, method: str, url: str, params: Any = None, headers: Any = None, timeout: Any = None) -> _Conn:
        return _Conn(self, url, params, headers)


def _concrete(i: int, lo: int, hi: int) -> int:
    """Fork on a small symbolic int so that a concrete value flows into str()/pydantic/dict keys."""
    for k in range(lo, hi):
        if i == k:
            return k
    return hi


_TEXT: List[Any] = [None]   # text carried by the plain events' payload (ob_payload_line_separators sets it)


def _run(t: int, c0: int, incl: bool, ipos: int, mra: int, faults: List[int], live_from: int, gaps: List[int],
         heartbeat: Optional[float], by_chars: bool = False) -> bool:
    """Events 0..t-1 (t-1 is the StopEvent; `ipos` is an internal event if 0 <= ipos < t-1).  Events with index
    >= live_from are appended while the client is streaming, gaps[i] virtual seconds apart."""

    loop = MiniLoop()

    async def main() -> bool:
        store = MemoryWorkflowStore()
        terminal_written = live_from >= t
        await store.update(PersistentHandler(handler_id="h1", workflow_name="wf", run_id="run1",
                                             status="completed" if terminal_written else "running"))

        def envelope(i: int) -> EventEnvelopeWithMetadata:
            if i == t - 1:
                return EventEnvelopeWithMetadata.from_event(StopEvent(result=i))
            if i == ipos:
                return EventEnvelopeWithMetadata.from_event(Internal(n=i))
            if _TEXT[0]:
                return EventEnvelopeWithMetadata.from_event(Ev(n=i, text=_TEXT[0]))
            return EventEnvelopeWithMetadata.from_event(Ev(n=i))

        for i in range(min(live_from, t)):
            await store.append_event("run1", envelope(i))

        async def writer() -> None:
            for j, i in enumerate(range(live_from, t)):
                await asyncio.sleep(gaps[j] if j < len(gaps) else 0)
                if i == t - 1:  # the server marks the handler completed before it records the StopEvent
                    await store.update_handler_status("run1", status="completed")
                await store.append_event("run1", envelope(i))

        wtask = asyncio.ensure_future(writer())
        api = _Api(store, heartbeat)
        sc = ScriptedClient(api, faults, by_chars)
        client = WorkflowClient(httpx_client=sc)  # type: ignore[arg-type]
        stream = client.get_workflow_events("h1", include_internal_events=incl, after_sequence=c0,
                                            max_reconnect_attempts=mra)
        if stream.last_sequence != c0:
            return False
        got: List[int] = []
        ok = True
        async for ev in stream:
            n = ev.value["result"] if ev.type == "StopEvent" else ev.value["n"]
            got.append(n)
            # last_sequence equals the sequence of the event being yielded (sequence == n by construction)
            if stream.last_sequence != n:
                ok = False
        await wtask
        expected = [i for i in range(c0 + 1, t) if incl or i != ipos or i == t - 1]
        return ok and got == expected and (not got or stream.last_sequence == got[-1])

    with VirtualClocks(loop, datetime_mods=[_mem_store_mod, _abs_store_mod]):
        return loop.run_until_complete(main())


# A fault value d: -1 = the connection attempt fails (httpx.ConnectError); d >= 0 = the connection is established and
# dies (httpx.ReadError) after delivering d complete lines (d >= number of lines of the body: it does not die).
# An SSE frame is 3 lines ("id: N", "data: {...}", ""), so d = 3j is a drop between frames, 3j+1 after `id:` before
# `data:`, 3j+2 after `data:` before the blank line.  Any character position inside line d+1 is the same fault, because
# a line without its newline is never delivered (ob_cut_at_any_character checks that reduction on a symbolic offset).

@obligation(quick=200, thorough=600,
            partitions_quick=["nd == 0", "nd == 1 and t <= 2", "nd == 1 and t == 3", "nd == 2 and t == 1", "nd == 2 and t == 2"],
            partitions_thorough=["nd == 0", "nd == 1"] + [f"nd == 2 and t == {t}" for t in range(1, 5)]
            + [f"nd == 3 and t == {t} and c0 == {c} and d1 {h} and d2 {h2}" + (f" and d3 {h3}" if h3 else "")
               for t in range(1, 5) for c in range(-1, t) for h in ("<= 4", ">= 5") for h2 in ("<= 4", ">= 5")
               for h3 in (("<= 4", ">= 5") if (t == 4 and c <= 0) else ("",))      # the longest logs: split on the third fault as well
               if not ((h == ">= 5" or h2 == ">= 5" or h3 == ">= 5") and 3 * (t - 1 - c) < 5)],
            what="completed run, cursor anywhere: every later event exactly once, in order, last_sequence == yielded "
                 "sequence, for every placement of <= max_reconnect_attempts faults (connect error, or drop after any line)",
            bounds={"events t": "1..TMAX", "cursor c0": "-1..t-1", "max_reconnect_attempts": "0..MRA", "faults nd": "0..mra",
                    "fault": "-1 = connect error, else lines delivered before the drop 0..3*(events after the cursor)",
                    "two or more faults": "t <= T2 (2 quick / 4 thorough)"})
def ob_static_log(t: int, c0: int, mra: int, nd: int, d1: int, d2: int, d3: int) -> bool:
    """
    pre: 1 <= t <= TMAX and -1 <= c0 <= t - 1
    pre: 0 <= nd <= mra <= MRA and (nd <= 1 or t <= T2)
    pre: -1 <= d1 <= 3 * (t - 1 - c0) and -1 <= d2 <= 3 * (t - 1 - c0) and -1 <= d3 <= 3 * (t - 1 - c0)
    pre: (nd >= 1 or d1 == -1) and (nd >= 2 or d2 == -1) and (nd >= 3 or d3 == -1)
    post: _
    """
    t = _concrete(t, 1, TMAX)
    c0 = _concrete(c0, -1, TMAX - 1)
    faults = [_concrete(d1, -1, 3 * TMAX), _concrete(d2, -1, 3 * TMAX), _concrete(d3, -1, 3 * TMAX)][:_concrete(nd, 0, 3)]
    return _run(t, c0, False, -1, mra, faults, live_from=t, gaps=[], heartbeat=25.0)


@obligation(quick=120, thorough=300,
            partitions_thorough=[f"c0 == {c}" for c in range(-1, 3)],
            what="the fault given as a CHARACTER offset into the response body (symbolic): same guarantee — ties the "
                 "line-count fault model to 'any point within and between frames'",
            bounds={"events": "2 quick / 3 thorough", "faults": 1, "cut offset": "0..CUT characters"})
def ob_cut_at_any_character(c0: int, cut: int) -> bool:
    """
    pre: -1 <= c0 <= TMAX - 2 and 0 <= cut <= CUT
    post: _
    """
    c0 = _concrete(c0, -1, TMAX - 2)
    return _run(TMAX - 1, c0, False, -1, 1, [cut], live_from=TMAX - 1, gaps=[], heartbeat=25.0, by_chars=True)


@obligation(quick=200, thorough=600,
            partitions_quick=["nd == 0", "nd == 1 and incl", "nd == 1 and not incl"],
            partitions_thorough=[f"nd == {n} and incl == {b} and ipos == {p}" for n in range(0, 3) for b in (False, True) for p in (0, 1, 2)],
            what="an internal dispatch event in the log: with include_internal_events=False it is skipped by the server "
                 "(sequence gap), the rest is still delivered exactly once in order across faults",
            bounds={"events": "3 quick / 4 thorough", "internal event position": "0..t-2", "faults": "0..1 quick / 0..2 thorough"})
def ob_internal_filter(incl: bool, ipos: int, c0: int, nd: int, d1: int, d2: int) -> bool:
    """
    pre: 0 <= ipos <= TMAX - 2 and -1 <= c0 <= TMAX - 1
    pre: 0 <= nd <= NDI
    pre: -1 <= d1 <= 3 * (TMAX - 1 - c0) and -1 <= d2 <= 3 * (TMAX - 1 - c0)
    pre: (nd >= 1 or d1 == -1) and (nd >= 2 or d2 == -1)
    post: _
    """
    ipos = _concrete(ipos, 0, TMAX - 2)
    c0 = _concrete(c0, -1, TMAX - 1)
    faults = [_concrete(d1, -1, 3 * TMAX), _concrete(d2, -1, 3 * TMAX)][:_concrete(nd, 0, 2)]
    return _run(TMAX, c0, bool(incl), ipos, 2, faults, live_from=TMAX, gaps=[], heartbeat=25.0)


@obligation(quick=200, thorough=600,
            partitions_quick=["g1 == 0", "g1 == 2 and live_from == 0", "g1 == 2 and live_from >= 1"],
            partitions_thorough=[f"nd == {n} and live_from == {k} and g1 == {g}" for n in range(0, 2) for k in range(0, 3) for g in (0, 2)]
            + [f"nd == 2 and live_from == {k} and g1 == 0 and d1 {h}" for k in range(0, 3) for h in ("<= 4", ">= 5")]
            + [f"nd == 2 and live_from == {k} and g1 == 2 and {h}" for k, hs in ((0, ("d1 <= 4", "5 <= d1 <= 10", "11 <= d1 <= 16", "d1 >= 17")),
                                                                                  (1, ("d1 <= 4", "5 <= d1 <= 10", "d1 >= 11")),
                                                                                  (2, ("d1 <= 4", "5 <= d1 <= 9", "d1 >= 10"))) for h in hs],
            what="live run: events keep being appended (gaps shorter or longer than the heart-beat interval) while the "
                 "client streams and reconnects; heart-beat comment lines are ignored",
            bounds={"events": 3, "already stored at connect": "0..2", "gap before each append": "0 or 2 (heartbeat every 1); quick: the same gap before every append",
                    "faults": "0..1 quick / 0..2 thorough", "fault": "-1 or lines delivered 0..LMAX (incl. heart-beat lines)"})
def ob_live_log(c0: int, live_from: int, g1: int, g2: int, g3: int, nd: int, d1: int, d2: int) -> bool:
    """
    pre: 0 <= live_from <= 2 and -1 <= c0 < live_from
    pre: (g1 == 0 or g1 == 2) and (g2 == 0 or g2 == 2) and (g3 == 0 or g3 == 2)
    pre: (live_from < 1 or g3 == 0) and (live_from < 2 or g2 == 0)
    pre: GFREE or ((live_from >= 2 or g2 == g1) and (live_from >= 1 or g3 == g1))
    pre: 0 <= nd <= NDL
    pre: -1 <= d1 <= 3 * (2 - c0) + 2 * g1 * (3 - live_from) and -1 <= d2 <= 3 * (2 - c0) + 2 * g1 * (3 - live_from)
    pre: (nd >= 1 or d1 == -1) and (nd >= 2 or d2 == -1)
    post: _
    """
    c0 = _concrete(c0, -1, 1)
    live_from = _concrete(live_from, 0, 2)
    faults = [_concrete(d1, -1, LMAX), _concrete(d2, -1, LMAX)][:_concrete(nd, 0, 2)]
    gaps = [_concrete(g1, 0, 2), _concrete(g2, 0, 2), _concrete(g3, 0, 2)]
    return _run(3, c0, False, -1, 2, faults, live_from=live_from, gaps=gaps, heartbeat=1.0)



_SEPS = ["\u2028", "\u2029", "\x85", "\x0b", "\x0c", "\x1c", "\r", "\n", "plain"]


@obligation(quick=120, thorough=300,
            what="event payloads containing characters that Unicode-aware line splitting treats as line ends (U+2028, U+2029, U+0085, VT, FF, FS; JSON "
                 "leaves them unescaped) and CR / LF (escaped by JSON): the stream still yields every later event once, in order — with and "
                 "without a dropped connection",
            bounds={"events": 3, "separator": "8 characters + a plain control", "faults": "0..1", "cursor": "-1..1"})
def ob_payload_line_separators(si: int, c0: int, nd: int, d1: int) -> bool:
    """
    pre: 0 <= si < len(_SEPS) and -1 <= c0 <= 1 and 0 <= nd <= 1 and -1 <= d1 <= 9 and (nd >= 1 or d1 == -1)
    post: _
    """
    si, c0, nd = _concrete(si, 0, len(_SEPS) - 1), _concrete(c0, -1, 1), _concrete(nd, 0, 1)
    faults = [_concrete(d1, -1, 9)][:nd]
    _TEXT[0] = "a" + _SEPS[si] + "b"
    try:
        return _run(3, c0, False, -1, 1, faults, live_from=3, gaps=[], heartbeat=25.0)
    finally:
        _TEXT[0] = None


T10 = 12   # events of the run whose sequence numbers cross a power of ten


@obligation(quick=200, thorough=600, partitions_quick=[f"c0 == {c}" for c in (7, 8, 9, 10)],
            partitions_thorough=[f"c0 == {c} and nd == {n}" for c in (6, 7, 8, 9, 10) for n in (1, 2)],
            what="sequence numbers that cross a power of ten (a run with 12 events, cursor at 7..10): every later event exactly once, in order, "
                 "for every placement of the faults — the resume cursor is a NUMBER (9 < 10), whatever its decimal spelling",
            bounds={"events": T10, "cursor c0": "7..10 (thorough 6..10)", "faults": "1 (thorough 2)",
                    "fault": "-1 = connect error, else lines delivered before the drop 0..3*(events after the cursor)"})
def ob_ids_crossing_ten(c0: int, nd: int, d1: int, d2: int) -> bool:
    """
    pre: C10LO <= c0 <= 10 and 1 <= nd <= ND10
    pre: -1 <= d1 <= 3 * (T10 - 1 - c0) and -1 <= d2 <= 3 * (T10 - 1 - c0) and (nd >= 2 or d2 == -1)
    post: _
    """
    c0 = _concrete(c0, 6, 10)
    faults = [_concrete(d1, -1, 3 * 5), _concrete(d2, -1, 3 * 5)][:_concrete(nd, 1, 2)]
    return _run(T10, c0, False, -1, 2, faults, live_from=T10, gaps=[], heartbeat=25.0)


C10LO = B(7, 6)
ND10 = B(1, 2)



@obligation(quick=150, thorough=300, partitions_quick=[f"kind == {k}" for k in range(len(_DROP_KINDS))],
            partitions_thorough=[f"kind == {k} and c0 == {c}" for k in range(len(_DROP_KINDS)) for c in (-1, 0, 1)],
            what="a dropped connection is a dropped connection however it surfaces in the reader — httpx.ReadError / RemoteProtocolError "
                 "(httpcore transports), ConnectionResetError / BrokenPipeError / ConnectionAbortedError (in-process and custom transports), "
                 "httpx.DecodingError (a compressed stream that is cut): the client resumes from its cursor and every later event arrives "
                 "exactly once, in order",
            bounds={"events": 3, "cursor c0": "-1..1", "faults": "1 (thorough 2)", "fault": "lines delivered before the drop 0..3*(events after the cursor)",
                    "exception kinds": len(_DROP_KINDS)})
def ob_drop_exception_kinds(kind: int, c0: int, nd: int, d1: int, d2: int) -> bool:
    """
    pre: 0 <= kind < len(_DROP_KINDS) and -1 <= c0 <= 1 and 1 <= nd <= NDK17
    pre: 0 <= d1 <= 3 * (2 - c0) and 0 <= d2 <= 3 * (2 - c0) and (nd >= 2 or d2 == 0)
    post: _
    """
    kind = _concrete(kind, 0, len(_DROP_KINDS) - 1)
    c0 = _concrete(c0, -1, 1)
    faults = [_concrete(d1, 0, 9), _concrete(d2, 0, 9)][:_concrete(nd, 1, 2)]
    _DROP[0] = kind
    try:
        return _run(3, c0, False, -1, 2, faults, live_from=3, gaps=[], heartbeat=25.0)
    finally:
        _DROP[0] = 0


NDK17 = B(1, 2)
