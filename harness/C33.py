"""C33 — backup archives restore exactly what was backed up (unencrypted half; AES-GCM is out of reach, see OUTSIDE).

Code under test (imported unmodified; ``cryptography`` is only a name-only shim, ``encrypt`` / ``decrypt`` are never
reached by any obligation): ``llama_agents.control_plane.backup.archive.create_backup_archive`` / ``read_backup_archive``.

* ob_member_naming (Engine T, z3 sequence theory, regenerated from the current AST): the member names written by
  ``create_backup_archive`` (every ``_add_bytes_to_tar(tar, <name expr>, <data>)``; f-strings translated by vlib.py2smt)
  against the ``if / elif`` dispatch of ``read_backup_archive`` (``==`` / ``endswith`` tests and ``removesuffix`` from the
  AST): for EVERY valid deployment name n (the DNS-1035 regex of deployments.py compiled to an SMT regex; unbounded) and
  every kind k in {resource, plain secret, encrypted secret, generation}: the branch taken for name_k(n) stores into
  k's table under the key n; ``manifest.json`` is taken by the manifest branch; two different (kind, name) pairs never
  share a member name.
* ob_roundtrip_one (Engine S): one deployment, symbolic choice of name (incl. ``manifest``, ``null``, ``yes``), resource body
  (JSON-like pool: nested maps / lists / None / bool / int / float / YAML-sensitive strings), secret shape (absent, empty,
  one or two keys; keys and values from YAML-sensitive pools), generation (absent, 0, 7), generations argument None / {} /
  map, password None / '' on both sides: ``read(create(x))`` returns exactly that resource, secret and generation
  (type-strict deep equality) under that name.
* ob_roundtrip_many (Engine S): 0..2 (quick) / 0..3 (thorough) deployments with pairwise distinct names: every entry comes
  back under its own name with its own secret / generation, nothing is mixed up, nothing extra appears.
tarfile / gzip / yaml / json execute concretely (CrossHair tracing off once every symbolic index is decided).
"""
from __future__ import annotations

import vlib.boot  # noqa: F401
from vlib.boot import B

import ast
import io
import tarfile
from typing import Any, Dict, List, Optional, Tuple

from vlib.h_tools import cint, func_node, module_ast, regex_literal, repo_path, smt_check, source_sha, untraced
from vlib.ob import obligation, smt_obligation

from llama_agents.control_plane.backup.archive import create_backup_archive, read_backup_archive

ARCH = repo_path("packages", "llama-agents-control-plane", "src", "llama_agents", "control_plane", "backup", "archive.py")
DEPL = repo_path("packages", "llama-agents-core", "src", "llama_agents", "core", "schema", "deployments.py")
TESTS = repo_path("packages", "llama-agents-control-plane", "tests", "backup", "test_archive.py")

ENCODED = [
    "llama_agents.control_plane.backup.archive:create_backup_archive",
    "llama_agents.control_plane.backup.archive:read_backup_archive",
    "llama_agents.control_plane.backup.archive:_add_bytes_to_tar",
]
ASSUMES = [
    "'valid name' = a match of deployments.py's _DNS_1035_RE (what validate_dns_1035_label accepts; read from the AST), "
    "Engine S: names from a pool of such labels chosen to collide with the archive's own vocabulary (manifest, secret, meta, "
    "yaml, json, null, yes)",
    "ob_member_naming: the kind of a written member is identified by the data variable handed to _add_bytes_to_tar "
    "(cr_yaml / secret_yaml / encrypted / meta_json, a literal name = the manifest) and the kind of a dispatch branch by the "
    "table it stores into (cr_files / secret_files (+ decrypt call = encrypted) / meta_files / manifest_data); any other shape of "
    "either function makes the obligation untranslatable (inconclusive). How the three tables are joined into BackupEntry "
    "objects is covered by the Engine-S obligations, not by this one",
    "Engine S: resources, secrets and generations are JSON-like values from fixed pools selected by symbolic indices; all "
    "indices are decided before the real functions run, which then execute natively (vlib.h_tools.untraced): tarfile, gzip, "
    "yaml, json are executed, not modelled. Equality is type-strict and deep (1 != True != 1.0)",
    "every secret / generation key names a deployment of the same call (what BackupService.create_backup builds)",
]
OUTSIDE = [
    "everything under a non-empty encryption_password: `cryptography` is not installed in the sandbox (name-only shim that "
    "raises when called) and AES-GCM / PBKDF2 are not encodable; neither the encrypted round trip nor 'encrypted secrets cannot "
    "be read with a different password' is claimed. Only the NAMING of `.secret.enc` members is covered (ob_member_naming)",
    "unspecified: secrets / generations given for a name that is not among the deployments are silently dropped by "
    "create_backup_archive (the production caller never produces them)",
    "unspecified: encryption_password='' (e.g. an empty BACKUP_ENCRYPTION_PASSWORD) writes the secrets in PLAIN text "
    "(`if encryption_password:`) while the manifest says encrypted=true (`is not None`); the data round-trips (asserted with the "
    "same password on both sides), whether this counts as 'with encryption' is not decidable from the statement — reported "
    "to the lead as an observation, not asserted",
    "resource bodies that are not JSON-like (tuples, sets, custom objects), non-string secret values, more than 3 deployments",
    "manifest fields (namespace, timestamp, count, encrypted flag) are not part of the statement",
]


# ======================================================================================================================
# Engine S
# ======================================================================================================================
NAMES = ["app1", "manifest", "yaml", "null", "secret", "yes", "a", "x-meta", "d-1e3", "json"]
NN_Q, NN_T = 4, 10   # partitions are computed in the runner process, where B() always sees the quick tier: use the literals there
NN = B(NN_Q, NN_T)
KEYS = ["API_KEY", "yes", "1", "", "null", "a.b", "x y", ":"]
NK = B(4, 8)
VALS = ["secret123", "", "yes", "null", "line\nbreak", ": a", "1", " lead ", "#c", "'q'", "é\u0085", "- x", "{a: 1}", "2025-01-01"]
NV = B(6, 14)
SPECS: List[Any] = [
    {"image": "registry/app1:latest", "projectId": "proj-1"},
    {"displayName": "Café Zürich – Büro"},   # non-ASCII text (several multi-byte characters): member sizes are BYTE counts
    {"v": "yes"},
    {"v": None},
    {"v": 1},
    {"v": True},
    {"v": 1.5},
    {"v": []},
    {"v": {}},
    {"v": [1, "1", None, {"null": "null", "": ""}]},
    {"v": "line\nbreak\n"},
    {"env": [{"name": "A", "value": "on"}, {"name": "B", "value": "0x1f"}]},
    {"v": "2025-01-01T00:00:00Z"},
    {"1": 1, "true": True, "~": None},
    {"v": " "},
    {"v": 10 ** 20},
    {"v": -0.0},
    {"v": "é \U0001f600"},
    {"v": "a" * 200},
    {"v": [[], [[]], {}]},
    {"v": "? x"},
]
NS = B(9, 21)
GENS = [None, 0, 7]


def _cr(name: str, spec: Any, labels: bool) -> Dict[str, Any]:
    meta: Dict[str, Any] = {"name": name, "namespace": "default"}
    if labels:
        meta["labels"] = {"app": name, "on": "yes"}
        meta["annotations"] = {"note": "a: b"}
    return {"apiVersion": "deploy.llamaindex.ai/v1alpha1", "kind": "LlamaDeployment", "metadata": meta, "spec": spec}


def _same(a: Any, b: Any) -> bool:
    """type-strict deep equality of JSON-like values"""
    if type(a) is not type(b):
        return False
    if isinstance(a, dict):
        return a.keys() == b.keys() and all(_same(a[k], b[k]) for k in a)
    if isinstance(a, list):
        return len(a) == len(b) and all(_same(x, y) for x, y in zip(a, b))
    if isinstance(a, float):
        return a == b and str(a) == str(b)
    return a == b


def _copy(x: Any) -> Any:
    if isinstance(x, dict):
        return {k: _copy(v) for k, v in x.items()}
    if isinstance(x, list):
        return [_copy(v) for v in x]
    return x


def _round_trip_ok(deployments, secrets, generations, gen_arg, pw) -> bool:
    want_d, want_s, want_g = _copy(deployments), _copy(secrets), dict(generations)
    data = create_backup_archive(deployments=deployments, secrets=secrets, namespace="ns", timestamp="2025-01-01T00:00:00Z",
                                 encryption_password=pw, generations=gen_arg)
    contents = read_backup_archive(data, encryption_password=pw)
    by_name: Dict[str, Any] = {}
    for e in contents.entries:
        if e.name in by_name:
            return False
        by_name[e.name] = e
    if sorted(by_name) != sorted(d["metadata"]["name"] for d in want_d):
        return False
    for d in want_d:
        n = d["metadata"]["name"]
        e = by_name[n]
        if not _same(e.cr, d):
            return False
        if n in want_s:
            if e.secret is None or not _same(e.secret, want_s[n]):
                return False
        elif e.secret is not None:
            return False
        if n in want_g:
            if not _same(e.generation, want_g[n]):
                return False
        elif e.generation is not None:
            return False
    return True


@obligation(quick=200, thorough=900,
            partitions_quick=[f"ni == {j}" for j in range(NN_Q)],
            partitions_thorough=[f"ni == {j}" for j in range(NN_T)],
            what="one deployment: read_backup_archive(create_backup_archive(x)) returns exactly the resource, secret and generation "
                 "that went in, under the same name (type-strict deep equality), password None or '' on both sides",
            bounds={"name": "NN of the pool (4 quick / 10 thorough)", "resource body": "NS JSON-like values (9 / 21), with / without labels+annotations",
                    "secret": "absent, {}, one key, two keys; NK keys (4 / 8) x NV values (6 / 14), YAML-sensitive",
                    "generation": "absent, 0, 7; generations argument None / {} / map", "password": "None, ''"})
def ob_roundtrip_one(ni: int, sec: int, ka: int, va: int, gen: int, gmode: int, si: int, labels: bool, wp: int) -> bool:
    """
    pre: 0 <= ni < NN and 0 <= sec <= 3 and 0 <= ka < NK and 0 <= va < NV and (sec >= 2 or (ka == 0 and va == 0))
    pre: 0 <= gen <= 2 and 0 <= gmode <= 1 and (gen == 0 or gmode == 0) and (sec <= 1 or (gen <= 1 and gmode == 0))
    pre: 0 <= si < NS and (sec <= 1 or si == 0) and ((si <= 1 and sec <= 1) or not labels) and 0 <= wp <= 1 and (sec >= 1 or wp == 0)
    post: _
    """
    ni, sec, ka, va = cint(ni, 0, NN - 1), cint(sec, 0, 3), cint(ka, 0, NK - 1), cint(va, 0, NV - 1)
    gen, gmode, si, wp = cint(gen, 0, 2), cint(gmode, 0, 1), cint(si, 0, NS - 1), cint(wp, 0, 1)
    labels = True if labels else False
    with untraced():
        name = NAMES[ni]
        secrets: Dict[str, Dict[str, str]] = {}
        if sec == 1:
            secrets[name] = {}
        elif sec == 2:
            secrets[name] = {KEYS[ka]: VALS[va]}
        elif sec == 3:
            secrets[name] = {KEYS[ka]: VALS[va], KEYS[(ka + 1) % NK]: VALS[(va + 1) % NV]}
        gens = {} if gen == 0 else {name: GENS[gen]}
        gen_arg: Optional[Dict[str, int]] = dict(gens) if (gen or gmode) else None
        return _round_trip_ok([_cr(name, _copy(SPECS[si]), labels)], secrets, gens, gen_arg, None if wp == 0 else "")


ND = B(2, 3)
NM = 5


@obligation(quick=200, thorough=900,
            partitions_quick=["nd <= 1"] + [f"nd == 2 and n0 == {j}" for j in range(NM - 1)],
            partitions_thorough=["nd <= 1", "nd == 2", "nd == 3 and n0 == 2"] + [f"nd == 3 and n0 == 1 and s0 == {s}" for s in range(3)]
            + [f"nd == 3 and n0 == 0 and s0 == {s} and s1 == {t}" for s in range(3) for t in range(3)],
            what="several deployments with pairwise distinct names: every entry comes back under its own name with its own resource, "
                 "secret and generation; nothing mixed up, nothing extra",
            bounds={"deployments": "0..ND (2 quick / 3 thorough)", "names": "increasing indices into 5 pool names",
                    "per deployment": "secret absent / {} / one key (same key, distinct value), generation absent / 0 / 7+j",
                    "password": "None, ''"})
def ob_roundtrip_many(nd: int, n0: int, n1: int, n2: int, s0: int, s1: int, s2: int, g0: int, g1: int, g2: int, wp: int) -> bool:
    """
    pre: 0 <= nd <= ND and 0 <= n0 < NM and 0 <= n1 < NM and 0 <= n2 < NM and 0 <= wp <= 1
    pre: (nd >= 1 or (n0 == 0 and s0 == 0 and g0 == 0)) and (nd >= 2 or (n1 == 0 and s1 == 0 and g1 == 0)) and (nd >= 3 or (n2 == 0 and s2 == 0 and g2 == 0))
    pre: (nd < 2 or n0 < n1) and (nd < 3 or n1 < n2)
    pre: 0 <= s0 <= 2 and 0 <= s1 <= 2 and 0 <= s2 <= 2 and 0 <= g0 <= 2 and 0 <= g1 <= 2 and 0 <= g2 <= 2
    post: _
    """
    nd, wp = cint(nd, 0, ND), cint(wp, 0, 1)
    ns = [cint(x, 0, NM - 1) for x in (n0, n1, n2)]
    ss = [cint(x, 0, 2) for x in (s0, s1, s2)]
    gs = [cint(x, 0, 2) for x in (g0, g1, g2)]
    with untraced():
        deployments, secrets, gens = [], {}, {}
        for j in range(nd):
            name = NAMES[ns[j]]
            deployments.append(_cr(name, {"image": f"registry/{name}:latest", "n": j}, j == 1))
            if ss[j] == 1:
                secrets[name] = {}
            elif ss[j] == 2:
                secrets[name] = {"API_KEY": f"value-{j}"}
            if gs[j]:
                gens[name] = 0 if gs[j] == 1 else 7 + j
        # deployments are handed over in reverse pool order: the result must not depend on it
        deployments.reverse()
        return _round_trip_ok(deployments, secrets, gens, dict(gens) if gens else None, None if wp == 0 else "")


# ======================================================================================================================
# Engine T: member naming vs dispatch
# ======================================================================================================================
WRITE_KIND = {"cr_yaml": "cr", "secret_yaml": "secret", "encrypted": "secret_enc", "meta_json": "meta"}
STORE_KIND = {"cr_files": "cr", "secret_files": "secret", "meta_files": "meta"}


def _T():
    import z3

    from vlib import py2smt as T

    return z3, T


def _written_names(interp, n) -> Dict[str, Any]:
    """kind -> z3 string: the member name expressions of create_backup_archive evaluated for deployment name ``n``"""
    z3, T = _T()
    fn = func_node(ARCH, "create_backup_archive")
    out: Dict[str, Any] = {}
    loop_var = None
    for node in ast.walk(fn):
        if isinstance(node, ast.Assign) and len(node.targets) == 1 and isinstance(node.targets[0], ast.Name):
            # name = cr.get("metadata", {}).get("name", "unknown")
            v = node.value
            if (isinstance(v, ast.Call) and isinstance(v.func, ast.Attribute) and v.func.attr == "get" and v.args
                    and isinstance(v.args[0], ast.Constant) and v.args[0].value == "name"):
                loop_var = node.targets[0].id
    if loop_var is None:
        raise T.Untranslatable("create_backup_archive: no `<var> = ....get('name', ...)` assignment found")
    for node in ast.walk(fn):
        if isinstance(node, ast.Call) and isinstance(node.func, ast.Name) and node.func.id == "_add_bytes_to_tar":
            if len(node.args) != 3 or node.keywords:
                raise T.Untranslatable("_add_bytes_to_tar call shape")
            name_expr, data = node.args[1], node.args[2]
            if isinstance(name_expr, ast.Constant):
                kind = "manifest"
            elif isinstance(data, ast.Name) and data.id in WRITE_KIND:
                kind = WRITE_KIND[data.id]
            else:
                raise T.Untranslatable(f"cannot tell what is written under {ast.unparse(name_expr)}")
            if kind in out:
                raise T.Untranslatable(f"two members of kind {kind}")
            out[kind] = interp.lift_str(interp.eval(name_expr, {loop_var: n}, True))
    if set(out) != {"manifest", "cr", "secret", "secret_enc", "meta"}:
        raise T.Untranslatable(f"written kinds {sorted(out)}")
    return out


def _dispatch(interp, m) -> List[Tuple[Any, str, Any]]:
    """[(guard, kind, key)]: the if/elif chain of read_backup_archive on member name ``m``; kind 'ignored' = no branch"""
    z3, T = _T()
    fn = func_node(ARCH, "read_backup_archive")
    chain = None
    name_var = None
    for node in ast.walk(fn):
        if isinstance(node, ast.For):
            for st in node.body:
                if isinstance(st, ast.Assign) and isinstance(st.value, ast.Attribute) and st.value.attr == "name" and isinstance(st.targets[0], ast.Name):
                    name_var = st.targets[0].id
                if isinstance(st, ast.If) and name_var and any(isinstance(x, ast.Name) and x.id == name_var for x in ast.walk(st.test)):
                    chain = st
    if chain is None or name_var is None:
        raise T.Untranslatable("read_backup_archive: member-name dispatch chain not found")
    out: List[Tuple[Any, str, Any]] = []
    not_before: List[Any] = []
    node: Any = chain
    while True:
        test = interp.truth(interp.eval(node.test, {name_var: m}, True), True)
        test = T.zguard(test)
        guard = z3.And(test, *not_before)
        kind, key, env = None, None, {name_var: m}
        for st in node.body:
            if isinstance(st, ast.Assign) and len(st.targets) == 1:
                tg = st.targets[0]
                if isinstance(tg, ast.Name) and tg.id == "manifest_data":
                    kind = "manifest"
                elif isinstance(tg, ast.Name):
                    has_call = [c for c in ast.walk(st.value) if isinstance(c, ast.Call) and isinstance(c.func, ast.Name) and c.func.id == "decrypt"]
                    if has_call:
                        env[tg.id] = T.Opaque(tg.id)
                        env["__decrypt__"] = True
                    else:
                        env[tg.id] = interp.eval(st.value, env, True)
                elif isinstance(tg, ast.Subscript) and isinstance(tg.value, ast.Name) and tg.value.id in STORE_KIND:
                    kind = STORE_KIND[tg.value.id]
                    if kind == "secret" and env.get("__decrypt__"):
                        kind = "secret_enc"
                    key = interp.lift_str(interp.eval(tg.slice, env, True))
                else:
                    raise T.Untranslatable(f"dispatch branch statement {ast.unparse(st)[:60]}")
            elif isinstance(st, ast.If) and all(isinstance(x, ast.Raise) for x in st.body) and not st.orelse:
                continue   # the missing-password guard of the encrypted branch
            else:
                raise T.Untranslatable(f"dispatch branch statement {ast.unparse(st)[:60]}")
        if kind is None:
            raise T.Untranslatable("dispatch branch stores nothing")
        out.append((guard, kind, key))
        not_before.append(z3.Not(test))
        if len(node.orelse) == 1 and isinstance(node.orelse[0], ast.If):
            node = node.orelse[0]
            continue
        if node.orelse:
            raise T.Untranslatable("dispatch chain ends in an else block")
        break
    out.append((z3.And(*not_before), "ignored", None))
    return out


def _tar_with(members: List[Tuple[str, bytes]]) -> bytes:
    buf = io.BytesIO()
    with tarfile.open(fileobj=buf, mode="w:gz") as tar:
        for name, data in members:
            info = tarfile.TarInfo(name=name)
            info.size = len(data)
            tar.addfile(info, io.BytesIO(data))
    return buf.getvalue()


def _real_dispatch(member: str) -> Tuple[str, Optional[str]]:
    """what the real read_backup_archive does with ONE member of that name (observed through BackupContents): (kind, key).
    cr entries are visible directly; secret / meta entries only next to a cr of the same key, so a probe cr is added for
    the candidate keys."""
    manifest = b'{"version": 1, "timestamp": "t", "namespace": "ns", "deployment_count": 0, "encrypted": false}'
    if member == "manifest.json":
        try:
            read_backup_archive(_tar_with([(member, manifest)]))
            return "manifest", None
        except ValueError:
            return "ignored", None
    payload = b"probe: 1\ngeneration: 41\n"   # valid YAML and (for .meta.json) not valid JSON -> use a JSON payload there
    cands = [member[: -len(suf)] for suf in (".yaml", ".secret.yaml", ".meta.json", ".json", ".secret", ".meta") if member.endswith(suf)] + [member]
    for data in (payload, b'{"generation": 41, "probe": 1}'):
        try:
            base = read_backup_archive(_tar_with([("manifest.json", manifest), (member, data)]))
        except Exception:  # noqa: BLE001
            continue
        for e in base.entries:
            return "cr", e.name
        for key in cands:
            probe = key + ".yaml"
            if probe == member:
                continue
            try:
                c = read_backup_archive(_tar_with([("manifest.json", manifest), (probe, b"probe_cr: 1\n"), (member, data)]))
            except Exception:  # noqa: BLE001
                continue
            for e in c.entries:
                if e.name == key and e.secret is not None:
                    return "secret", key
                if e.name == key and e.generation is not None:
                    return "meta", key
    return "ignored", None


def _native_naming(w) -> bool:
    """replay: the real create/read on the witness name — every (unencrypted) kind comes back under that name"""
    n = str(w["n"])
    if "n2" in w and w.get("n2") is not None and str(w["n2"]) != n:
        return _round_trip_ok([_cr(n, {"a": 1}, False), _cr(str(w["n2"]), {"a": 2}, False)], {n: {"K": "1"}, str(w["n2"]): {"K": "2"}},
                              {n: 1, str(w["n2"]): 2}, {n: 1, str(w["n2"]): 2}, None)
    return _round_trip_ok([_cr(n, {"a": 1}, False)], {n: {"K": "v"}}, {n: 3}, {n: 3}, None)


@smt_obligation(quick=60, thorough=120,
                what="member names written by create_backup_archive vs the dispatch chain of read_backup_archive (both from the AST): "
                     "for every valid deployment name n and every kind, name_kind(n) is routed to that kind's table under key n; "
                     "manifest.json goes to the manifest; different (kind, name) pairs never share a member name",
                bounds={"deployment name": "every match of _DNS_1035_RE (no length bound beyond the regex's 63)",
                        "kinds": "resource, plain secret, encrypted secret (naming only), generation, manifest"})
def ob_member_naming(ctx):
    z3, T = _T()
    be = T.SeqBackend()
    interp = T.Interp(be)
    n, n2 = z3.String("n"), z3.String("n2")
    try:
        dns = T.regex_to_z3(T.parse_regex(regex_literal(DEPL, "_DNS_1035_RE")), True)
        valid = [z3.InRe(n, dns), z3.InRe(n2, dns)]
        names = _written_names(interp, n)
        names2 = _written_names(interp, n2)
        viol = []
        for kind, m in names.items():
            for g, k2, key in _dispatch(interp, m):
                if k2 != kind:
                    viol.append(g)
                elif kind != "manifest":
                    viol.append(z3.And(g, key != n))
        note = f"written: { {k: str(v) for k, v in names.items()} }; dispatch: {[(k, str(key)) for _g, k, key in _dispatch(interp, z3.String('m'))]}; " \
               f"source {source_sha(ARCH, ['create_backup_archive', 'read_backup_archive'])}"
        smt_check(ctx, "routing", valid, z3.Or(*viol), {"n": n, "n2": n2}, _native_naming, note, cross_s=10)
        clash = []
        for k1, m1 in names.items():
            for k2, m2 in names2.items():
                if k1 == "manifest" and k2 == "manifest":
                    continue
                clash.append(z3.And(m1 == m2, z3.Or(z3.BoolVal(k1 != k2), n != n2)))
        smt_check(ctx, "no_shared_member_name", valid, z3.Or(*clash), {"n": n, "n2": n2}, _native_naming,
                  "two different (kind, name) pairs written under one member name", cross_s=10)
    except T.Untranslatable as e:
        ctx.records.append({"name": "routing", "result": "untranslatable", "note": f"{type(e).__name__}: {e}", "solver_s": 0})
        return
    # translation validation: encoding vs the real functions in CPython — written names for the test suite's deployment names
    # and solver models, dispatch for those member names and for adversarial ones
    lits: List[str] = []
    for node in ast.walk(module_ast(TESTS)):
        if isinstance(node, ast.Call) and isinstance(node.func, ast.Name) and node.func.id == "make_deployment" and node.args \
                and isinstance(node.args[0], ast.Constant) and isinstance(node.args[0].value, str) and node.args[0].value not in lits:
            lits.append(node.args[0].value)
    for extra in ([], [z3.Length(n) >= 20], [z3.Contains(n, z3.StringVal("-"))]):
        s = z3.Solver()
        s.set("timeout", 20000)
        s.add(*valid, *extra)
        if str(s.check()) == "sat":
            lits.append(s.model().eval(n, model_completion=True).as_string().rstrip("\n"))
    members: List[str] = ["a.secret.yaml", "x.meta.json", "manifest.json", "a.yaml", "weird.txt", ".yaml", "a.secret", "manifest.yaml",
                          "a.meta.json.yaml", "b.secret.yaml.meta.json", "manifest.json.yaml"]
    for i, lit in enumerate(lits):
        data = create_backup_archive(deployments=[_cr(lit, {"a": 1}, False)], secrets={lit: {"K": "v"}}, namespace="ns", timestamp="t",
                                     encryption_password=None, generations={lit: 1})
        with tarfile.open(fileobj=io.BytesIO(data), mode="r:gz") as tar:
            real = sorted(tar.getnames())
        enc = _written_names(interp, z3.StringVal(lit))
        want = sorted(z3.simplify(enc[k]).as_string() for k in ("manifest", "cr", "secret", "meta"))
        ctx.records.append({"name": f"tv_written[{i}]", "result": "unsat" if real == want else "tv_mismatch", "solver_s": 0,
                            "note": f"members written by the real create_backup_archive for {lit!r}: {real}; encoding: {want}"})
        members += [m for m in want if m not in members]
    for i, mem in enumerate(members):
        rk, rkey = _real_dispatch(mem)
        agree = []
        for g, k2, key in _dispatch(interp, z3.StringVal(mem)):
            k2 = "secret" if k2 == "secret_enc" else k2
            if k2 == rk:
                agree.append(g if key is None or rkey is None else z3.And(g, key == z3.StringVal(rkey)))
        ctx.check(f"tv_dispatch[{i}]", assumptions=[], negated_property=z3.Not(z3.Or(*agree)) if agree else z3.BoolVal(True),
                  variables={"n": n, "n2": n2}, replay=lambda w: True, cross_check=False,
                  note=f"encoding vs the real read_backup_archive on a member named {mem!r}: {rk} {rkey!r}")


def replay_known(name: str, witness) -> bool:
    ob, _, q = name.partition(".")
    if q.startswith("tv_"):
        return False
    return _native_naming(witness)


# ------------------------------------------------------------------------------------------------ the encrypted half, over a stand-in cipher
# `cryptography` is not installed.  The repository's own encrypt / decrypt (wire format, salt / nonce handling, key derivation call, the
# archive's use of them) are executed over an ENVIRONMENT STUB with the AESGCM / PBKDF2HMAC interfaces: a keyed stream + a keyed tag built
# from hashlib / hmac, which has the two properties the statement relies on (decrypt(encrypt(x)) == x under the same key; a different key
# fails authentication).  What AES-GCM itself guarantees is outside.
import hashlib as _hashlib  # noqa: E402
import hmac as _hmac  # noqa: E402

from llama_agents.control_plane.backup import encryption as _enc  # noqa: E402


class _StubInvalidTag(Exception):
    pass


class _StubKDF:
    def __init__(self, algorithm=None, length=32, salt=b"", iterations=1) -> None:
        self._length, self._salt = length, salt

    def derive(self, password: bytes) -> bytes:
        return _hashlib.pbkdf2_hmac("sha256", password, self._salt, 1, self._length)    # 1 iteration: the cost parameter is not a property


class _StubAEAD:
    def __init__(self, key: bytes) -> None:
        self._key = key

    def _stream(self, nonce: bytes, n: int) -> bytes:
        out, ctr = b"", 0
        while len(out) < n:
            out += _hmac.new(self._key, nonce + ctr.to_bytes(4, "big"), "sha256").digest()
            ctr += 1
        return out[:n]

    def encrypt(self, nonce: bytes, data: bytes, aad) -> bytes:
        ct = bytes(a ^ b for a, b in zip(data, self._stream(nonce, len(data))))
        return ct + _hmac.new(self._key, b"tag" + nonce + ct, "sha256").digest()[:16]

    def decrypt(self, nonce: bytes, data: bytes, aad) -> bytes:
        ct, tag = data[:-16], data[-16:]
        if not _hmac.compare_digest(tag, _hmac.new(self._key, b"tag" + nonce + ct, "sha256").digest()[:16]):
            raise _StubInvalidTag("authentication failed")
        return bytes(a ^ b for a, b in zip(ct, self._stream(nonce, len(ct))))


class _hashes_stub:
    @staticmethod
    def SHA256():
        return "sha256"


_PWS = ["correct horse", "Tr0ub4dor&3", ""]
# (password the archive is created with, the OTHER password): unrelated ones, and near misses — differing only in surrounding white space
# (a trailing newline from a secret file, a leading blank, a no-break space), in case, by one missing character, or in Unicode composition
_PW_PAIRS = [("correct horse", "Tr0ub4dor&3"), ("Tr0ub4dor&3", "correct horse"), ("hunter2", "hunter2\n"), ("hunter2\n", "hunter2"),
             (" hunter2", "hunter2"), ("hunter2", "hunter2\u00a0"), ("hunter2", "Hunter2"), ("hunter2", "hunter"), ("hunter2\t", "hunter2 "),
             ("caf\u00e9", "cafe\u0301")]
NPW33 = len(_PW_PAIRS)


@obligation(quick=120, thorough=300, partitions_quick=[f"r1 == {a}" for a in (0, 1)],
            what="encrypted archive (the repository's encrypt/decrypt and archive code over a stand-in cipher with the AESGCM / PBKDF2HMAC "
                 "interfaces): created with password p; a sequence of two reads in ONE process, each with p or with another password — every "
                 "read with p returns exactly the secrets, every read with another password fails and hands out no secret, whatever was "
                 "read before",
            bounds={"reads": 2, "passwords": "10 (password, other password) pairs: unrelated, and near misses (surrounding white space, case, one character "
                                                   "less, Unicode composition); the read password equal / different", "secrets": "1..2 deployments"})
def ob_encrypted_reads(r1: int, r2: int, two: bool, pwi: int) -> bool:
    """
    pre: 0 <= r1 <= 1 and 0 <= r2 <= 1 and 0 <= pwi < NPW33
    post: _
    """
    r1, r2, pwi = cint(r1, 0, 1), cint(r2, 0, 1), cint(pwi, 0, NPW33 - 1)
    two = True if two else False
    with untraced():
        saved = (_enc.AESGCM, _enc.PBKDF2HMAC, _enc.hashes)
        _enc.AESGCM, _enc.PBKDF2HMAC, _enc.hashes = _StubAEAD, _StubKDF, _hashes_stub
        try:
            pw, other = _PW_PAIRS[pwi]
            names = ["alpha", "beta"] if two else ["alpha"]
            deployments = [_cr(n, {"displayName": n}, False) for n in names]
            secrets = {n: {"stringData": {"TOKEN": "s3cret-" + n}} for n in names}
            data = create_backup_archive(deployments=deployments, secrets=_copy(secrets), namespace="ns", timestamp="2025-01-01T00:00:00Z",
                                         encryption_password=pw, generations=None)
            if any(("s3cret-" + n).encode() in data for n in names):
                return False          # the archive itself must not carry the secret in clear
            for which in (r1, r2):
                use = pw if which == 0 else other
                try:
                    contents = read_backup_archive(data, encryption_password=use)
                except Exception:  # noqa: BLE001
                    if which == 0:
                        return False  # the right password must open it
                    continue
                if which == 1:
                    return False      # a different password opened it
                got = {e.name: e.secret for e in contents.entries}
                if not _same(got, secrets):
                    return False
            return True
        finally:
            _enc.AESGCM, _enc.PBKDF2HMAC, _enc.hashes = saved
