"""C29 - merge_generators / debounced_sorted_prefix preserve items and order.

The REAL functions run on ``vlib.h_async.SymLoop``.  Sources are async generators that ``await asyncio.sleep(d)``
with symbolic ``d`` before each item, so z3 decides every interleaving of item arrivals (ties = same loop
iteration = same ``done`` batch of ``asyncio.wait``).  ``asyncio.wait`` promises a *set*: the name ``asyncio`` in
``iter_utils``' namespace is replaced (restored in ``finally``) by a forwarding proxy whose ``wait`` returns the
real ``done`` members as a list in an order chosen by a symbolic index, and whose ``create_task`` only numbers the
tasks (to give the set a canonical base order that is identical under CrossHair and natively).
``Debouncer`` reads ``time.monotonic`` through its public ``get_time`` parameter; the name ``Debouncer`` in
``iter_utils`` is wrapped so ``get_time`` is the loop's virtual clock."""
from __future__ import annotations

import vlib.boot  # noqa: F401
from vlib.boot import B
from vlib.ob import obligation

import asyncio

from vlib.h_async import SymLoop

import llama_agents.core.iter_utils as iu

ENCODED = [
    "llama_agents.core.iter_utils:merge_generators",
    "llama_agents.core.iter_utils:debounced_sorted_prefix",
    "llama_agents.core.iter_utils:Debouncer.__init__",
    "llama_agents.core.iter_utils:Debouncer._loop",
    "llama_agents.core.iter_utils:Debouncer.extend_window",
    "llama_agents.core.iter_utils:Debouncer.aiter",
]
ASSUMES = [
    "event loop = vlib.h_async.SymLoop (FIFO ready queue, virtual integer clock, equal deadlines fire in one iteration)",
    "asyncio.wait's `done` is a set: its iteration order is chosen by a symbolic index (one choice per run, applied to "
    "every batch with >= 2 members; base order = task creation order)",
    "Debouncer.get_time = the loop's virtual clock (public constructor parameter; the default time.monotonic is never read)",
    "sources are well-behaved async generators: sleep, then yield / raise; the consumer sleeps a symbolic 0..1 after each item (merge2) or takes items at once",
    "after a source error only: re-raise of that very error, no duplicates, each source's items a gap-free prefix in order",
    "debounced_sorted_prefix oracle: output = key-sorted permutation of the first m arrivals ++ the remaining arrivals "
    "in arrival order, for some m between #(arrivals strictly before the window closes) and #(arrivals not after it); "
    "the window closes debounce_seconds after the last buffered arrival, at the latest max_window_seconds after the start "
    "(harness function window_close, the documented rule)",
]
OUTSIDE = [
    "stop_on_first_completion=True", "more than 3 sources / 3 items per source", "float instants",
    "consumers that abandon the merged stream early (aclose paths)",
]

_PERM3 = [(0, 1, 2), (1, 0, 2), (0, 2, 1), (2, 0, 1), (1, 2, 0), (2, 1, 0)]


class _AsyncioProxy:
    """Forwards to the real asyncio module; ``wait`` orders its ``done`` set by the environment's choice."""

    def __init__(self, order) -> None:
        self._order = order
        self._seq = {}
        self._n = 0
        self.batches = []

    def __getattr__(self, name):
        return getattr(asyncio, name)

    def create_task(self, coro, **kw):
        t = asyncio.create_task(coro, **kw)
        self._seq[id(t)] = (self._n, t)  # keep t alive so id() stays unique
        self._n += 1
        return t

    async def wait(self, fs, **kw):
        done, pending = await asyncio.wait(fs, **kw)
        base = sorted(done, key=lambda t: self._seq[id(t)][0])
        o = self._order
        if len(base) == 2:
            if o == 1 or o == 3 or o == 5:
                base = [base[1], base[0]]
        elif len(base) == 3:
            p = _PERM3[0]
            for k in range(1, 6):
                if o == k:
                    p = _PERM3[k]
            base = [base[p[0]], base[p[1]], base[p[2]]]
        self.batches.append(len(base))
        return base, pending


class _Patched:
    def __init__(self, order) -> None:
        self.proxy = _AsyncioProxy(order)

    def __enter__(self):
        self._a = iu.asyncio
        self._d = iu.Debouncer
        real = self._d
        iu.asyncio = self.proxy

        def _deb(debounce_seconds, max_window_seconds):
            return real(debounce_seconds, max_window_seconds, get_time=lambda: asyncio.get_running_loop().time())

        iu.Debouncer = _deb
        return self.proxy

    def __exit__(self, *exc):
        iu.asyncio = self._a
        iu.Debouncer = self._d
        return False


class _SrcError(Exception):
    pass


# --------------------------------------------------------------------------------------------- merge_generators
def _merge_scenario(counts, delays, err_src, err_pos, err_delay, order, consumer_delay=0) -> bool:
    """counts[j] items for source j, delays[j][k] before item k; source err_src (if >= 0) raises after err_pos items."""
    loop = SymLoop()
    the_err = _SrcError("boom")
    out = []
    caught = []

    async def src(j: int):
        n = counts[j]
        for k in range(3):
            if j == err_src and k == err_pos:
                await asyncio.sleep(err_delay)
                raise the_err
            if k >= n:
                return
            await asyncio.sleep(delays[j][k])
            yield (j, k)

    async def main():
        gens = [src(j) for j in range(len(counts))]
        try:
            async for it in iu.merge_generators(*gens):
                out.append(it)
                await asyncio.sleep(consumer_delay)  # 0 = yield to the loop once; > 0 lets completions pile up
        except _SrcError as e:
            caught.append(e)

    with _Patched(order):
        loop.run_until_complete(main())

    # per-source subsequences must be 0,1,2,... (order preserved, no duplicate, no gap)
    seen = [0] * len(counts)
    for (j, k) in out:
        if k != seen[j]:
            return False
        seen[j] += 1
    if err_src >= 0 and err_pos <= counts[err_src]:
        if len(caught) != 1 or caught[0] is not the_err:
            return False
        for j in range(len(counts)):
            lim = err_pos if j == err_src else counts[j]
            if seen[j] > lim:
                return False
        return True
    if caught:
        return False
    for j in range(len(counts)):
        if seen[j] != counts[j]:
            return False
    return True


NQ = B(3, 3)
NA = B(2, 3)
DQ = B(1, 2)


@obligation(quick=150, thorough=500,
            partitions_quick=[f"na == {a} and o == {o}" for a in (0, 1, 2) for o in (0, 1)],
            partitions_thorough=[f"na == {a} and nb == {b} and o == {o}" for a in (0, 1, 2, 3) for b in (1, 2, 3) for o in (0, 1)],
            what="merge of 2 sources, no error: every item once, per-source order, any done-set order, slow or prompt consumer",
            bounds={"sources": 2, "items per source": "0..NA / 1..3", "delay": "0..DQ", "consumer delay": "0..1"})
def ob_merge2(na: int, nb: int, a0: int, a1: int, a2: int, b0: int, b1: int, b2: int, o: int, cd: int) -> bool:
    """
    pre: 0 <= na <= NA and 1 <= nb <= NQ and 0 <= o <= 1 and 0 <= cd <= 1
    pre: 0 <= a0 <= DQ and 0 <= a1 <= DQ and 0 <= a2 <= DQ and 0 <= b0 <= DQ and 0 <= b1 <= DQ and 0 <= b2 <= DQ
    pre: (na > 0 or a0 == 0) and (na > 1 or a1 == 0) and (na > 2 or a2 == 0) and (nb > 1 or b1 == 0) and (nb > 2 or b2 == 0)
    post: _
    """
    return _merge_scenario([na, nb], [[a0, a1, a2], [b0, b1, b2]], -1, 0, 0, o, cd)


@obligation(quick=150, thorough=500,
            partitions_quick=[f"ep == {p} and o == {o}" for p in (0, 1, 2) for o in (0, 1)],
            partitions_thorough=[f"ep == {p} and nb == {b} and o == {o}" for p in (0, 1, 2) for b in (1, 2, 3) for o in (0, 1)],
            what="merge of 2 sources, source 0 raises after ep items at a symbolic instant: error re-raised, prefixes in order",
            bounds={"sources": 2, "items": "<= 2 / 1..3", "delay": "0..DQ", "error position": "0..2"})
def ob_merge2_error(ep: int, nb: int, a0: int, a1: int, ed: int, b0: int, b1: int, b2: int, o: int) -> bool:
    """
    pre: 0 <= ep <= 2 and 1 <= nb <= NQ and 0 <= o <= 1
    pre: 0 <= a0 <= DQ and 0 <= a1 <= DQ and 0 <= ed <= DQ and 0 <= b0 <= DQ and 0 <= b1 <= DQ and 0 <= b2 <= DQ
    pre: (ep > 0 or a0 == 0) and (ep > 1 or a1 == 0) and (nb > 1 or b1 == 0) and (nb > 2 or b2 == 0)
    post: _
    """
    return _merge_scenario([2, nb], [[a0, a1, 0], [b0, b1, b2]], 0, ep, ed, o)


@obligation(quick=200, thorough=500,
            partitions_quick=[f"o == {o} and cd == {c}" for o in range(6) for c in (0, 1)],
            partitions_thorough=[f"o == {o} and er == 2 and cd == {c}" for o in range(6) for c in (0, 1, 2)]
            + [f"o == {o} and er == -1 and cd == {c} and nb == {n} and nc == {m}" for o in range(6) for c in (0, 1, 2) for n in (1, 2) for m in (1, 2)],
            what="merge of 3 sources (batches of up to 3 completions, all 6 done-set orders), optional error in source 2, a consumer that "
                 "awaits between items (so a source can complete while the merge is suspended between two results of one batch)",
            bounds={"sources": 3, "items per source": "2, 1..2, 1..2", "delay": "0..DQ", "consumer delay": "0..1 (thorough 2)"})
def ob_merge3(nb: int, a0: int, a1: int, b0: int, b1: int, c0: int, er: int, o: int, cd: int = 0, nc: int = 1, c1: int = 0) -> bool:
    """
    pre: 1 <= nb <= 2 and 0 <= a0 <= DQ and 0 <= a1 <= DQ and 0 <= b0 <= DQ and 0 <= b1 <= DQ and 0 <= c0 <= DQ and 0 <= o <= 5
    pre: (er == -1 or er == 2) and (nb > 1 or b1 == 0)
    pre: 0 <= cd <= CDMAX and 1 <= nc <= 2 and 0 <= c1 <= DQ and (nc > 1 or c1 == 0)
    post: _
    """
    return _merge_scenario([2, nb, nc], [[a0, a1, 0], [b0, b1, 0], [c0, c1, 0]], er, 1, 0, o, consumer_delay=cd)


CDMAX = B(1, 2)


# --------------------------------------------------------------------------------------- debounced_sorted_prefix
def window_close(deb, maxw, n, t0, t1, t2):
    """Oracle helper: the instant the debouncer completes, given arrival instants (items buffered while they arrive
    strictly before the current completion instant; each buffered item moves it to arrival+deb, capped at maxw)."""
    c = deb if deb < maxw else maxw
    ts = [t0, t1, t2]
    for i in range(n):
        if ts[i] < c:
            c = ts[i] + deb
            if c > maxw:
                c = maxw
        else:
            break
    return c


def arrives_at_close(deb, maxw, n, t0, t1, t2) -> bool:
    """Some item arrives exactly at the instant the window closes (same loop iteration as the completion sentinel)."""
    c = window_close(deb, maxw, n, t0, t1, t2)
    ts = [t0, t1, t2]
    for i in range(n):
        if ts[i] == c:
            return True
    return False


def late_item_overtakes(deb, maxw, n, t0, t1, t2, k0, k1, k2) -> bool:
    """An item arrives exactly when the window closes, the buffer is non-empty and holds a smaller key: if that item
    is taken before the completion sentinel of the same `done` batch it is emitted ahead of the sorted burst."""
    c = window_close(deb, maxw, n, t0, t1, t2)
    ts = [t0, t1, t2]
    ks = [k0, k1, k2]
    for i in range(n):
        if ts[i] == c:
            for j in range(i):
                if ks[j] < ks[i]:
                    return True
            return False
    return False


class _Opaque:
    __slots__ = ("i",)

    def __init__(self, i) -> None:
        self.i = i


def _debounce_scenario(deb, maxw, n, ts, keys, order) -> bool:
    loop = SymLoop()
    out = []

    async def inner():
        prev = 0
        for i in range(n):
            await asyncio.sleep(ts[i] - prev)
            prev = ts[i]
            yield _Opaque(i)     # items are opaque records (the real caller sorts log-event models): only their KEYS are comparable

    async def main():
        async for it in iu.debounced_sorted_prefix(inner(), key=lambda o: keys[o.i], debounce_seconds=deb, max_window_seconds=maxw):
            out.append(it.i)

    with _Patched(order):
        loop.run_until_complete(main())

    if len(out) != n:
        return False
    cnt = [0] * n
    for it in out:
        cnt[it] += 1
    for i in range(n):
        if cnt[i] != 1:
            return False
    close = window_close(deb, maxw, n, ts[0], ts[1], ts[2])
    m_lo = 0
    m_hi = 0
    for i in range(n):
        if ts[i] < close:
            m_lo += 1  # arrived while the window was open: belongs to the burst
        if ts[i] <= close:
            m_hi += 1  # arrived exactly when it closed: either side is acceptable
    for m in range(m_lo, m_hi + 1):
        good = True
        for p in range(m):
            if out[p] >= m:  # sorted part must be a permutation of the first m arrivals
                good = False
            if p + 1 < m and keys[out[p]] > keys[out[p + 1]]:
                good = False
        for p in range(m, n):
            if out[p] != p:  # later items in arrival order
                good = False
        if good:
            return True
    return False


TQ = B(3, 4)
KQ = B(1, 2)


@obligation(quick=150, thorough=500,
            partitions_quick=[f"n == {n} and rev == {r}" for n in (1, 2, 3) for r in (False, True)],
            partitions_thorough=[f"n == {n} and deb == {d} and rev == {r}" for n in (1, 2, 3) for d in (1, 2) for r in (False, True)],
            what="debounced_sorted_prefix: n items at symbolic instants around the window, symbolic keys, both done-set orders",
            bounds={"items": "1..3", "arrival instants": "0..TQ (non-decreasing)", "debounce": "1..2", "max window": "1..3", "keys": "0..KQ"})
def ob_debounce(n: int, deb: int, maxw: int, t0: int, t1: int, t2: int, k0: int, k1: int, k2: int, rev: bool) -> bool:
    """
    pre: 1 <= n <= 3 and 1 <= deb <= 2 and 1 <= maxw <= 3
    pre: 0 <= t0 <= t1 <= t2 <= TQ and (n > 1 or t1 == t0) and (n > 2 or t2 == t1)
    pre: 0 <= k0 <= KQ and 0 <= k1 <= KQ and 0 <= k2 <= KQ and (n > 1 or k1 == 0) and (n > 2 or k2 == 0)
    post: _
    """
    return _debounce_scenario(deb, maxw, n, [t0, t1, t2], [k0, k1, k2], 1 if rev else 0)


# --------------------------------------------------------------------------------------------- item values
_VALS29 = [None, 0, "", False, (), "x"]


@obligation(quick=150, thorough=400, partitions_quick=[f"v0 == {v}" for v in range(len(_VALS29))],
            partitions_thorough=[f"v0 == {v} and v1 == {w}" for v in range(len(_VALS29)) for w in range(len(_VALS29))],
            what="the merge forwards ITEMS, whatever they are: a source whose items are None / 0 / '' / False / () (an Optional-typed stream, a "
                 "heartbeat placeholder) is merged like any other — every item of every source exactly once, per-source order, the same objects",
            bounds={"sources": 2, "items": "source 0: 2..3 values from {None, 0, '', False, (), 'x'}; source 1: 2 strings", "delay": "0..1", "done-set order": "both"})
def ob_merge_item_values(n0: int, v0: int, v1: int, v2: int, d0: int, d1: int, o: int) -> bool:
    """
    pre: 2 <= n0 <= 3 and 0 <= v0 < 6 and 0 <= v1 < 6 and 0 <= v2 < 6 and 0 <= d0 <= 1 and 0 <= d1 <= 1 and 0 <= o <= 1
    post: _
    """
    vals = []
    for v in (v0, v1, v2):
        for k in range(len(_VALS29)):
            if v == k:
                vals.append(_VALS29[k])
    vals = vals[:3 if n0 == 3 else 2]
    loop = SymLoop()
    out = []

    async def src0():
        for x in vals:
            await asyncio.sleep(d0)
            yield x

    async def src1():
        for k in range(2):
            await asyncio.sleep(d1)
            yield "b%d" % k

    async def main():
        async for it in iu.merge_generators(src0(), src1()):
            out.append(it)
            await asyncio.sleep(0)

    with _Patched(o):
        loop.run_until_complete(main())
    from1 = [x for x in out if isinstance(x, str) and x.startswith("b")]
    from0 = [x for x in out if not (isinstance(x, str) and x.startswith("b"))]
    if from1 != ["b0", "b1"] or len(from0) != len(vals):
        return False
    for a, b in zip(from0, vals):
        if a is not b:
            return False
    return True


# --------------------------------------------------------------------------------------------- debounce: item values
class _S29(str):
    """a log line (str) that remembers which input item it is"""
    idx = -1


_LINES29 = ["__COMPLETE__", "", "a", "__complete__"]


NDV29 = B(2, 3)   # items / max window in ob_debounce_item_values


@obligation(quick=150, thorough=400, partitions_quick=[f"v0 == {v} and v1 == {w}" for v in range(len(_LINES29)) for w in range(len(_LINES29))],
            partitions_thorough=[f"v0 == {v} and v1 == {w} and n == {k}" for v in range(len(_LINES29)) for w in range(len(_LINES29)) for k in (2, 3)],
            what="debounced_sorted_prefix forwards ITEMS, whatever their text: log lines drawn from {'__COMPLETE__', '', 'a', '__complete__'} "
                 "(the first is the text of the debouncer's own marker) at symbolic instants around the window, keyed by arrival index: every "
                 "input item exactly once, in arrival order",
            bounds={"items": "2 (thorough 3) strings from a pool of 4", "arrival instants": "0..3 (non-decreasing)", "debounce": "1..2", "max window": "1..2 (thorough 3)", "done-set order": "both"})
def ob_debounce_item_values(n: int, v0: int, v1: int, v2: int, deb: int, maxw: int, t0: int, t1: int, t2: int, rev: bool) -> bool:
    """
    pre: 2 <= n <= NDV29 and 0 <= v0 < 4 and 0 <= v1 < 4 and 0 <= v2 < 4 and 1 <= deb <= 2 and 1 <= maxw <= NDV29
    pre: 0 <= t0 <= t1 <= t2 <= 3 and (n > 2 or (t2 == t1 and v2 == 0))
    post: _
    """
    items = []
    for v in (v0, v1, v2):
        for k in range(len(_LINES29)):
            if v == k:
                s = _S29(_LINES29[k])
                s.idx = len(items)
                items.append(s)
    items = items[:3 if n == 3 else 2]
    ts = [t0, t1, t2]
    loop = SymLoop()
    out = []

    async def inner():
        prev = 0
        for i in range(len(items)):
            await asyncio.sleep(ts[i] - prev)
            prev = ts[i]
            yield items[i]

    async def main():
        async for it in iu.debounced_sorted_prefix(inner(), key=lambda s: s.idx, debounce_seconds=deb, max_window_seconds=maxw):
            out.append(it)

    with _Patched(1 if rev else 0):
        loop.run_until_complete(main())
    if len(out) != len(items):
        return False
    for a, b in zip(out, items):
        if a is not b:
            return False
    return True
