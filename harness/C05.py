"""C05 — retry budgets count attempts and elapsed time correctly.

Shape of the argument
* policy kernel (Engine S, ints): the real ``_ComposableRetryPolicy.next`` with ``stop_after_attempt(n)`` retries the
  k-th failure iff ``k < max(n,1)`` (and never a non-retryable error); iterating it gives exactly ``max(n,1)``
  executions; ``stop_after_delay(d)`` retries iff ``elapsed < d`` (Engine S on ints, Engine T on reals);
* plumbing (Engine S, one reducer step from an arbitrary in-progress state with ``attempts = a``): the real
  ``_reduce_tick`` hands the policy ``attempts = a+1`` and ``elapsed = failed_at - first_attempt_at`` and the retry
  command / StepFailedEvent / WorkflowFailedEvent carry the same numbers; the real runner turns the retry command into
  an invocation whose ``RetryAttempt.retry_number == a+1`` with the previous exception;
* clock consistency (Engine S): wall clock and monotonic clock are two views ``t+ow`` / ``t+om`` of ONE hidden instant;
  the real ``InternalAsyncioAdapter.get_now`` -> real runner -> real ``as_step_worker_function`` failure path -> real
  reducer -> real ``InternalContext.retry_info`` chain must report hidden-instant differences."""
from __future__ import annotations

import vlib.boot  # noqa: F401
from vlib.boot import B, drive
from vlib.ob import obligation, smt_obligation
from vlib.world import EVA, EVA2, StubPolicy, world_ab, world_ab_valid
from vlib import h_retry as H
from vlib.h_tools import reset_module_containers

import workflows.context.internal_context as ic_mod
import workflows.plugins.basic as basic_mod
import workflows.runtime.types.step_function as sf_mod
from workflows import Context, Workflow, step
from workflows.decorators import CatchErrorHandler
from workflows.events import StartEvent, StepFailedEvent, StopEvent, WorkflowFailedEvent
from workflows.plugins.basic import BasicRuntime, setting_run_id
from workflows.retry_policy import (
    retry_if_exception_type, retry_policy, stop_after_attempt, stop_after_delay, stop_never, wait_fixed,
)
from workflows.runtime.control_loop import _ControlLoopRunner, _reduce_tick
from workflows.runtime.types.commands import CommandFailWorkflow, CommandPublishEvent, CommandQueueEvent, CommandRunWorker
from workflows.runtime.types.internal_state import BrokerState
from workflows.runtime.types.results import StepWorkerFailed
from workflows.runtime.types.step_function import as_step_worker_functions
from workflows.runtime.types.ticks import TickAddEvent, TickStepResult

ENCODED = [
    "workflows.retry_policy:_ComposableRetryPolicy.next",
    "workflows.retry_policy:stop_after_attempt.__call__",
    "workflows.retry_policy:stop_after_delay.__call__",
    "workflows.retry_policy:stop_any.__call__",
    "workflows.retry_policy:retry_if_exception_type.__init__",
    "workflows.runtime.control_loop:_process_step_result_tick",
    "workflows.runtime.control_loop:_add_or_enqueue_event",
    "workflows.runtime.control_loop:_process_add_event_tick",
    "workflows.runtime.control_loop:_ControlLoopRunner.process_command",
    "workflows.runtime.control_loop:_ControlLoopRunner.run_worker",
    "workflows.runtime.control_loop:_ControlLoopRunner._process_tick",
    "workflows.runtime.types.step_function:as_step_worker_function",
    "workflows.plugins.basic:InternalAsyncioAdapter.get_now",
    "workflows.context.internal_context:InternalContext.retry_info",
]
ASSUMES = [
    "instants, delays, attempt limits are ints (integers stand for instants; only order and differences matter)",
    "user retry policy in the plumbing obligations = recording stub (vlib.world.StubPolicy / local recorder): returns "
    "None / 0 / a positive delay and records the arguments it was called with",
    "clock model: time.time() = t + ow and time.monotonic() = t + om for one hidden instant t and free integer epochs "
    "ow, om (module attribute `time` of plugins.basic / runtime.types.step_function / context.internal_context is "
    "replaced by vlib.h_retry.FakeTime for the duration of the obligation); monotonic readings are > 0",
    "the step body of the clock obligation raises immediately (hidden time advances only where the harness says)",
    "Engine T (stop_after_delay over reals): Python float -> z3 Real, rounding ignored",
]
OUTSIDE = [
    "attempt limits > 6 / attempts > 8 (quick) — thorough doubles them", "runtimes other than BasicRuntime (DBOS get_now)",
    "asyncio scheduling between the pieces of the chain (the chain is driven synchronously)",
]

NMAX = B(6, 10)
KMAX = B(8, 12)
AMAX = B(2, 4)
SHAPE_NW = B(1, 2)
T0MAX = B(2, 3)
WAITMAX = B(2, 3)
TMAX = B(2, 3)
DTMAX = B(2, 4)


# ---------------------------------------------------------------------------------------------- policy kernel (S)


def _always_stop(attempts, elapsed_time, **kw):
    return True


def _never_stop(attempts, elapsed_time, **kw):
    return False


@obligation(quick=60, thorough=240, what="stop_after_attempt(n): k-th failure retried iff retryable and k < max(n,1) (real next, 6 policy spellings incl. a plain callable as "
                 "the LEFT operand of & and |, which goes through __rand__ / __ror__)",
            partitions_quick=[f"variant == {v}" for v in range(6)], partitions_thorough=[f"variant == {v}" for v in range(6)],
            bounds={"n": "-1..NMAX", "k": "1..KMAX", "elapsed": "0..8"})
def ob_stop_after_attempt_iff(n: int, k: int, retryable: bool, el: int, variant: int) -> bool:
    """
    pre: -1 <= n <= NMAX and 1 <= k <= KMAX and 0 <= el <= 8 and 0 <= variant <= 5
    post: _
    """
    if variant == 4:
        # a user-supplied callable that always says stop, AND-ed in front: the conjunction stops exactly when stop_after_attempt does
        pol = retry_policy(retry=retry_if_exception_type(ValueError), stop=_always_stop & stop_after_attempt(n))
    elif variant == 5:
        # a callable that never says stop, OR-ed in front
        pol = retry_policy(retry=retry_if_exception_type(ValueError), stop=_never_stop | stop_after_attempt(n))
    elif variant == 0:
        pol = retry_policy(retry=retry_if_exception_type(ValueError), wait=wait_fixed(0), stop=stop_after_attempt(n))
    elif variant == 1:
        pol = retry_policy(retry=retry_if_exception_type((ValueError, OSError)), stop=stop_after_attempt(n) | stop_after_attempt(n + 1))
    elif variant == 2:
        pol = retry_policy(retry=retry_if_exception_type(ValueError), stop=stop_after_attempt(n) & stop_after_attempt(n - 1))
    else:
        pol = retry_policy(retry=retry_if_exception_type(ValueError) | retry_if_exception_type(OSError), wait=wait_fixed(1), stop=stop_after_attempt(n))
    err = ValueError("x") if retryable else KeyError("x")
    d = pol.next(el, k, err)
    if k == 1 and not retryable and d is not None:
        return False
    return (d is not None) == (retryable and k < max(n, 1))


@obligation(quick=60, thorough=240, what="a step that always fails is executed exactly max(n,1) times (iterating the real next); a non-retryable error once",
            bounds={"n": "-1..NMAX"})
def ob_executions_equal_budget(n: int, retryable: bool, with_retry_cond: bool) -> bool:
    """
    pre: -1 <= n <= NMAX
    post: _
    """
    if with_retry_cond:
        pol = retry_policy(retry=retry_if_exception_type(ValueError), wait=wait_fixed(0), stop=stop_after_attempt(n))
        err = ValueError("x") if retryable else KeyError("x")
    else:
        pol = retry_policy(wait=wait_fixed(0), stop=stop_after_attempt(n))
        err = ValueError("x")
        retryable = True
    executions = 0
    attempts = 0  # InProgressState.attempts of the current execution
    while True:
        executions += 1
        d = pol.next(executions, attempts + 1, err)  # the reducer passes attempts+1 (ob_reducer_feeds_policy)
        if d is None:
            break
        attempts += 1
        if executions > NMAX + 3:
            return False
    return executions == (max(n, 1) if retryable else 1)


@obligation(quick=60, thorough=240, what="stop_after_delay(d) (alone and | stop_after_attempt(n)): retried iff elapsed < d (and k < max(n,1))",
            bounds={"d": "0..8", "elapsed": "0..10", "n": "1..NMAX", "k": "1..KMAX"})
def ob_stop_after_delay_iff(d: int, el: int, n: int, k: int, composed: bool) -> bool:
    """
    pre: 0 <= d <= 8 and 0 <= el <= 10 and 1 <= n <= NMAX and 1 <= k <= KMAX
    post: _
    """
    # explicit forks: stop_after_delay compares elapsed with float(d); a symbolic int/real mix is inconclusive in CrossHair
    # (and trips a z3 5.1 lar_solver assertion) — d and elapsed are enumerated by the solver, n and k stay symbolic.
    # The real-valued statement is ob_stop_after_delay_reals (Engine T).
    d = H.fork_int(d, 0, 8)
    el = H.fork_int(el, 0, 10)
    if composed:
        pol = retry_policy(wait=wait_fixed(0), stop=stop_after_attempt(n) | stop_after_delay(d))
        want = k < max(n, 1) and el < d
    else:
        pol = retry_policy(wait=wait_fixed(0), stop=stop_after_delay(d) | stop_never())
        want = el < d
    r = pol.next(el, k, ValueError("x"))
    return (r is not None) == want


# ---------------------------------------------------------------------------------------------- plumbing (S)


def _handlers(routed: bool):
    if routed:
        return {"h": CatchErrorHandler(step_name="h", for_steps=["a"], max_recoveries=1)}, {"a": "h"}
    return {}, {}


_RP_PARTS_Q = ([f"pol == {p}" for p in (1, 2)] + [f"pol == 0 and routed == {r} and a == {a}" for r in (False, True) for a in range(0, 3)])
_RP_PARTS_T = ([f"pol == {p} and nw == {n}" for p in (1, 2) for n in (1, 2)]
               + [f"pol == 0 and routed == {r} and a == {a} and nw == {n}" for r in (False, True) for a in range(0, 5) for n in (1, 2)])


@obligation(quick=120, thorough=600, partitions_quick=_RP_PARTS_Q, partitions_thorough=_RP_PARTS_T,
            what="StepWorkerFailed on an in-progress entry with attempts=a: real _reduce_tick calls next(failed_at-first_attempt_at, a+1, exc); "
                 "retry command / StepFailedEvent / WorkflowFailedEvent carry a+1, same first_attempt_at, the exception, the same elapsed",
            bounds={"a": "0..AMAX", "first_attempt_at": "1..2 (thorough 1..3)", "failed_at-first": "0..DTMAX",
                    "shape": "quick: 1 worker, empty queue; thorough: num_workers 1..2, second slot busy or not, queue 0..1"})
def ob_reducer_feeds_policy(nw: int, b1: bool, q: int, wid: int, a: int, t0: int, dt: int, pol: int, routed: bool, rc: int) -> bool:
    """
    pre: 1 <= nw <= SHAPE_NW and world_ab_valid(nw, True, b1, False, q) and q <= 1
    pre: 0 <= wid <= 1 and (wid == 0 or b1)
    pre: 0 <= a <= AMAX and 1 <= t0 <= T0MAX and 0 <= dt <= DTMAX and 0 <= pol <= 2 and 0 <= rc <= 1
    post: _
    """
    # instants are enumerated by explicit forks (the real StepWorkerFailed is a validated pydantic model: failed_at is a
    # concrete float there; a symbolic datetime.fromtimestamp is needlessly expensive); the attempt counter stays symbolic
    t0 = H.fork_int(t0, 1, T0MAX)
    dt = H.fork_int(dt, 0, DTMAX)
    policy = StubPolicy(pol, delay=3)
    hs, hfs = _handlers(routed)
    st = world_ab(nw, True, b1, False, q, att=a, policy=policy, t0=t0, handlers=hs, handler_for_step=hfs, rc=({"h": rc} if routed else None))
    exc = ValueError("boom")
    failed_at = t0 + dt
    tick = TickStepResult.model_construct(step_name="a", worker_id=wid, event=EVA,
                                          result=[StepWorkerFailed.model_construct(exception=exc, failed_at=failed_at)])
    st2, cmds = _reduce_tick(tick, st, failed_at, "r")
    if len(policy.calls) != 1:
        return False
    c_el, c_att, c_err = policy.calls[0]
    if not (c_el == dt and c_att == a + 1 and c_err is exc):
        return False
    retry_cmds = [c for c in cmds if isinstance(c, CommandQueueEvent) and c.event is EVA and c.attempts is not None]
    fail_pub = [c.event for c in cmds if isinstance(c, CommandPublishEvent) and isinstance(c.event, WorkflowFailedEvent)]
    fail_cmd = [c for c in cmds if isinstance(c, CommandFailWorkflow)]
    routed_cmds = [c for c in cmds if isinstance(c, CommandQueueEvent) and isinstance(c.event, StepFailedEvent)]
    if pol >= 1:
        if fail_pub or fail_cmd or routed_cmds or len(retry_cmds) != 1:
            return False
        r = retry_cmds[0]
        return (r.attempts == a + 1 and r.first_attempt_at == t0 and r.last_exception is exc and r.last_failed_at == failed_at
                and r.step_name == "a" and r.delay == (0 if pol == 1 else 3))
    if retry_cmds:
        return False
    if routed and rc + 1 <= 1:
        if fail_pub or fail_cmd or len(routed_cmds) != 1:
            return False
        e = routed_cmds[0].event
        return (e.attempts == a + 1 and e.elapsed_seconds == dt and e.exception is exc and e.step_name == "a"
                and e.input_event is EVA and e.failed_at.timestamp() == failed_at)
    if routed_cmds or len(fail_pub) != 1 or len(fail_cmd) != 1:
        return False
    e = fail_pub[0]
    return e.attempts == a + 1 and e.elapsed_seconds == dt and e.exception is exc and e.step_name == "a" and fail_cmd[0].exception is exc


@obligation(quick=90, thorough=240, partitions_quick=[f"tail == {t}" for t in range(3)],
            what="a RETRY attempt (attempts = a, clock started at t0, last exception recorded) of a collecting step whose buffer snapshot is stale: the "
                 "reducer re-runs it in place - the re-run is the SAME attempt: the slot keeps attempts, first_attempt_at, last_exception, "
                 "last_failed_at and recovery counts (a re-run is not a fresh budget); and when the same tick also carries a failure, the policy is "
                 "asked with a + 1 and the elapsed time since t0",
            bounds={"a": "0..AMAX", "first_attempt_at": "1..2", "num_workers": "1..2", "buffer live/snapshot": "0..2", "what follows the collect": "nothing / result None / failure"})
def ob_stale_collect_rerun_keeps_attempt(nw: int, b1: bool, wid: int, a: int, t0: int, live: int, snap: int, tail: int, rc: int, pol: int) -> bool:
    """
    pre: 1 <= nw <= 2 and world_ab_valid(nw, True, b1, False, 0)
    pre: 0 <= wid <= 1 and (wid == 0 or b1)
    pre: 0 <= a <= AMAX and 1 <= t0 <= 2 and 0 <= snap <= live <= 2 and 0 <= tail <= 2 and 0 <= rc <= 1 and 1 <= pol <= 2
    post: _
    """
    from workflows.runtime.types.results import AddCollectedEvent, StepWorkerResult
    from vlib.world import EVB

    t0 = H.fork_int(t0, 1, 2)
    policy = StubPolicy(pol, delay=3)
    st = world_ab(nw, True, b1, False, 0, att=a, policy=policy, t0=t0, buf_live=live, buf_snap=snap, rc={"h": rc})
    exc0 = KeyError("earlier")
    for ip in st.workers["a"].in_progress:
        ip.last_exception = exc0
        ip.last_failed_at = 0.5
    res = [AddCollectedEvent(event_id="buf", event=EVA)]
    exc = ValueError("boom")
    if tail == 1:
        res.append(StepWorkerResult(result=None))
    elif tail == 2:
        res.append(StepWorkerFailed.model_construct(exception=exc, failed_at=t0 + 1))
    tick = TickStepResult.model_construct(step_name="a", worker_id=wid, event=EVA, result=res)
    st2, cmds = _reduce_tick(tick, st, t0 + 1, "r")
    mine = [x for x in st2.workers["a"].in_progress if x.worker_id == wid]
    reruns = [c for c in cmds if isinstance(c, CommandRunWorker) and c.step_name == "a" and c.id == wid]
    if live > snap and tail != 2:
        # stale: re-run in place, same attempt
        if len(mine) != 1 or len(reruns) != 1:
            return False
        m = mine[0]
        return (m.attempts == a and m.first_attempt_at == t0 and m.last_exception is exc0 and m.last_failed_at == 0.5
                and m.recovery_counts == {"h": rc} and m.event is EVA)
    if tail == 2:
        if len(policy.calls) != 1:
            return False
        c_el, c_att, c_err = policy.calls[0]
        if not (c_el == 1 and c_att == a + 1 and c_err is exc):
            return False
        retry_cmds = [c for c in cmds if isinstance(c, CommandQueueEvent) and c.event is EVA and c.attempts is not None]
        if live > snap:
            # stale collect AND failure in one tick: either shape is acceptable as long as the attempt is not reset
            for m in mine:
                if not (m.attempts == a and m.first_attempt_at == t0):
                    return False
        return all(r.attempts == a + 1 and r.first_attempt_at == t0 for r in retry_cmds)
    return True


class _SeedPolicy:
    """a policy of the current protocol: next(elapsed_time, attempts, error, *, seed=None)"""

    def __init__(self) -> None:
        self.calls: list = []

    def next(self, elapsed_time, attempts, error, *, seed=None):
        self.calls.append((elapsed_time, attempts, error, seed))
        return 2


class _LegacyPolicy:
    """a policy written against the older protocol: next(elapsed_time, attempts, error)"""

    def __init__(self) -> None:
        self.calls: list = []

    def next(self, elapsed_time, attempts, error):
        self.calls.append((elapsed_time, attempts, error))
        return 2


@obligation(quick=90, thorough=200,
            what="two workflows in one process whose failing steps have the SAME name but retry policies of different kinds (current protocol with "
                 "the seed keyword / legacy three-argument next), failures reduced in either order: each policy is asked once, with the "
                 "elapsed time and attempt number of ITS failure, and its answer becomes the retry (nothing learnt about one step's policy "
                 "is applied to the other's)",
            bounds={"order": "seed-policy first / legacy first / same kind twice", "attempts": "0..2"})
def ob_same_step_name_other_policy_kind(first: int, second: int, a: int) -> bool:
    """
    pre: 0 <= first <= 1 and 0 <= second <= 1 and 0 <= a <= 2
    post: _
    """
    first, second = H.fork_int(first, 0, 1), H.fork_int(second, 0, 1)
    import workflows.runtime.control_loop as _cl

    reset_module_containers(_cl)      # each explored order starts from a fresh process image of the engine module
    ok = True
    for kind in (first, second):
        policy = _SeedPolicy() if kind == 0 else _LegacyPolicy()
        st = world_ab(1, True, False, False, 0, att=a, policy=policy, t0=1)
        exc = ValueError("boom")
        tick = TickStepResult.model_construct(step_name="a", worker_id=0, event=EVA,
                                              result=[StepWorkerFailed.model_construct(exception=exc, failed_at=3)])
        st2, cmds = _reduce_tick(tick, st, 3, "r")
        retry_cmds = [c for c in cmds if isinstance(c, CommandQueueEvent) and c.event is EVA and c.attempts is not None]
        if len(policy.calls) != 1 or policy.calls[0][0] != 2 or policy.calls[0][1] != a + 1 or policy.calls[0][2] is not exc:
            ok = False
        if len(retry_cmds) != 1 or retry_cmds[0].delay != 2 or retry_cmds[0].attempts != a + 1:
            ok = False
    return ok


class _ClockAdapter:
    """Stub internal adapter for driving the real runner synchronously: a settable clock, nothing else."""

    run_id = "r"

    def __init__(self, now) -> None:
        self.now = now
        self.published: list = []

    async def get_now(self):
        return self.now

    async def write_to_event_stream(self, event) -> None:
        self.published.append(event)

    async def on_tick(self, tick) -> None:
        return None

    async def after_tick(self, tick) -> None:
        return None

    async def close(self) -> None:
        return None


@obligation(quick=120, thorough=300, partitions_quick=[f"tq == {t}" for t in range(1, 4)], partitions_thorough=[f"tq == {t} and nw == {n}" for t in range(1, 4) for n in (1, 2)],
            what="elapsed time counts from the FIRST ATTEMPT, not from the moment the event was accepted: an event that has to queue for a busy step "
                 "carries no first-attempt stamp while queued; the stamp is the instant it gets a worker slot; when that first attempt fails the "
                 "policy is handed (failed_at - slot instant) and the failure events report the same",
            bounds={"queued at": "1..3", "slot freed at": "queued..queued+3", "fails at": "slot..slot+3", "num_workers": "1..2"})
def ob_queued_event_clock_starts_at_first_attempt(nw: int, tq: int, dts: int, dtf: int, pol: int) -> bool:
    """
    pre: 1 <= nw <= 2 and 1 <= tq <= 3 and 0 <= dts <= 3 and 0 <= dtf <= 3 and 0 <= pol <= 1
    post: _
    """
    ts, tf = tq + dts, tq + dts + dtf
    policy = StubPolicy(0 if pol == 0 else 2, 1)   # records what it is asked; gives up / retries after a delay
    st = world_ab(nw, True, nw == 2, False, 0, policy=policy, t0=0)      # every worker of step a is busy
    add = TickAddEvent.model_construct(event=EVA2, step_name=None, attempts=None, first_attempt_at=None, last_exception=None,
                                       last_failed_at=None, recovery_counts={})
    st, _ = _reduce_tick(add, st, tq, "r")
    q = st.workers["a"].queue
    if len(q) != 1 or q[0].first_attempt_at:      # a queued event has not been attempted yet
        return False
    # worker 0 finishes at ts: the queued event gets its slot
    from workflows.runtime.types.results import StepWorkerResult
    done = TickStepResult.model_construct(step_name="a", worker_id=0, event=EVA, result=[StepWorkerResult(result=None)])
    st, _ = _reduce_tick(done, st, ts, "r")
    mine = [x for x in st.workers["a"].in_progress if x.event is EVA2]
    if len(mine) != 1 or mine[0].first_attempt_at != ts or mine[0].attempts != 0:
        return False
    # its first attempt fails at tf
    exc = ValueError("boom")
    fail = TickStepResult.model_construct(step_name="a", worker_id=mine[0].worker_id, event=EVA2,
                                          result=[StepWorkerFailed.model_construct(exception=exc, failed_at=tf)])
    st, cmds = _reduce_tick(fail, st, tf, "r")
    if len(policy.calls) != 1:
        return False
    elapsed, attempts, err = policy.calls[0]
    if elapsed != tf - ts or attempts != 1 or err is not exc:
        return False
    if pol == 0:
        wf = [c.event for c in cmds if isinstance(c, CommandPublishEvent) and isinstance(c.event, WorkflowFailedEvent)]
        return len(wf) == 1 and wf[0].elapsed_seconds == tf - ts and wf[0].attempts == 1
    rq = [c for c in cmds if isinstance(c, CommandQueueEvent) and c.event is EVA2]
    return len(rq) == 1 and rq[0].first_attempt_at == ts and rq[0].attempts == 1


@obligation(quick=120, thorough=400, partitions_quick=[f"delay == {d}" for d in range(3)], partitions_thorough=[f"delay == {d}" for d in range(3)],
            what="the retry command goes through the real runner (process_command -> tick -> reducer -> run_worker): the next invocation "
                 "gets RetryAttempt(retry_number=a+1, same first_attempt_at, the previous exception, last_failed_at) and is not started before now+delay",
            bounds={"a": "0..AMAX", "t0": "1..2", "dt": "0..1", "delay": "0..2", "wait": "0..2 (thorough 0..3)"})
def ob_retry_attempt_number(a: int, t0: int, dt: int, delay: int, wait: int) -> bool:
    """
    pre: 0 <= a <= AMAX and 1 <= t0 <= 2 and 0 <= dt <= 1 and 0 <= delay <= 2 and 0 <= wait <= WAITMAX
    post: _
    """
    policy = StubPolicy(2, delay=delay)
    st = world_ab(1, True, False, False, 0, att=a, policy=policy, t0=t0)
    exc = ValueError("boom")
    failed_at = t0 + dt
    seen: list = []

    async def step_fn(state, step_name, event, workflow, retry):
        seen.append(retry)
        return []

    adapter = _ClockAdapter(failed_at)
    runner = _ControlLoopRunner(None, adapter, None, {"a": step_fn}, st)  # type: ignore[arg-type]
    tick = TickStepResult.model_construct(step_name="a", worker_id=0, event=EVA,
                                          result=[StepWorkerFailed.model_construct(exception=exc, failed_at=failed_at)])
    drive(runner._process_tick(tick))
    if runner._pending_workers:
        return False  # nothing may start before the retry tick is delivered
    # environment: `wait` time units pass
    adapter.now = failed_at + wait
    due = runner.pop_due_ticks(adapter.now)
    ticks = [t for t in list(runner.tick_buffer) + due if isinstance(t, TickAddEvent)]
    if delay > 0:
        if [t for t in runner.tick_buffer if isinstance(t, TickAddEvent)]:
            return False
        if (len(due) == 1) != (wait >= delay):  # not earlier than now+delay, and due once that instant is reached
            return False
        if wait < delay:
            return len(seen) == 0
    if len(ticks) != 1:
        return False
    drive(runner._process_tick(ticks[0]))
    if len(runner._pending_workers) != 1:
        return False
    res = drive(runner._pending_workers.pop(0).coro)
    if len(seen) != 1 or res.step_name != "a":
        return False
    r = seen[0]
    return (r.retry_number == a + 1 and r.first_attempt_at == t0 and r.last_exception is exc and r.last_failed_at == failed_at)


# ---------------------------------------------------------------------------------------------- clock consistency (S)


def _clock_chain(ow: int, om: int, t1: int, d_run: int, d_tick: int, d_run2: int, d_in2: int):
    """Drive the REAL chain: InternalAsyncioAdapter.get_now -> _ControlLoopRunner._process_tick -> reducer ->
    run_worker -> as_step_worker_function (step raises) -> reducer -> policy.next / retry / retry_info / failure event.
    Returns the observations together with the hidden instants they should be measured against."""
    cell = [t1]
    ft = H.FakeTime(cell, ow, om)
    saved = (basic_mod.time, sf_mod.time, ic_mod.time)
    basic_mod.time = sf_mod.time = ic_mod.time = ft
    try:
        infos: list = []
        hidden_start: list = []
        hidden_fail: list = []
        hidden_info: list = []

        class Recorder:
            def __init__(self) -> None:
                self.calls: list = []

            def next(self, elapsed_time, attempts, error):
                self.calls.append((elapsed_time, attempts, error))
                return 0 if attempts < 2 else None

        pol = Recorder()
        with H.untraced():  # concrete set-up only (class creation, step registry): no symbolic value is touched here
            rt = BasicRuntime()

            class W(Workflow):
                @step(retry_policy=pol)
                async def a(self, ctx: Context, ev: StartEvent) -> StopEvent:
                    if infos:
                        cell[0] = cell[0] + d_in2  # second run: time passes before retry_info is read
                    hidden_info.append(cell[0])
                    infos.append(ctx.retry_info())
                    cell[0] = cell[0] + (d_run if len(infos) == 1 else d_run2)
                    hidden_fail.append(cell[0])
                    raise ValueError("boom")

            wf = W(runtime=rt, timeout=None)
            st = BrokerState.from_workflow(wf)
            queues = rt._get_or_create_queues("r", st)  # keep the strong reference (WeakValueDictionary)
            workers = as_step_worker_functions(wf)
        with setting_run_id("r"):
            ad = rt.get_internal_adapter(wf)
            runner = _ControlLoopRunner(wf, ad, None, workers, st)  # type: ignore[arg-type]
            hidden_start.append(cell[0])
            drive(runner._process_tick(TickAddEvent(event=StartEvent())))
            tick = drive(runner._pending_workers.pop(0).coro)
            cell[0] = cell[0] + d_tick
            drive(runner._process_tick(tick))
            adds = [t for t in runner.tick_buffer if isinstance(t, TickAddEvent)]
            if len(adds) != 1:
                return None
            drive(runner._process_tick(adds[0]))
            tick2 = drive(runner._pending_workers.pop(0).coro)
            failed_event = None
            try:
                drive(runner._process_tick(tick2))
            except ValueError:
                pass
            while not queues.publish_queue.empty():
                e = queues.publish_queue.get_nowait()
                if isinstance(e, WorkflowFailedEvent):
                    failed_event = e
        return pol.calls, infos, failed_event, hidden_start[0], hidden_fail, hidden_info
    finally:
        basic_mod.time, sf_mod.time, ic_mod.time = saved


@obligation(quick=150, thorough=600,
            partitions_quick=[f"ow == {w} and t1 == {t}" for w in (0, 1) for t in (1, 2)],
            partitions_thorough=[f"ow == {w} and t1 == {t} and d_run == {d}" for w in (0, 1, 2) for t in (1, 2) for d in (0, 1, 2)],
            what="elapsed handed to policy.next, reported by retry_info() and by WorkflowFailedEvent equals the difference of hidden instants, "
                 "for every pair of clock epochs (wall = t+ow, monotonic = t+ow+skew); attempts = real execution count; retry numbers 0,1 with "
                 "the previous exception",
            bounds={"ow": "0..1 (thorough 0..2)", "skew = monotonic epoch - wall epoch": "-1..1 (thorough -2..2)", "t1": "1..2", "gaps": "0..TMAX-1"})
def ob_clock_consistency(ow: int, skew: int, t1: int, d_run: int, d_tick: int, d_run2: int, d_in2: int) -> bool:
    """
    pre: 0 <= ow <= TMAX - 1 and -TMAX + 1 <= skew <= TMAX - 1 and ow + skew >= 0 and 1 <= t1 <= 2
    pre: 0 <= d_run < TMAX and 0 <= d_tick <= 1 and 0 <= d_run2 <= 1 and 0 <= d_in2 < TMAX
    post: _
    """
    # every instant crosses a validated pydantic model in the real code (StepWorkerFailed.failed_at, TickAddEvent.first_attempt_at,
    # WorkflowFailedEvent.elapsed_seconds) and is realised there; enumerate by explicit forks up front instead (one path per
    # combination, no int/real solver queries)
    ow = H.fork_int(ow, 0, TMAX - 1)
    skew = H.fork_int(skew, -TMAX + 1, TMAX - 1)
    t1 = H.fork_int(t1, 1, 2)
    d_run, d_tick, d_run2, d_in2 = H.fork_int(d_run, 0, TMAX - 1), H.fork_int(d_tick, 0, 1), H.fork_int(d_run2, 0, 1), H.fork_int(d_in2, 0, TMAX - 1)
    obs = _clock_chain(ow, ow + skew, t1, d_run, d_tick, d_run2, d_in2)
    if obs is None:
        return False
    calls, infos, failed, h_start, h_fail, h_info = obs
    if len(calls) != 2 or len(infos) != 2 or failed is None:
        return False
    (e1, a1, x1), (e2, a2, x2) = calls
    if not (a1 == 1 and a2 == 2 and failed.attempts == 2):
        return False
    # elapsed = really elapsed time between the start of the first attempt and the failure
    if not (e1 == h_fail[0] - h_start and e2 == h_fail[1] - h_start):
        return False
    if not (failed.elapsed_seconds == h_fail[1] - h_start):
        return False
    i0, i1 = infos
    if not (i0.retry_number == 0 and i0.elapsed_seconds == 0 and i0.last_exception is None and i0.last_failed_at is None):
        return False
    if not (i1.retry_number == 1 and i1.last_exception is x1 and i1.last_failed_at is not None):
        return False
    return i1.elapsed_seconds == h_info[1] - h_start


# ---------------------------------------------------------------------------------------------- Engine T


def _tv_next(tr: H.Translator) -> int:
    """Translation validation of the `next` encoding against CPython on a grid of concrete inputs."""
    import z3

    d, el, wt = z3.Reals("d el wt")
    k, n = z3.Ints("k n")
    pol = tr.construct("_ComposableRetryPolicy", retry=None, wait=tr.construct("wait_fixed", wt),
                       stop=tr.construct("stop_any", tr.construct("stop_after_attempt", n), tr.construct("stop_after_delay", d)))
    s = H.OptSummary(tr.call_method(pol, "next", [el, k, None], {}))
    cnt = 0
    for dv in (0, 0.5, 2, 7.25):
        for ev in (0, 0.5, 1.99, 2, 7.25, 9):
            for kv in (1, 2, 3):
                for nv in (0, 1, 3):
                    real = retry_policy(wait=wait_fixed(1.5), stop=stop_after_attempt(nv) | stop_after_delay(dv)).next(ev, kv, ValueError("x"))
                    sub = {d: dv, el: ev, wt: 1.5, k: kv, n: nv}
                    none = H.concretize(s.is_none, sub)
                    val = H.concretize(s.value, sub)
                    if none is not (real is None) or (real is not None and not H.close_to(val, real)):
                        raise RuntimeError(f"translation validation FAILED: next(el={ev},k={kv}) d={dv} n={nv}: encoding ({none},{val}) cpython {real}")
                    cnt += 1
    return cnt


def _real_next(w) -> bool:
    """Native replay of a model of ob_stop_after_delay_reals."""
    d, el, wt, k, n = float(H.frac(w["d"])), float(H.frac(w["el"])), float(H.frac(w["wt"])), int(w["k"]), int(w["n"])
    r = retry_policy(wait=wait_fixed(wt), stop=stop_after_attempt(n) | stop_after_delay(d)).next(el, k, ValueError("x"))
    want = (k < max(n, 1)) and (el < d)
    return (r is not None) == want and (r is None or r == wt)


@smt_obligation(quick=60, thorough=120, what="over the reals: real next with stop_after_attempt(n) | stop_after_delay(d) retries iff k < max(n,1) and elapsed < d, "
                                             "and returns the wait strategy's delay (AST->z3 of next / stop_any / stop_after_* / wait_fixed)")
def ob_stop_after_delay_reals(ctx):
    import z3

    try:
        tr = H.Translator()
        n_tv = _tv_next(tr)
        d, el, wt = z3.Reals("d el wt")
        k, n = z3.Ints("k n")
        pol = tr.construct("_ComposableRetryPolicy", retry=None, wait=tr.construct("wait_fixed", wt),
                           stop=tr.construct("stop_any", tr.construct("stop_after_attempt", n), tr.construct("stop_after_delay", d)))
        s = H.OptSummary(tr.call_method(pol, "next", [el, k, None], {}))
    except H.Untranslatable as e:
        H.untranslatable(ctx, "next_iff", e)
        return
    nmax = z3.If(n >= 1, n, 1)
    want_retry = z3.And(k < nmax, el < d)
    prop = z3.And(z3.Not(s.raises), z3.Not(s.diverges), z3.Not(s.is_none) == want_retry, z3.Implies(z3.Not(s.is_none), s.value == wt))
    ctx.check("next_iff", assumptions=[k >= 1, el >= 0, d >= 0, wt >= 0], negated_property=z3.Not(prop),
              variables={"d": d, "el": el, "wt": wt, "k": k, "n": n}, replay=_real_next, note=f"translation validated on {n_tv} concrete inputs")


def replay_known(name, witness):
    if name.startswith("ob_stop_after_delay_reals"):
        return _real_next(witness)
    raise KeyError(name)
