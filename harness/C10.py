"""C10 — a step suspended in ctx.wait_for_event resumes and completes at most once per wait, with an event of the
requested type that satisfies every requirement (also after serialize/resume); waiter_event published once per waiter
id; TimeoutError at most once.

Shape:
* ``ob_wait_fn``: the REAL ``InternalContext.wait_for_event`` as a function of the snapshot waiter (absent / pending /
  resolved / timed out).
* ``ob_match`` / ``ob_add_delete_waiter`` / ``ob_waiter_timeout``: one real ``_reduce_tick`` step from an arbitrary REP
  state (inductive): resolution only on exact type + all requirements and only for a PENDING waiter; AddWaiter for an
  existing id replaces silently; DeleteWaiter only when the step completed; TickWaiterTimeout acts only on a pending
  waiter.
* ``ob_wait_run``: bounded multi-tick composition (real reducer + real wait_for_event in a loop, symbolic sequence of
  responses / timeout / worker completions): completions per wait <= 1, waiter_event publishes per id <= 1,
  TimeoutError <= 1, every received event matches.
* ``ob_serialize_waiters`` / ``ob_resume_requirements``: to_serialized -> from_serialized -> rehydrate_with_ticks keeps
  (id, type, has_requirements, resolved event), re-pings requirement-bearing waiters exactly once, and no event that
  violates the requirements is handed to the step while the requirements are being re-established.
"""
from __future__ import annotations

import vlib.boot  # noqa: F401
from vlib.boot import B
from vlib.ob import obligation
from vlib.h_handlers import (
    Done, Resp, SubResp, W_RET, W_TIMEOUT, W_WAIT, call_wait, conc, concb, find_ip, ident_count, mk_add_event,
    mk_step_result, native, same_ids,
)
from vlib.world import (
    ASK, EvA, EvB, StubPolicy, broker, busy_ids, in_progress, rep_R1, rep_R2, step_config, waiter, worker_state,
)

from workflows import Workflow, step
from workflows.context.serializers import JsonSerializer
from workflows.events import StartEvent, StopEvent
from workflows.runtime.control_loop import _reduce_tick
from workflows.runtime.types.commands import (
    CommandPublishEvent, CommandQueueEvent, CommandRunWorker, CommandScheduleWaiterTimeout,
)
from workflows.runtime.types.internal_state import BrokerState, EventAttempt
from workflows.runtime.types.results import (
    AddWaiter, DeleteWaiter, StepWorkerFailed, StepWorkerResult, StepWorkerState,
)
from workflows.runtime.types.ticks import TickAddEvent, TickWaiterTimeout

ENCODED = [
    "workflows.context.internal_context:InternalContext.wait_for_event",
    "workflows.runtime.control_loop:_reduce_tick",
    "workflows.runtime.control_loop:_process_add_event_tick",
    "workflows.runtime.control_loop:_process_step_result_tick",
    "workflows.runtime.control_loop:_process_waiter_timeout_tick",
    "workflows.runtime.control_loop:_add_or_enqueue_event",
    "workflows.runtime.types.internal_state:BrokerState.to_serialized",
    "workflows.runtime.types.internal_state:BrokerState.from_serialized",
    "workflows.runtime.types.internal_state:BrokerState.rehydrate_with_ticks",
    "workflows.runtime.types.internal_state:BrokerState.from_workflow",
]
ASSUMES = [
    "a waiting step calls ctx.wait_for_event once per invocation with a fixed waiter_id; when it gets the event (or "
    "catches TimeoutError) it returns an output event; the result list is assembled as the real step wrapper does "
    "(return_values appended by wait_for_event, then AddWaiter / StepWorkerResult / StepWorkerFailed)",
    "the worker's snapshot is the in_progress entry's shared_state (what _ControlLoopRunner.run_worker passes)",
    "pre-state of the one-step obligations satisfies REP: R1/R2, waiter ids unique per step, resolved_event (if set) has "
    "exactly the awaited type",
    "environment legality in ob_wait_run: a TickWaiterTimeout is delivered only after its CommandScheduleWaiterTimeout and "
    "at most once per schedule; external events may arrive at any point",
    "requirements are field == constant checks on one int field",
]
OUTSIDE = [
    "more than 2 concurrent workers of the waiting step in the multi-tick obligations, more than 6 environment actions",
    "several different waiter ids inside one step invocation; waits nested in retried steps (retry policy = none here)",
    "the wall-clock accuracy of the timeout (scheduling is _ControlLoopRunner.schedule_tick, covered by C03/C14)",
    "a timed_out flag is not serialized: after resume the wait simply continues without its timer (TimeoutError raised "
    "zero times, which the statement's 'at most once' allows)",
]

W_EV = EvA()    # the event the waiting step was started with (replayed on resolution)
Q_EV = EvA()    # other queued / running events of step "a"
RES0 = Resp(k=1)  # event an already-resolved waiter holds
K_ABSENT, K_PENDING, K_RESOLVED, K_TIMED_OUT = 0, 1, 2, 3


def _mk_waiter(kind, req, ev=W_EV):
    reqs = {"k": 1} if req else {}
    if kind == K_PENDING:
        return [waiter("w1", ev, Resp, reqs)]
    if kind == K_RESOLVED:
        return [waiter("w1", ev, Resp, reqs, resolved=RES0)]
    if kind == K_TIMED_OUT:
        return [waiter("w1", ev, Resp, reqs, timed_out=True)]
    return []


# --------------------------------------------------------------------------------------------------------------- Ob1


@obligation(quick=60, thorough=120,
            what="wait_for_event over the snapshot waiter: absent/pending -> WaitingForEvent(AddWaiter with the call's "
                 "arguments), resolved -> returns that event + DeleteWaiter, timed out -> TimeoutError + DeleteWaiter",
            bounds={"waiter": "absent/pending/resolved/timed-out", "another waiter with a different id": "yes/no",
                    "requirements": "none/one", "timeout": "None/5", "waiter_id": "explicit/auto-generated"})
def ob_wait_fn(kind: int, req: bool, other: bool, tmo: bool, auto_id: bool, wev: bool) -> bool:
    """
    pre: 0 <= kind <= 3
    post: _
    """
    kind, req, other, tmo, auto_id, wev = conc(kind, 0, 3), concb(req), concb(other), concb(tmo), concb(auto_id), concb(wev)
    reqs = {"k": 1} if req else None
    others = [waiter("zz", Q_EV, Resp, {}, resolved=Resp(k=7))] if other else []
    wid = "w1"
    if auto_id:
        # the id the real code generates for this (type, requirements): read it off a first call on an empty snapshot
        k0, add0, rv0 = call_wait(StepWorkerState(step_name="a", collected_events={}, collected_waiters=[]), Resp,
                                  requirements=reqs)
        if k0 != W_WAIT or rv0:
            return False
        wid = add0.waiter_id
        if wid == "zz":
            return False
    ws = _mk_waiter(kind, req)
    for w in ws:
        w.waiter_id = wid
    snap = StepWorkerState(step_name="a", collected_events={}, collected_waiters=others + ws)
    k, val, rv = call_wait(snap, Resp, waiter_event=(ASK if wev else None), waiter_id=(None if auto_id else "w1"),
                           requirements=reqs, timeout=(5 if tmo else None))
    if kind == K_ABSENT or kind == K_PENDING:
        return (k == W_WAIT and len(rv) == 0 and isinstance(val, AddWaiter) and val.waiter_id == wid
                and val.event_type is Resp and val.requirements == (reqs or {}) and val.timeout == (5 if tmo else None)
                and val.waiter_event is (ASK if wev else None))
    if len(rv) != 1 or not isinstance(rv[0], DeleteWaiter) or rv[0].waiter_id != wid:
        return False
    if kind == K_RESOLVED:
        return k == W_RET and val is RES0 and type(val) is Resp
    return k == W_TIMEOUT


# --------------------------------------------------------------------------------------------------------------- Ob2


def _world_a(nw, b0, b1, b2, q, kind, req, wid_runs_wev=-1, policy=None):
    """Step "a" (accepts EvA, ``nw`` workers, busy slots b0..b2, ``q`` queued) with waiter "w1" of the given kind
    (awaits Resp, replays W_EV); step "b" accepts EvB.  Workers saw the current waiter list."""
    ws_list = _mk_waiter(kind, req)
    ips = [in_progress("a", (W_EV if i == wid_runs_wev else Q_EV), i, waiters=ws_list) for i in busy_ids(3, (b0, b1, b2))]
    ws_a = worker_state(step_config([EvA], nw, policy), [EventAttempt(event=Q_EV) for _ in range(q)], ips, {}, ws_list)
    ws_b = worker_state(step_config([EvB, StartEvent], 1, None), [], [], {}, [])
    return broker({"a": ws_a, "b": ws_b})


def _valid_a(nw, b0, b1, b2, q) -> bool:
    if not (1 <= nw <= 3) or (b1 and nw < 2) or (b2 and nw < 3):
        return False
    nb = (1 if b0 else 0) + (1 if b1 else 0) + (1 if b2 else 0)
    return 0 <= q and not (q > 0 and nb < nw)


def _n_wev(state) -> int:
    """invocations of step "a" (running or queued) whose event is the waiter's replay event"""
    return ident_count(W_EV, [x.event for x in state.workers["a"].in_progress]) + ident_count(
        W_EV, [x.event for x in state.workers["a"].queue])


def _get_w(state):
    for w in state.workers["a"].collected_waiters:
        if w.waiter_id == "w1":
            return w
    return None


QMAX = B(1, 2)
NWMAX = B(2, 3)   # worker limit of the one-step obligations
FULL = B(False, True)


@obligation(quick=120, thorough=400, partitions_quick=[f"wk == {k}" for k in range(4)],
            partitions_thorough=[f"wk == {k} and evk == {e}" for k in range(4) for e in range(4)],
            what="TickAddEvent resolves a waiter (sets resolved_event, enqueues exactly one replay) iff the waiter is "
                 "PENDING, the type is exactly the awaited one and every requirement holds; otherwise the waiter is "
                 "untouched and nothing is replayed",
            bounds={"num_workers": "1..2 quick / 1..3 thorough", "queue": "0..1 quick / 0..2 thorough", "waiter": "absent/pending/resolved/timed-out",
                    "event": "awaited type with k in {1, 2, None} / subclass / other type / type accepted by the step"})
def ob_match(nw: int, b0: bool, b1: bool, b2: bool, q: int, wk: int, evk: int, req: bool, kv: int, targeted: bool) -> bool:
    """
    pre: _valid_a(nw, b0, b1, b2, q) and q <= QMAX and nw <= NWMAX
    pre: 0 <= wk <= 3 and 0 <= evk <= 3 and 0 <= kv <= 2
    pre: FULL or not targeted
    pre: evk <= 1 or kv == 1
    post: _
    """
    nw, q, wk, evk, kv = conc(nw, 1, 3), conc(q, 0, 2), conc(wk, 0, 3), conc(evk, 0, 3), conc(kv, 0, 2)
    b0, b1, b2, req, targeted = concb(b0), concb(b1), concb(b2), concb(req), concb(targeted)
    st = _world_a(nw, b0, b1, b2, q, wk, req)
    kval = kv if kv else None     # kv == 0: the response does not carry the required field (None)
    ev = Resp(k=kval) if evk == 0 else (SubResp(k=kval) if evk == 1 else (EvB() if evk == 2 else EvA()))
    tick = mk_add_event(ev, "a" if targeted else None)
    st2, cmds = _reduce_tick(tick, st, 1, "r")
    if not (rep_R1(st2) and rep_R2(st2)):
        return False
    w0, w2 = _get_w(st), _get_w(st2)
    matches = evk == 0 and (kv == 1 or not req)
    if wk == K_ABSENT:
        return w2 is None and _n_wev(st2) == 0
    if w2 is None or len(st2.workers["a"].collected_waiters) != 1:
        return False
    if wk == K_PENDING and matches:
        if w2.resolved_event is not ev or w2.timed_out:
            return False
        if _n_wev(st2) != _n_wev(st) + 1:
            return False
        # the response itself is not additionally queued for step "a" as a plain input
        return ident_count(ev, [x.event for x in st2.workers["a"].in_progress] + [x.event for x in st2.workers["a"].queue]) == 0
    # no match, or the waiter is no longer pending: untouched, nothing replayed
    return (w2.resolved_event is w0.resolved_event and w2.timed_out == w0.timed_out and _n_wev(st2) == _n_wev(st)
            and w2.requirements == w0.requirements)


@obligation(quick=120, thorough=400, partitions_quick=["op == 0 and wk <= 1", "op == 0 and wk >= 2", "op >= 1"],
            partitions_thorough=[f"op == {o} and nw == {n}" for o in range(3) for n in (1, 2, 3)],
            what="AddWaiter: new id -> appended, waiter_event published once, timeout scheduled once; existing id -> "
                 "replaced in place, nothing published or scheduled.  DeleteWaiter removes the waiter only when the step "
                 "completed (not on a failed attempt)",
            bounds={"num_workers": "1..2 quick / 1..3 thorough", "queue": "0..1 quick / 0..2 thorough", "waiter": "absent/pending/resolved/timed-out",
                    "op": "AddWaiter / DeleteWaiter+result / DeleteWaiter+failure"})
def ob_add_delete_waiter(nw: int, b0: bool, b1: bool, b2: bool, q: int, wid: int, wk: int, op: int, req: bool, tmo: bool, wev: bool) -> bool:
    """
    pre: _valid_a(nw, b0, b1, b2, q) and q <= QMAX and nw <= NWMAX
    pre: 0 <= wid <= 2 and (b0 if wid == 0 else (b1 if wid == 1 else b2))
    pre: 0 <= wk <= 3 and 0 <= op <= 2
    pre: op == 0 or not (tmo or wev)
    post: _
    """
    nw, q, wid, wk, op = conc(nw, 1, 3), conc(q, 0, 2), conc(wid, 0, 2), conc(wk, 0, 3), conc(op, 0, 2)
    b0, b1, b2, req, tmo, wev = concb(b0), concb(b1), concb(b2), concb(req), concb(tmo), concb(wev)
    st = _world_a(nw, b0, b1, b2, q, wk, req, wid_runs_wev=wid)
    if op == 0:
        res = [AddWaiter(waiter_id="w1", event_type=Resp, requirements=({"k": 1} if req else {}),
                         timeout=(5 if tmo else None), waiter_event=(ASK if wev else None))]
    elif op == 1:
        res = [DeleteWaiter(waiter_id="w1"), StepWorkerResult(result=None)]
    else:
        res = [DeleteWaiter(waiter_id="w1"), StepWorkerFailed(exception=ValueError("x"), failed_at=1.0)]
    st2, cmds = _reduce_tick(mk_step_result("a", wid, W_EV, res), st, 1, "r")
    asks = [c for c in cmds if isinstance(c, CommandPublishEvent) and c.event is ASK]
    scheds = [c for c in cmds if isinstance(c, CommandScheduleWaiterTimeout)]
    w0, w2 = _get_w(st), _get_w(st2)
    if op == 0:
        if w2 is None or len(st2.workers["a"].collected_waiters) != 1:
            return False
        fresh = (w2.event is W_EV and w2.waiting_for_event is Resp and w2.requirements == ({"k": 1} if req else {})
                 and w2.has_requirements == req and w2.resolved_event is None and not w2.timed_out)
        if not fresh:
            return False
        if wk == K_ABSENT:
            ok_s = (len(scheds) == 1 and scheds[0].step_name == "a" and scheds[0].waiter_id == "w1" and scheds[0].timeout == 5) if tmo else len(scheds) == 0
            return len(asks) == (1 if wev else 0) and ok_s
        return len(asks) == 0 and len(scheds) == 0
    if len(asks) != 0 or len(scheds) != 0:
        return False
    if op == 1:
        return w2 is None
    # failed attempt (no retry policy -> run fails, but the state keeps the waiter for a retry / resume)
    return (w2 is None) == (w0 is None) and (w2 is None or (w2.resolved_event is w0.resolved_event and w2.timed_out == w0.timed_out))


@obligation(quick=90, thorough=300,
            what="TickWaiterTimeout acts only on a PENDING waiter (marks it timed out, enqueues exactly one replay); an "
                 "absent, resolved or already timed-out waiter (or an unknown step) is left alone",
            bounds={"num_workers": "1..2 quick / 1..3 thorough", "queue": "0..1 quick / 0..2 thorough", "waiter": "absent/pending/resolved/timed-out"})
def ob_waiter_timeout(nw: int, b0: bool, b1: bool, b2: bool, q: int, wk: int, other_id: bool, bad_step: bool) -> bool:
    """
    pre: _valid_a(nw, b0, b1, b2, q) and q <= QMAX and nw <= NWMAX
    pre: 0 <= wk <= 3
    post: _
    """
    nw, q, wk = conc(nw, 1, 3), conc(q, 0, 2), conc(wk, 0, 3)
    b0, b1, b2, other_id, bad_step = concb(b0), concb(b1), concb(b2), concb(other_id), concb(bad_step)
    st = _world_a(nw, b0, b1, b2, q, wk, False)
    tick = TickWaiterTimeout(step_name=("nope" if bad_step else "a"), waiter_id=("zz" if other_id else "w1"))
    st2, cmds = _reduce_tick(tick, st, 1, "r")
    if not (rep_R1(st2) and rep_R2(st2)):
        return False
    w0, w2 = _get_w(st), _get_w(st2)
    if wk == K_PENDING and not other_id and not bad_step:
        return w2 is not None and w2.timed_out and w2.resolved_event is None and _n_wev(st2) == _n_wev(st) + 1
    if (w0 is None) != (w2 is None):
        return False
    same = w0 is None or (w2.resolved_event is w0.resolved_event and w2.timed_out == w0.timed_out)
    return same and _n_wev(st2) == _n_wev(st) and len([c for c in cmds if isinstance(c, CommandRunWorker)]) == 0


# --------------------------------------------------------------------------------------------------------------- Ob3

N_ACT = B(4, 6)
OUT = Done()


def _choose(c: int, n: int) -> int:
    for k in range(n - 1):
        if c == k:
            return k
    return n - 1


def _run_wait(nw, choices, nm_sub, tmo, catches):
    """One wait of step "a" (started by one EvA; requirement k == 1), then ``len(choices)`` environment actions chosen
    among the ENABLED ones, then a drain.  Actions: M a matching Resp(k=1) arrives; N a non-matching response arrives
    (Resp(k=2), or SubResp(k=1) if ``nm_sub``); T the scheduled waiter timeout fires (enabled once per
    CommandScheduleWaiterTimeout); C0 / C1 the first / second running invocation of "a" finishes."""
    st = broker({"a": worker_state(step_config([EvA], nw, None), [], [], {}, []),
                 "b": worker_state(step_config([EvB, StartEvent], 1, None), [], [], {}, [])})
    stat = {"done": 0, "asks": 0, "timeouts": 0, "bad": 0, "scheduled": 0, "fired": 0, "failed": False}

    def reduce(tick):
        nonlocal st
        st, cmds = _reduce_tick(tick, st, 1, "r")
        for c in cmds:
            if isinstance(c, CommandPublishEvent) and c.event is ASK:
                stat["asks"] += 1
            if isinstance(c, CommandScheduleWaiterTimeout):
                stat["scheduled"] += 1

    def complete(ip) -> None:
        k, val, rv = call_wait(ip.shared_state, Resp, waiter_event=ASK, waiter_id="w1", requirements={"k": 1},
                               timeout=(5 if tmo else None))
        if k == W_WAIT:
            res = list(rv) + [val]
        elif k == W_RET:
            if type(val) is not Resp or val.k != 1:
                stat["bad"] += 1
            stat["done"] += 1
            res = list(rv) + [StepWorkerResult(result=OUT)]
        else:
            stat["timeouts"] += 1
            if catches:
                stat["done"] += 1
                res = list(rv) + [StepWorkerResult(result=OUT)]
            else:
                res = list(rv) + [StepWorkerFailed(exception=val, failed_at=1.0)]
                stat["failed"] = True
        reduce(mk_step_result("a", ip.worker_id, ip.event, res))

    reduce(mk_add_event(W_EV))
    for c in choices:
        if stat["failed"]:
            break
        ips = sorted(st.workers["a"].in_progress, key=lambda x: x.worker_id)
        opts = ["M", "N"]
        if stat["fired"] < stat["scheduled"]:
            opts.append("T")
        if len(ips) >= 1:
            opts.append("C0")
        if len(ips) >= 2:
            opts.append("C1")
        a = opts[_choose(c, len(opts))]
        if a == "M":
            reduce(mk_add_event(Resp(k=1)))
        elif a == "N":
            reduce(mk_add_event(SubResp(k=1) if nm_sub else Resp(k=2)))
        elif a == "T":
            stat["fired"] += 1
            reduce(TickWaiterTimeout(step_name="a", waiter_id="w1"))
        elif a == "C0":
            complete(ips[0])
        else:
            complete(ips[1])
    guard = 0
    while st.workers["a"].in_progress and not stat["failed"]:
        guard += 1
        if guard > 12:
            raise vlib.boot.HarnessError("wait run does not quiesce")
        complete(sorted(st.workers["a"].in_progress, key=lambda x: x.worker_id)[0])
    return stat["done"] <= 1 and stat["asks"] <= 1 and stat["timeouts"] <= 1 and stat["bad"] == 0


@obligation(quick=180, thorough=900,
            partitions_quick=[f"nw == {w} and c0 == {a}" for w in (1, 2) for a in (0, 1, 2)],
            partitions_thorough=[f"nw == {w} and c0 == {a} and c1 == {b}" for w in (1, 2) for a in range(3) for b in range(4)],
            what="one wait (requirement k == 1), any sequence of matching / non-matching responses, timeout firing and worker "
                 "completions: the waiting step completes <= 1 time, waiter_event is published <= 1 time, TimeoutError is "
                 "raised <= 1 time, and a received event has exactly the awaited type and meets the requirement",
            bounds={"num_workers": "1..2", "actions": "4 (quick) / 6 (thorough) chosen among the enabled of {M, N, T, C0, C1}",
                    "non-matching kind": "wrong field / subclass", "timeout": "yes/no", "step catches TimeoutError": "yes (quick) / yes,no (thorough)"})
def ob_wait_run(nw: int, c0: int, c1: int, c2: int, c3: int, c4: int, c5: int, nm_sub: bool, tmo: bool, catches: bool) -> bool:
    """
    pre: 1 <= nw <= 2
    pre: 0 <= c0 <= 2 and 0 <= c1 <= 3 and 0 <= c2 <= 4 and 0 <= c3 <= 4 and 0 <= c4 <= 4 and 0 <= c5 <= 4
    pre: N_ACT >= 6 or (c4 == 0 and c5 == 0)
    pre: catches or (tmo and N_ACT >= 6)
    post: _
    """
    nw = conc(nw, 1, 2)
    choices = [c0, c1, c2, c3, c4, c5][:N_ACT]
    return _run_wait(nw, choices, concb(nm_sub), concb(tmo), concb(catches))


# --------------------------------------------------------------------------------------------------------------- Ob4


from vlib.h_handlers_twin import Resp as _TwinResp  # noqa: E402


class WaitWF(Workflow):
    """Real workflow whose step names/configs ``from_serialized`` rebuilds the broker state from."""

    @step
    async def b(self, ev: StartEvent) -> EvA:
        return EvA()

    @step(num_workers=2)
    async def a(self, ev: EvA) -> StopEvent:
        return StopEvent()

    @step
    async def c(self, ev: _TwinResp) -> StopEvent:
        # a step INPUT of another module's event class that has the same short name as the class step `a` waits for
        return StopEvent()

    def _get_steps(self):
        # speed only: the REAL Workflow._get_steps (inspect.getmembers reflection over the instance), tracer off
        return native(Workflow._get_steps, self)


def _wf_state(nw: int):
    wf = WaitWF(disable_validation=True)
    st = BrokerState.from_workflow(wf)
    st.is_running = True
    st.workers["a"].config.num_workers = nw
    st.config.steps["a"].num_workers = nw
    return wf, st


@obligation(quick=120, thorough=300, partitions_quick=["k1 <= 1", "k1 >= 2"], partitions_thorough=[f"k1 == {k}" for k in range(4)],
            what="to_serialized -> from_serialized keeps every waiter's id, awaited type, has_requirements and resolved "
                 "event; rehydrate_with_ticks re-pings (TickAddEvent of the waiter's own event to its step) each "
                 "requirement-bearing waiter exactly once and no other",
            bounds={"waiters": "0..2 (ids w1, w2)", "kinds": "pending/resolved/timed-out", "requirements": "none/one each"})
def ob_serialize_waiters(k1: int, k2: int, r1: bool, r2: bool, twice: bool) -> bool:
    """
    pre: 0 <= k1 <= 3 and 0 <= k2 <= 3
    post: _
    """
    k1, k2, r1, r2, twice = conc(k1, 0, 3), conc(k2, 0, 3), concb(r1), concb(r2), concb(twice)
    ev1, ev2 = EvA(tag=1), EvA(tag=2)
    ws = _mk_waiter(k1, r1, ev1)
    w2s = _mk_waiter(k2, r2, ev2)
    for w in w2s:
        w.waiter_id = "w2"
    # serialization happens on a quiescent or running state alike; waiters live in collected_waiters
    wf, st = native(_wf_state, 2)
    st.workers["a"].collected_waiters = ws + w2s
    ser = JsonSerializer()
    back = BrokerState.from_serialized(st.to_serialized(ser), wf, ser)
    if twice:  # a second round trip (resume, serialize again before the re-ping landed) must not lose has_requirements
        back = BrokerState.from_serialized(back.to_serialized(ser), wf, ser)
    got = back.workers["a"].collected_waiters
    want = ws + w2s
    if len(got) != len(want):
        return False
    for i in range(len(want)):
        g, w = got[i], want[i]
        if g.waiter_id != w.waiter_id or g.waiting_for_event is not Resp or g.has_requirements != w.has_requirements:
            return False
        if (g.resolved_event is None) != (w.resolved_event is None):
            return False
        if w.resolved_event is not None and not (type(g.resolved_event) is Resp and g.resolved_event.k == w.resolved_event.k):
            return False
        if type(g.event) is not EvA or g.event.tag != w.event.tag:
            return False
    ticks = back.rehydrate_with_ticks()
    for w in want:
        n = len([t for t in ticks if isinstance(t, TickAddEvent) and t.step_name == "a" and type(t.event) is EvA and t.event.tag == w.event.tag])
        if n != (1 if w.has_requirements else 0):
            return False
    return len(ticks) == len([w for w in want if w.has_requirements])


@obligation(quick=150, thorough=400, partitions_quick=["nw == 1", "nw == 2"], partitions_thorough=["nw == 1", "nw == 2"],
            what="after resume, while a requirement-bearing waiter is being re-pinged, a response is handed to the step only "
                 "if it has the awaited type and satisfies the requirements; completions <= 1, waiter_event not re-published",
            bounds={"num_workers": "1..2", "response": "k in {1,2} or subclass", "position of the response": "before / after the re-ping result",
                    "second response": "none / matching"})
def ob_resume_requirements(nw: int, kv: int, sub: bool, early: bool, second: bool) -> bool:
    """
    pre: 1 <= nw <= 2 and 1 <= kv <= 2
    post: _
    """
    nw, kv, sub, early, second = conc(nw, 1, 2), conc(kv, 1, 2), concb(sub), concb(early), concb(second)
    wf, st0 = native(_wf_state, nw)
    st0.workers["a"].collected_waiters = [waiter("w1", W_EV, Resp, {"k": 1})]
    ser = JsonSerializer()
    st = BrokerState.from_serialized(st0.to_serialized(ser), wf, ser)
    stat = {"done": 0, "asks": 0, "bad": 0}

    def reduce(tick):
        nonlocal st
        st, cmds = _reduce_tick(tick, st, 1, "r")
        for c in cmds:
            if isinstance(c, CommandPublishEvent) and type(c.event) is type(ASK):
                stat["asks"] += 1

    def complete(ip) -> None:
        k, val, rv = call_wait(ip.shared_state, Resp, waiter_event=ASK, waiter_id="w1", requirements={"k": 1}, timeout=None)
        if k == W_WAIT:
            res = list(rv) + [val]
        else:
            if type(val) is not Resp or val.k != 1:
                stat["bad"] += 1
            stat["done"] += 1
            res = list(rv) + [StepWorkerResult(result=OUT)]
        reduce(mk_step_result("a", ip.worker_id, ip.event, res))

    def first_ip():
        ips = sorted(st.workers["a"].in_progress, key=lambda x: x.worker_id)
        return ips[0] if ips else None

    for t in st.rehydrate_with_ticks():
        reduce(t)
    resp = SubResp(k=kv) if sub else Resp(k=kv)
    if early:
        reduce(mk_add_event(resp))
        if first_ip() is not None:
            complete(first_ip())
    else:
        if first_ip() is not None:
            complete(first_ip())
        reduce(mk_add_event(resp))
    if second and st.is_running:
        reduce(mk_add_event(Resp(k=1)))
    guard = 0
    while st.is_running and st.workers["a"].in_progress:
        guard += 1
        if guard > 10:
            raise vlib.boot.HarnessError("resume run does not quiesce")
        complete(first_ip())
    return stat["bad"] == 0 and stat["done"] <= 1 and stat["asks"] == 0


# --------------------------------------------------------------------------------------------------------------- default waiter ids


def _req(k: int):
    """0: none, 1: {"k": 1}, 2: {"k": 2} (same key, other value), 3: {"j": 1} (other key), 4: {"k": 1, "j": 1}"""
    return [None, {"k": 1}, {"k": 2}, {"j": 1}, {"k": 1, "j": 1}][k]


@obligation(quick=90, thorough=200,
            what="waits WITHOUT an explicit waiter_id: the real wait_for_event gives two waits the same waiter id iff they wait for the same event "
                 "type with equal requirements (keys AND values) — so a replayed wait finds its own waiter, and two different waits of one step "
                 "(e.g. requirements={'qid': 1} and {'qid': 2}) never share one; with the second wait registered through the real reducer both "
                 "waiters exist side by side, each published its waiter_event once",
            bounds={"event types": 2, "requirements": "none / {k:1} / {k:2} / {j:1} / {k:1,j:1}"})
def ob_default_waiter_id(t1: bool, r1: int, t2: bool, r2: int) -> bool:
    """
    pre: 0 <= r1 <= 4 and 0 <= r2 <= 4
    post: _
    """
    t1, t2, r1, r2 = concb(t1), concb(t2), conc(r1, 0, 4), conc(r2, 0, 4)
    ty1, ty2 = (Resp if t1 else SubResp), (Resp if t2 else SubResp)
    from vlib.world import shared as _shared

    empty = _shared("a")
    k1, add1, _ = call_wait(empty, ty1, waiter_event=ASK, requirements=_req(r1), timeout=None)
    k2, add2, _ = call_wait(empty, ty2, waiter_event=ASK, requirements=_req(r2), timeout=None)
    if k1 != W_WAIT or k2 != W_WAIT:
        return False
    same_wait = (ty1 is ty2) and (_req(r1) or {}) == (_req(r2) or {})
    if (add1.waiter_id == add2.waiter_id) != same_wait:
        return False
    # determinism: asking again gives the same id (a replay must find its waiter)
    k1b, add1b, _ = call_wait(empty, ty1, waiter_event=ASK, requirements=_req(r1), timeout=None)
    if add1b.waiter_id != add1.waiter_id:
        return False
    # both registered through the real reducer (two invocations of step a, one wait each)
    st = _world_a(2, True, True, False, 0, K_ABSENT, False)
    st, c1 = _reduce_tick(mk_step_result("a", 0, W_EV, [add1]), st, 1, "r")
    st, c2 = _reduce_tick(mk_step_result("a", 1, W_EV, [add2]), st, 1, "r")
    asks = len([c for c in c1 + c2 if isinstance(c, CommandPublishEvent) and c.event is ASK])
    ws = st.workers["a"].collected_waiters
    if same_wait:
        return len(ws) == 1 and asks == 1
    return len(ws) == 2 and asks == 2
