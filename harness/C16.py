"""C16 — the stored event log is gap-free and resumable from any cursor; memory and SQLite stores agree.

Obligations execute the REAL ``append_event`` / ``query_events`` / ``subscribe_events`` of MemoryWorkflowStore,
SqliteWorkflowStore (fresh tmp file per path) and the default polling ``AbstractWorkflowStore.subscribe_events``.
Symbolic: which run each append goes to, the cursor, the position / kind of the terminal event, the instants of
the writer's appends, the instant the subscriber starts and how slowly it consumes (virtual time on MiniLoop)."""
from __future__ import annotations

import vlib.boot  # noqa: F401
from vlib.boot import B, drive
from vlib.ob import obligation
from vlib.miniloop import MiniLoop
from vlib.h_stores import TmpDir, env_plain, env_term, ev_key, pick_int, warm_sqlite

import ast
import asyncio
import os

from llama_agents.server._store.abstract_workflow_store import (
    AbstractWorkflowStore, HandlerQuery, PersistentHandler, is_terminal_status,
)
from llama_agents.server._store.memory_workflow_store import MemoryWorkflowStore
from llama_agents.server._store.sqlite.sqlite_workflow_store import SqliteWorkflowStore
from llama_agents.client.protocol.serializable_events import EventEnvelopeWithMetadata
from workflows.events import InternalDispatchEvent

ENCODED = [
    "llama_agents.server._store.memory_workflow_store:MemoryWorkflowStore.append_event",
    "llama_agents.server._store.memory_workflow_store:MemoryWorkflowStore.query_events",
    "llama_agents.server._store.memory_workflow_store:MemoryWorkflowStore.subscribe_events",
    "llama_agents.server._store.sqlite.sqlite_workflow_store:SqliteWorkflowStore.append_event",
    "llama_agents.server._store.sqlite.sqlite_workflow_store:SqliteWorkflowStore.query_events",
    "llama_agents.server._store.sqlite.sqlite_workflow_store:SqliteWorkflowStore.subscribe_events",
    "llama_agents.server._store.abstract_workflow_store:AbstractWorkflowStore.subscribe_events",
    "llama_agents.server._store.abstract_workflow_store:AbstractWorkflowStore._is_terminal_event",
]
ASSUMES = [
    "one writer per run publishes in order (the server serialises writes with _ServerInternalRunAdapter._write_lock); "
    "its inter-append gaps, the subscriber's start instant and the subscriber's per-event consumption delay are "
    "symbolic ints (virtual time on vlib.miniloop.MiniLoop, FIFO ready queue like asyncio)",
    "sqlite3 / pydantic / json execute concretely inside each path; fresh tmp database per path",
    "event payloads come from a pool of real envelopes built by the real EventEnvelopeWithMetadata.from_event "
    "(plain event, StopEvent, StopEvent subclass, WorkflowCancelledEvent)",
    "subscription cursors k are below the terminal event's sequence (a subscription at/after the terminal event "
    "never ends by design; the HTTP layer refuses it via _resolve_event_stream, checked in ob_resolve_event_stream)",
    "_resolve_event_stream is lifted by AST from the current _api.py (starlette is absent); HTTPException is a bare "
    "exception class in the lifted namespace",
]
OUTSIDE = [
    "more than NMAX appends, more than two run ids, several concurrent writers for ONE run id",
    "HTTP/SSE framing through starlette; Postgres / agent-data stores",
    "two OS processes writing one SQLite file concurrently (MAX+1 race)",
]

warm_sqlite()

NMAX = B(4, 5)      # appends in the interleaving obligations (memory)
NSQ = B(3, 5)       # appends in the interleaving obligation (sqlite + differential)
SMAX = B(3, 4)      # events in the subscription obligations
SSQL = B(3, 4)      # events in the sqlite subscription obligation
SLOWSQ = B(0, 2)    # consumer delay range in the sqlite subscription obligation
GMAX = B(1, 2)      # writer gap / consumer delay range


# ----------------------------------------------------------------------------------------------- append / query
def _append_script(st, n, sel):
    """n appends; append i goes to run 'b' iff sel[i]; returns per-run payload indices in append order."""
    order = {"a": [], "b": []}
    for i in range(n):
        r = "b" if sel[i] else "a"
        drive(st.append_event(r, env_plain(i)))
        order[r].append(i)
    return order


def _log_ok(st, order, k) -> bool:
    for r in ("a", "b"):
        evs = drive(st.query_events(r))
        m = len(order[r])
        if len(evs) != m:
            return False
        for j in range(m):
            e = evs[j]
            if e.sequence != j or e.run_id != r or e.event.value.get("i") != order[r][j]:
                return False
        got = drive(st.query_events(r, after_sequence=k))
        want = [j for j in range(m) if j > k]
        if [e.sequence for e in got] != want:
            return False
        if [e.event.value.get("i") for e in got] != [order[r][j] for j in want]:
            return False
    return True


@obligation(quick=60, thorough=200, what="memory: any interleaving of appends over 2 runs gives per-run sequences 0..n-1 in append order; query_events(after=k) = seq>k in order",
            bounds={"appends": "0..NMAX", "runs": 2, "k": "-1..n"})
def ob_mem_append_query(n: int, s0: bool, s1: bool, s2: bool, s3: bool, s4: bool, k: int) -> bool:
    """
    pre: 0 <= n <= NMAX and -1 <= k <= n
    post: _
    """
    st = MemoryWorkflowStore()
    order = _append_script(st, n, [s0, s1, s2, s3, s4])
    return _log_ok(st, order, k)


@obligation(quick=90, thorough=300, partitions_quick=["not s0", "s0"], partitions_thorough=["not s0 and not s1", "not s0 and s1", "s0 and not s1", "s0 and s1"],
            what="sqlite (tmp file): same as ob_mem_append_query, and query results equal the memory store's on the same script",
            bounds={"appends": "0..NSQ", "runs": 2, "k": "-1..n"})
def ob_sqlite_append_query_diff(n: int, s0: bool, s1: bool, s2: bool, s3: bool, s4: bool, k: int) -> bool:
    """
    pre: 0 <= n <= NSQ and -1 <= k <= n
    post: _
    """
    sel = [s0, s1, s2, s3, s4]
    with TmpDir() as d:
        sq = SqliteWorkflowStore(os.path.join(d, "s.db"))
        mem = MemoryWorkflowStore()
        order = _append_script(sq, n, sel)
        _append_script(mem, n, sel)
        k = pick_int(k, -1, NMAX)   # sqlite3 binds the cursor into SQL: concrete per path, enumerated by forks
        if not _log_ok(sq, order, k):
            return False
        for r in ("a", "b"):
            if [ev_key(e) for e in drive(sq.query_events(r, after_sequence=k))] != [ev_key(e) for e in drive(mem.query_events(r, after_sequence=k))]:
                return False
            if [ev_key(e) for e in drive(sq.query_events(r))] != [ev_key(e) for e in drive(mem.query_events(r))]:
                return False
    return True


# ----------------------------------------------------------------------------------------------- subscriptions
def _subscribe_scenario(make_sub, writer_store, n, nb, tpos, k, g1, g2, g3, slow, sub_first, kconc=False):
    """Events 0..n-1 go to run 'a' in order (event tpos is terminal, of kind tpos % 3).  The first nb are appended
    before the subscription starts; the writer task appends the rest, sleeping gap g_i before append i (0 = one
    loop iteration).  The subscriber starts at instant 0 with cursor k and sleeps `slow` after every received event.
    Returns the list of yielded (sequence, payload) pairs, or None if the subscription did not end."""
    # instants / counts are made concrete per path by explicit forks (the solver enumerates them); the cursor k and
    # the terminal position stay symbolic inside the real code unless the backend binds them into SQL
    n = pick_int(n, 1, SMAX)
    nb = pick_int(nb, 0, n)
    gaps = [0, pick_int(g1, 0, GMAX), pick_int(g2, 0, GMAX), pick_int(g3, 0, GMAX)]
    slow = pick_int(slow, 0, GMAX)
    if kconc:
        k = pick_int(k, -1, SMAX)
    got = []

    def payload(i):
        return env_term(pick_int(tpos, 0, SMAX) % 3) if i == tpos else env_plain(i)

    async def writer():
        for i in range(nb, n):
            await asyncio.sleep(gaps[i])
            if i == 1:
                await writer_store.append_event("b", env_plain(7))   # another run's event: different condition
            await writer_store.append_event("a", payload(i))

    async def subscriber():
        async for e in make_sub("a", k):
            got.append((e.sequence, e.event.value.get("i")))
            await asyncio.sleep(slow)

    async def main():
        for i in range(nb):
            await writer_store.append_event("a", payload(i))
        if sub_first:
            s = asyncio.ensure_future(subscriber())
            w = asyncio.ensure_future(writer())
        else:
            w = asyncio.ensure_future(writer())
            s = asyncio.ensure_future(subscriber())
        await w
        try:
            await asyncio.wait_for(s, timeout=1000)
        except asyncio.TimeoutError:
            return False
        return True

    ended = MiniLoop().run_until_complete(main())
    return got if ended else None


def _sub_expected(tpos, k):
    return [(j, None if j == tpos else j) for j in range(k + 1, tpos + 1)]


_SUB_BOUNDS = {"events": "1..SMAX", "appended before subscribing": "0..n", "terminal position": "0..n-1 (later events may follow it)",
               "cursor k": "-1..tpos-1", "writer gaps": "0..GMAX each", "consumer delay": "0..GMAX", "task creation order": "both"}


@obligation(quick=120, thorough=400, partitions_quick=[f"sub_first == {b} and slow == {s}" for b in (True, False) for s in (0, 1)],
            partitions_thorough=[f"n == {n} and sub_first == {b} and slow == {s}" for n in (1, 2, 3, 4) for b in (True, False) for s in (0, 1, 2)],
            what="memory subscribe_events(after=k) with appends before/during the subscription: yields exactly seq k+1..t (t = first terminal) once each, in order, then stops",
            bounds=_SUB_BOUNDS)
def ob_mem_subscribe(n: int, nb: int, tpos: int, k: int, g1: int, g2: int, g3: int, slow: int, sub_first: bool) -> bool:
    """
    pre: 1 <= n <= SMAX and 0 <= nb <= n and 0 <= tpos < n and -1 <= k < tpos
    pre: 0 <= g1 <= GMAX and 0 <= g2 <= GMAX and 0 <= g3 <= GMAX and 0 <= slow <= GMAX
    pre: (n > 1 and nb <= 1 or g1 == 0) and (n > 2 and nb <= 2 or g2 == 0) and (n > 3 and nb <= 3 or g3 == 0)
    post: _
    """
    st = MemoryWorkflowStore()
    got = _subscribe_scenario(st.subscribe_events, st, n, nb, tpos, k, g1, g2, g3, slow, sub_first)
    return got == _sub_expected(tpos, k)


@obligation(quick=150, thorough=500,
            partitions_quick=[f"sub_first == {b} and other == {o} and g1 == {g}" for b in (True, False) for o in (True, False) for g in (0, 1)],
            partitions_thorough=[f"n == {n} and sub_first == {b} and slow == {s} and other == {o}" for n in (1, 2, 3, 4) for b in (True, False) for s in (0, 1, 2) for o in (True, False)],
            what="sqlite subscribe_events(after=k), notify wake-up (same store object writes) and poll-timeout wake-up (another store object on the same file writes): exactly seq k+1..t once each, then stops",
            bounds=dict(_SUB_BOUNDS, **{"events": "1..SSQL", "consumer delay": "0..SLOWSQ", "wake-up path": "notify / poll timeout", "poll_interval": 1}))
def ob_sqlite_subscribe(n: int, nb: int, tpos: int, k: int, g1: int, g2: int, g3: int, slow: int, sub_first: bool, other: bool) -> bool:
    """
    pre: 1 <= n <= SSQL and 0 <= nb <= n and 0 <= tpos < n and -1 <= k < tpos
    pre: 0 <= g1 <= GMAX and 0 <= g2 <= GMAX and 0 <= g3 <= GMAX and 0 <= slow <= SLOWSQ
    pre: (n > 1 and nb <= 1 or g1 == 0) and (n > 2 and nb <= 2 or g2 == 0) and (n > 3 and nb <= 3 or g3 == 0)
    post: _
    """
    with TmpDir() as d:
        path = os.path.join(d, "s.db")
        st = SqliteWorkflowStore(path, poll_interval=1)
        wr = SqliteWorkflowStore(path, poll_interval=1) if other else st
        got = _subscribe_scenario(st.subscribe_events, wr, n, nb, tpos, k, g1, g2, g3, slow, sub_first, kconc=True)
    return got == _sub_expected(tpos, k)


@obligation(quick=120, thorough=400, partitions_quick=[f"sub_first == {b} and slow == {s}" for b in (True, False) for s in (0, 1)],
            partitions_thorough=[f"n == {n} and sub_first == {b} and slow == {s}" for n in (1, 2, 3, 4) for b in (True, False) for s in (0, 1, 2)],
            what="default polling AbstractWorkflowStore.subscribe_events (over the memory store's real query_events): exactly seq k+1..t once each, then stops",
            bounds=dict(_SUB_BOUNDS, **{"poll_interval": 1}))
def ob_default_poll_subscribe(n: int, nb: int, tpos: int, k: int, g1: int, g2: int, g3: int, slow: int, sub_first: bool) -> bool:
    """
    pre: 1 <= n <= SMAX and 0 <= nb <= n and 0 <= tpos < n and -1 <= k < tpos
    pre: 0 <= g1 <= GMAX and 0 <= g2 <= GMAX and 0 <= g3 <= GMAX and 0 <= slow <= GMAX
    pre: (n > 1 and nb <= 1 or g1 == 0) and (n > 2 and nb <= 2 or g2 == 0) and (n > 3 and nb <= 3 or g3 == 0)
    post: _
    """
    st = MemoryWorkflowStore()
    st.poll_interval = 1

    def sub(run_id, after):
        return AbstractWorkflowStore.subscribe_events(st, run_id, after)

    got = _subscribe_scenario(sub, st, n, nb, tpos, k, g1, g2, g3, slow, sub_first)
    return got == _sub_expected(tpos, k)


# ----------------------------------------------------------------------------------------------- HTTP cursor resolution
class HTTPException(Exception):
    """stands in for starlette.exceptions.HTTPException in the lifted namespace: a bare exception class, no behaviour"""

    def __init__(self, detail=None, status_code=None):
        super().__init__(detail)
        self.detail = detail
        self.status_code = status_code


def _lift_resolve_event_stream():
    """Cut ``_WorkflowAPI._resolve_event_stream`` out of the CURRENT _api.py (the module needs starlette) and compile it
    into a namespace holding only the names it references."""
    import textwrap
    from typing import AsyncGenerator
    from vlib import paths

    path = os.path.join(paths.PKG, "llama-agents-server", "src", "llama_agents", "server", "_api.py")
    src = open(path).read()
    tree = ast.parse(src)
    for node in tree.body:
        if isinstance(node, ast.ClassDef) and node.name == "_WorkflowAPI":
            for f in node.body:
                if isinstance(f, ast.AsyncFunctionDef) and f.name == "_resolve_event_stream":
                    seg = textwrap.dedent("\n".join(src.split("\n")[f.lineno - 1 : f.end_lineno]))
                    ns = {
                        "HandlerQuery": HandlerQuery, "HTTPException": HTTPException, "is_terminal_status": is_terminal_status,
                        "AbstractWorkflowStore": AbstractWorkflowStore, "InternalDispatchEvent": InternalDispatchEvent,
                        "AsyncGenerator": AsyncGenerator, "EventEnvelopeWithMetadata": EventEnvelopeWithMetadata,
                    }
                    exec(compile("from __future__ import annotations\n" + seg, path, "exec"), ns)
                    return ns["_resolve_event_stream"]
    raise vlib.boot.HarnessError("_WorkflowAPI._resolve_event_stream not found in _api.py")


_RESOLVE = _lift_resolve_event_stream()


class _Svc:
    def __init__(self, store):
        self.store = store


class _Api:
    def __init__(self, store):
        self._service = _Svc(store)


@obligation(quick=90, thorough=200, partitions_quick=["now", "not now"], partitions_thorough=["now", "not now"],
            what="_resolve_event_stream (lifted): 'now' = current max sequence; None iff nothing above the cursor AND run complete; else the generator "
                 "yields exactly the sequences above the cursor (incl. a terminal event appended later) and ends after the terminal one; 404 for unknown handler / no run",
            bounds={"stored events": "0..3", "cursor": "now | -1..n-1 (a recorded event)", "handler status": "4", "last stored event terminal": "bool", "handler": "known / unknown / no run_id"})
def ob_resolve_event_stream(n: int, last_term: bool, sti: int, now: bool, a: int, hmode: int) -> bool:
    """
    pre: 0 <= n <= 3 and 0 <= sti <= 3 and -1 <= a < n and 0 <= hmode <= 2 and (n > 0 or not last_term)
    pre: (not now) or a == -1
    post: _
    """
    st = MemoryWorkflowStore()
    n = pick_int(n, 0, 3)
    status = "running" if sti == 0 else ("completed" if sti == 1 else ("failed" if sti == 2 else "cancelled"))
    drive(st.update(PersistentHandler(handler_id="h0", workflow_name="w", status=status, run_id=(None if hmode == 2 else "a"))))
    for i in range(n):
        drive(st.append_event("a", env_term(i % 3) if (last_term and i == n - 1) else env_plain(i)))
    api = _Api(st)
    try:
        gen = drive(_RESOLVE(api, "zz" if hmode == 1 else "h0", after_sequence=(None if now else a), include_internal=True, include_qualified_name=True))
    except HTTPException as e:
        return hmode != 0 and e.status_code == 404
    if hmode != 0:
        return False
    eff = (n - 1) if now else a
    remaining = [j for j in range(n) if j > eff]
    complete = (sti != 0) or last_term
    if not remaining and complete:
        return gen is None
    if gen is None:
        return False
    want = list(remaining)
    has_term = last_term and (n - 1) in remaining

    async def main():
        got = []
        if not has_term:
            await st.append_event("a", env_term(0))   # published after the cursor was resolved
        async for seq, envelope in gen:
            got.append(seq)
        return got

    if not has_term:
        want = want + [n]
    got = MiniLoop().run_until_complete(main())
    return got == want


# ------------------------------------------------------------------------------------------------ several live subscribers


def _multi_sub_scenario(store, n, k1, k2, g1, g2, slow1):
    """Events 0..n-1 (the last one terminal) are appended ONE AT A TIME (gap g_i before append i, 0 = one loop iteration) while two
    subscribers with cursors k1, k2 are live from instant 0; subscriber 1 sleeps `slow1` after every event.
    Returns the two yielded sequence lists, or None for a subscriber that did not end."""
    n = pick_int(n, 2, 3)
    gaps = [0, pick_int(g1, 0, GMAX), pick_int(g2, 0, GMAX)]
    slow1 = pick_int(slow1, 0, GMAX)
    k1, k2 = pick_int(k1, -1, 1), pick_int(k2, -1, 1)
    got = [[], []]

    def payload(i):
        return env_term(i % 3) if i == n - 1 else env_plain(i)

    async def writer():
        for i in range(n):
            await asyncio.sleep(gaps[i])
            await store.append_event("a", payload(i))

    async def subscriber(j, k, slow):
        async for e in store.subscribe_events("a", k):
            got[j].append(e.sequence)
            await asyncio.sleep(slow)

    async def main():
        s1 = asyncio.ensure_future(subscriber(0, k1, slow1))
        s2 = asyncio.ensure_future(subscriber(1, k2, 0))
        w = asyncio.ensure_future(writer())
        await w
        ended = []
        for s in (s1, s2):
            try:
                await asyncio.wait_for(s, timeout=1000)
                ended.append(True)
            except asyncio.TimeoutError:
                ended.append(False)
        return ended

    ended = MiniLoop().run_until_complete(main())
    return [got[j] if ended[j] else None for j in (0, 1)]


@obligation(quick=150, thorough=400, partitions_quick=[f"n == {n} and sq == {s}" for n in (2, 3) for s in (False, True)],
            partitions_thorough=[f"n == {n} and sq == {s} and k1 == {k}" for n in (2, 3) for s in (False, True) for k in (-1, 0, 1) if k <= n - 2],
            what="TWO live subscribers of one run (cursors symbolic, one of them slow) while events are appended one at a time: each gets exactly "
                 "the events above its own cursor, in order, once, and its stream ends right after the terminal event — memory and SQLite alike",
            bounds={"events": "2..3 (last one terminal)", "cursors": "-1..n-2 each", "writer gaps": "0..GMAX", "slow subscriber delay": "0..GMAX"})
def ob_two_subscribers(n: int, k1: int, k2: int, g1: int, g2: int, slow1: int, sq: bool) -> bool:
    """
    pre: 2 <= n <= 3 and -1 <= k1 <= n - 2 and -1 <= k2 <= n - 2
    pre: 0 <= g1 <= GMAX and 0 <= g2 <= GMAX and 0 <= slow1 <= GMAX and (n > 2 or g2 == 0)
    post: _
    """
    n = pick_int(n, 2, 3)
    if sq:
        with TmpDir() as tmp:
            st = SqliteWorkflowStore(os.path.join(tmp, "s.db"), poll_interval=1.0)
            r = _multi_sub_scenario(st, n, k1, k2, g1, g2, slow1)
    else:
        r = _multi_sub_scenario(MemoryWorkflowStore(), n, k1, k2, g1, g2, slow1)
    k1, k2 = pick_int(k1, -1, 1), pick_int(k2, -1, 1)
    return r[0] == list(range(k1 + 1, n)) and r[1] == list(range(k2 + 1, n))


# ------------------------------------------------------------------------------------------------ the writer: publication order
# Steps publish with ctx.write_event_to_stream(), which is fire-and-forget: several publications of one step execution are in flight at
# once and _ServerInternalRunAdapter.write_to_event_stream is what numbers them (store.append_event under its write lock, wrapped in the
# runtime's retry/back-off).  "Consecutive sequence numbers in publication order" has to survive a transient append failure.
from vlib.h_stores2 import FaultStore, StubInner  # noqa: E402
from vlib.h_stores import untraced as _untraced  # noqa: E402
from llama_agents.server._runtime.server_runtime import ServerRuntimeDecorator, _ServerInternalRunAdapter  # noqa: E402
from workflows.events import Event as _WEvent  # noqa: E402
from workflows.plugins.basic import BasicRuntime as _BasicRuntime  # noqa: E402


class Tok(_WEvent):
    i: int


@obligation(quick=120, thorough=300, partitions_quick=[f"app_mode == {m}" for m in (0, 1, 2)],
            what="the REAL _ServerInternalRunAdapter.write_to_event_stream over ServerRuntimeDecorator._retry_store_write: n publications started "
                 "in order as concurrent tasks (what fire-and-forget ctx.write_event_to_stream does), the first or second append failing "
                 "transiently f times (back-off waited out): the stored log numbers them 0..n-1 in publication order, on both stores",
            bounds={"publications": "2..4", "failing append": "none / 1st / 2nd", "consecutive failures": "1..2 (= len(backoff))", "store": "memory / sqlite"})
def ob_writer_publication_order(n: int, app_mode: int, f: int, sq: bool) -> bool:
    """
    pre: 2 <= n <= 4 and 0 <= app_mode <= 2 and 1 <= f <= 2
    post: _
    """
    n, app_mode, f = pick_int(n, 2, 4), pick_int(app_mode, 0, 2), pick_int(f, 1, 2)
    sq = True if sq else False
    with _untraced():
        return _writer_scenario(n, app_mode, f, sq)


def _writer_scenario(n: int, app_mode: int, f: int, sq: bool) -> bool:
    with TmpDir() as tmp:
        inner_store = SqliteWorkflowStore(os.path.join(tmp, "s.db")) if sq else MemoryWorkflowStore()
        store = FaultStore(inner_store, (), app_mode, f)
        rt = ServerRuntimeDecorator(_BasicRuntime(), store, persistence_backoff=[1, 2])
        adapter = _ServerInternalRunAdapter(StubInner("r0", False), rt)
        loop = MiniLoop()

        async def main():
            tasks = [asyncio.ensure_future(adapter.write_to_event_stream(Tok(i=i))) for i in range(n)]
            await asyncio.gather(*tasks)
            return await inner_store.query_events("r0")

        stored = loop.run_until_complete(main())
    if [e.sequence for e in stored] != list(range(n)):
        return False
    return [e.event.value.get("i") for e in stored] == list(range(n))


# ----------------------------------------------------------------------------------------------- repeated payloads
@obligation(quick=90, thorough=200, partitions_quick=["not sq", "sq"], partitions_thorough=["not sq", "sq"],
            what="a run that publishes the SAME payload several times (a progress ping, a repeated token): every append is one stored event — "
                 "n appends with payloads drawn from {0, 1} give sequences 0..n-1 carrying exactly the appended payloads, on both backends",
            bounds={"appends": "1..4", "payload of each append": "0 or 1 (adjacent duplicates in most sequences)", "store": "memory / sqlite"})
def ob_repeated_payloads_each_stored(n: int, p0: bool, p1: bool, p2: bool, p3: bool, sq: bool) -> bool:
    """
    pre: 1 <= n <= 4
    post: _
    """
    n = pick_int(n, 1, 4)
    ps = [1 if p else 0 for p in (p0, p1, p2, p3)][:n]
    sq = True if sq else False
    with _untraced():
        with TmpDir() as d:
            st = SqliteWorkflowStore(os.path.join(d, "s.db")) if sq else MemoryWorkflowStore()
            for p in ps:
                drive(st.append_event("a", env_plain(p)))
            evs = drive(st.query_events("a"))
            return [e.sequence for e in evs] == list(range(n)) and [e.event.value.get("i") for e in evs] == ps


# ----------------------------------------------------------------------------------------------- a subscriber that goes away
def _leaving_sub_scenario(store, n, xc, g1, g2, kind) -> Any:
    """Events 0..n-1 (last one terminal), appended one at a time with gaps; subscriber A (cursor -1) is live from instant 0 and goes away at
    instant xc (kind 0: its task is cancelled — a dead connection noticed by the server; kind 1: the consumer closes the generator after the
    event it is at); subscriber B (cursor -1) stays.  Returns B's yielded sequences, or None if B's stream did not end."""
    got: List[int] = []

    def payload(i):
        return env_term(i % 3) if i == n - 1 else env_plain(i)

    async def writer():
        gaps = [g1, g2, g2]
        for i in range(n):
            await asyncio.sleep(gaps[i])
            await store.append_event("a", payload(i))

    async def leaving():
        gen = store.subscribe_events("a", -1)
        try:
            async for _e in gen:
                if kind == 1 and asyncio.get_event_loop().time() >= xc:
                    break
        finally:
            await gen.aclose()

    async def staying():
        async for e in store.subscribe_events("a", -1):
            got.append(e.sequence)

    async def main():
        a = asyncio.ensure_future(leaving())
        b = asyncio.ensure_future(staying())

        async def killer():
            await asyncio.sleep(xc)
            if kind == 0 and not a.done():
                a.cancel()

        k = asyncio.ensure_future(killer())
        await asyncio.ensure_future(writer())
        await k
        await asyncio.gather(a, return_exceptions=True)
        try:
            await asyncio.wait_for(b, timeout=1000)
            return True
        except asyncio.TimeoutError:
            return False

    ended = MiniLoop().run_until_complete(main())
    return got if ended else None


@obligation(quick=150, thorough=400, partitions_quick=[f"sq == {s} and kind == {k}" for s in (False, True) for k in (0, 1)],
            partitions_thorough=[f"sq == {s} and kind == {k} and n == {n}" for s in (False, True) for k in (0, 1) for n in (2, 3)],
            what="two subscribers of one run, one of them GOES AWAY (its task is cancelled, or it closes its stream) at a symbolic instant while "
                 "the other is waiting: the one that stays still receives every later event exactly once, in order, and its stream ends right "
                 "after the terminal event — memory and SQLite alike (SQLite: without falling back to its poll interval is not asserted, only "
                 "delivery)",
            bounds={"events": "2..3 (last one terminal)", "the leaving subscriber goes at": "0..3", "writer gaps": "1..2 / 0..2"})
def ob_subscriber_leaves_other_stays(n: int, xc: int, g1: int, g2: int, kind: int, sq: bool) -> bool:
    """
    pre: 2 <= n <= 3 and 0 <= xc <= 3 and 1 <= g1 <= 2 and 0 <= g2 <= 2 and 0 <= kind <= 1
    post: _
    """
    n, xc, g1, g2, kind = pick_int(n, 2, 3), pick_int(xc, 0, 3), pick_int(g1, 1, 2), pick_int(g2, 0, 2), pick_int(kind, 0, 1)
    if sq:
        with TmpDir() as tmp:
            st = SqliteWorkflowStore(os.path.join(tmp, "s.db"), poll_interval=1.0)
            r = _leaving_sub_scenario(st, n, xc, g1, g2, kind)
    else:
        r = _leaving_sub_scenario(MemoryWorkflowStore(), n, xc, g1, g2, kind)
    return r == list(range(n))
